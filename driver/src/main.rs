//! thv-driver: rustc_private fact extractor for the tiny-http static checks.
//!
//! It decides nothing. For every crate compiled through it (RUSTC_WORKSPACE_WRAPPER) it writes one
//! JSON fact file `$THV_OUT/<crate>-<kind>-<id>.json` with
//!   * `bodies`: MIR of every local fn-like body (and of extern non-std generic bodies reached by
//!      the mono walk), statements/terminators with resolved callees, field names, constants;
//!   * `adts`, `impls`: type and trait-impl census;
//!   * `instances`: a monomorphic call graph (the same walk rustc's collector does), including
//!      drop glue, closure shims and vtable fan-out facts.
#![feature(rustc_private)]
#![allow(clippy::too_many_arguments)]

extern crate rustc_abi;
extern crate rustc_data_structures;
extern crate rustc_driver;
extern crate rustc_hir;
extern crate rustc_index;
extern crate rustc_interface;
extern crate rustc_middle;
extern crate rustc_session;
extern crate rustc_span;

mod json;
use json::J;

use rustc_data_structures::fx::{FxHashMap, FxHashSet};
use rustc_driver::{Callbacks, Compilation};
use rustc_hir::def::DefKind;
use rustc_hir::def_id::{DefId, LOCAL_CRATE};
use rustc_middle::mir::{
    self, AggregateKind, BasicBlock, Body, CastKind, Operand, Place, PlaceElem, Rvalue,
    StatementKind, TerminatorKind, UnwindAction, VarDebugInfoContents,
};
use rustc_middle::ty::adjustment::PointerCoercion;
use rustc_middle::ty::print::with_no_trimmed_paths;
use rustc_middle::ty::{
    self, EarlyBinder, GenericArgs, GenericArgsRef, Instance, InstanceKind, Ty, TyCtxt, TypingEnv,
    TypeVisitableExt, VtblEntry,
};
use rustc_span::Span;

struct Cb;

impl Callbacks for Cb {
    fn after_analysis<'tcx>(
        &mut self,
        _c: &rustc_interface::interface::Compiler,
        tcx: TyCtxt<'tcx>,
    ) -> Compilation {
        if let Ok(dir) = std::env::var("THV_OUT") {
            if tcx.dcx().has_errors().is_none() {
                dump_crate(tcx, &dir);
            }
        }
        Compilation::Continue
    }
}

fn main() {
    let mut args: Vec<String> = std::env::args().collect();
    // Invoked as RUSTC_WORKSPACE_WRAPPER: argv = [driver, /path/to/rustc, args...]
    if args.len() > 1 && (args[1].ends_with("rustc") || args[1].ends_with("rustc.exe")) {
        args.remove(0);
    }
    let code = rustc_driver::catch_with_exit_code(|| {
        rustc_driver::run_compiler(&args, &mut Cb);
    });
    std::process::exit(if code == std::process::ExitCode::SUCCESS { 0 } else { 1 });
}

// ------------------------------------------------------------------------------------------------

fn tys<'tcx>(t: Ty<'tcx>) -> String {
    with_no_trimmed_paths!(format!("{}", t))
}

fn dps(tcx: TyCtxt<'_>, d: DefId) -> String {
    with_no_trimmed_paths!(tcx.def_path_str(d))
}

fn krate_name(tcx: TyCtxt<'_>, d: DefId) -> String {
    tcx.crate_name(d.krate).to_string()
}

fn is_stdish(name: &str) -> bool {
    matches!(
        name,
        "std" | "core" | "alloc" | "hashbrown" | "std_detect" | "compiler_builtins" | "libc"
            | "memchr" | "unwind" | "panic_unwind" | "panic_abort" | "addr2line" | "gimli"
            | "object" | "miniz_oxide" | "rustc_demangle" | "cfg_if" | "adler2" | "proc_macro"
            | "test" | "getopts"
    )
}

/// Small std combinators whose bodies the rules interpret instead of summarising (Option / Result
/// methods, the `?` desugaring, Ordering helpers, mem::{swap, replace, take}).
fn std_small(path: &str) -> bool {
    path.starts_with("std::option::Option::<")
        || path.starts_with("std::result::Result::<")
        || ((path.starts_with("<std::option::Option<") || path.starts_with("<std::result::Result<"))
            && (path.contains(" as std::ops::Try>::") || path.contains(" as std::ops::FromResidual")))
        || path.starts_with("std::cmp::Ordering::")
        || path == "std::mem::swap"
        || path == "std::mem::replace"
        || path == "std::mem::take"
        || path == "<T as std::convert::Into<U>>::into"
        || path == "core::bool::<impl bool>::then"
        || path == "core::bool::<impl bool>::then_some"
}

fn span_loc(tcx: TyCtxt<'_>, sp: Span) -> (String, usize) {
    let sm = tcx.sess.source_map();
    let sp = sp.source_callsite();
    let loc = sm.lookup_char_pos(sp.lo());
    (format!("{}", loc.file.name.prefer_local_unconditionally()), loc.line)
}

/// Peel references / raw pointers / Box and return the ADT def path if any.
fn head_adt<'tcx>(tcx: TyCtxt<'tcx>, mut t: Ty<'tcx>) -> Option<String> {
    for _ in 0..8 {
        match t.kind() {
            ty::Ref(_, inner, _) => t = *inner,
            ty::RawPtr(inner, _) => t = *inner,
            ty::Adt(def, _) => {
                if let Some(b) = t.boxed_ty() {
                    t = b;
                    continue;
                }
                return Some(dps(tcx, def.did()));
            }
            _ => return None,
        }
    }
    None
}

struct Dumper<'tcx> {
    tcx: TyCtxt<'tcx>,
}

impl<'tcx> Dumper<'tcx> {
    fn place(&self, body: &Body<'tcx>, def: DefId, p: Place<'tcx>) -> J {
        let tcx = self.tcx;
        let mut pty = mir::PlaceTy::from_ty(body.local_decls[p.local].ty);
        let mut proj = Vec::new();
        for elem in p.projection.iter() {
            let j = match elem {
                PlaceElem::Deref => J::s("*"),
                PlaceElem::Field(f, fty) => {
                    let name = match pty.ty.kind() {
                        ty::Adt(adt, _) => {
                            let v = pty.variant_index.unwrap_or(rustc_abi::FIRST_VARIANT);
                            if adt.is_enum() && pty.variant_index.is_none() {
                                format!("{}", f.index())
                            } else {
                                adt.variant(v).fields[f].name.to_string()
                            }
                        }
                        ty::Closure(cdef, _) => {
                            if let Some(l) = cdef.as_local() {
                                let caps = tcx.closure_captures(l);
                                caps.get(f.index())
                                    .map(|c| c.to_symbol().to_string())
                                    .unwrap_or_else(|| format!("{}", f.index()))
                            } else {
                                format!("{}", f.index())
                            }
                        }
                        _ => format!("{}", f.index()),
                    };
                    let _ = def;
                    J::O(vec![
                        ("f", J::I(f.index() as i128)),
                        ("n", J::S(name)),
                        ("ty", J::S(tys(fty))),
                    ])
                }
                PlaceElem::Downcast(name, vidx) => {
                    let n = match pty.ty.kind() {
                        ty::Adt(adt, _) => adt.variant(vidx).name.to_string(),
                        _ => name.map(|s| s.to_string()).unwrap_or_default(),
                    };
                    J::O(vec![("d", J::S(n))])
                }
                PlaceElem::Index(l) => J::O(vec![("i", J::I(l.index() as i128))]),
                PlaceElem::ConstantIndex { offset, from_end, .. } => J::O(vec![
                    ("ci", J::I(offset as i128)),
                    ("from_end", J::B(from_end)),
                ]),
                PlaceElem::Subslice { from, to, from_end } => J::O(vec![
                    ("sub", J::I(from as i128)),
                    ("to", J::I(to as i128)),
                    ("from_end", J::B(from_end)),
                ]),
                _ => J::s("?"),
            };
            proj.push(j);
            pty = pty.projection_ty(tcx, elem);
        }
        J::O(vec![("l", J::I(p.local.index() as i128)), ("p", J::A(proj))])
    }

    fn operand(&self, body: &Body<'tcx>, def: DefId, op: &Operand<'tcx>) -> J {
        let tcx = self.tcx;
        match op {
            Operand::Copy(p) => J::O(vec![("k", J::s("copy")), ("pl", self.place(body, def, *p))]),
            Operand::Move(p) => J::O(vec![("k", J::s("move")), ("pl", self.place(body, def, *p))]),
            Operand::Constant(c) => {
                let t = c.const_.ty();
                let mut v = vec![
                    ("k", J::s("const")),
                    ("ty", J::S(tys(t))),
                    ("v", J::S(with_no_trimmed_paths!(format!("{}", c.const_)))),
                ];
                if let ty::FnDef(d, a) = t.kind() {
                    v.push(("fn", J::S(dps(tcx, *d))));
                    v.push(("fnargs", J::A(a.iter().map(|g| J::S(with_no_trimmed_paths!(format!("{}", g)))).collect())));
                }
                if let mir::Const::Val(mir::ConstValue::Scalar(mir::interpret::Scalar::Ptr(ptr, _)), _) = c.const_ {
                    let (prov, _) = ptr.prov_and_relative_offset();
                    if let Some(mir::interpret::GlobalAlloc::Static(sd)) = tcx.try_get_global_alloc(prov.alloc_id()) {
                        v.push(("static", J::S(dps(tcx, sd))));
                    }
                }
                if let mir::Const::Unevaluated(uv, _) = c.const_ {
                    if let Some(p) = uv.promoted {
                        v.push(("promoted", J::I(p.index() as i128)));
                    } else if uv.promoted.is_none() && !(t.is_integral() || t.is_bool()) {
                        v.push(("const_def", J::S(dps(tcx, uv.def))));
                    } else if (t.is_integral() || t.is_bool()) && !c.const_.has_param() {
                        // a named constant (`const LIMIT: usize = 1024`): give its value
                        let env = TypingEnv::post_analysis(tcx, def);
                        if let Some(bits) = c.const_.try_eval_bits(tcx, env) {
                            v.push(("ev", J::S(format!("{}", bits))));
                        }
                    }
                }
                J::O(v)
            }
            #[allow(unreachable_patterns)]
            _ => J::O(vec![("k", J::s("other"))]),
        }
    }

    fn rvalue(&self, body: &Body<'tcx>, def: DefId, rv: &Rvalue<'tcx>) -> J {
        let tcx = self.tcx;
        match rv {
            Rvalue::Use(op, ..) => J::O(vec![("rv", J::s("use")), ("op", self.operand(body, def, op))]),
            Rvalue::Repeat(op, n) => J::O(vec![
                ("rv", J::s("repeat")),
                ("op", self.operand(body, def, op)),
                ("n", J::S(format!("{}", n))),
            ]),
            Rvalue::Ref(_, bk, p) => J::O(vec![
                ("rv", J::s("ref")),
                ("mut", J::B(matches!(bk, mir::BorrowKind::Mut { .. }))),
                ("pl", self.place(body, def, *p)),
            ]),
            Rvalue::RawPtr(_, p) => J::O(vec![("rv", J::s("rawptr")), ("pl", self.place(body, def, *p))]),
            Rvalue::Cast(kind, op, t) => {
                let k = match kind {
                    CastKind::PointerCoercion(PointerCoercion::Unsize, _) => "unsize".to_string(),
                    CastKind::PointerCoercion(pc, _) => format!("{:?}", pc),
                    other => format!("{:?}", other),
                };
                J::O(vec![
                    ("rv", J::s("cast")),
                    ("kind", J::S(k)),
                    ("op", self.operand(body, def, op)),
                    ("from", J::S(tys(op.ty(&body.local_decls, tcx)))),
                    ("to", J::S(tys(*t))),
                ])
            }
            Rvalue::BinaryOp(op, ab) => J::O(vec![
                ("rv", J::s("binop")),
                ("op", J::S(format!("{:?}", op))),
                ("a", self.operand(body, def, &ab.0)),
                ("b", self.operand(body, def, &ab.1)),
            ]),
            Rvalue::UnaryOp(op, a) => J::O(vec![
                ("rv", J::s("unop")),
                ("op", J::S(format!("{:?}", op))),
                ("a", self.operand(body, def, a)),
            ]),
            Rvalue::Discriminant(p) => {
                let pt = p.ty(&body.local_decls, tcx).ty;
                let mut v = vec![("rv", J::s("discr")), ("pl", self.place(body, def, *p)), ("ty", J::S(tys(pt)))];
                if let ty::Adt(adt, _) = pt.kind() {
                    v.push(("adt", J::S(dps(tcx, adt.did()))));
                    if adt.is_enum() {
                        let mut vs = Vec::new();
                        for (vi, d) in adt.discriminants(tcx) {
                            vs.push(J::A(vec![J::I(d.val as i128), J::S(adt.variant(vi).name.to_string())]));
                        }
                        v.push(("variants", J::A(vs)));
                    }
                }
                J::O(v)
            }
            Rvalue::Aggregate(kind, ops) => {
                let mut v = vec![("rv", J::s("agg"))];
                match &**kind {
                    AggregateKind::Array(t) => {
                        v.push(("agg", J::s("array")));
                        v.push(("ty", J::S(tys(*t))));
                    }
                    AggregateKind::Tuple => v.push(("agg", J::s("tuple"))),
                    AggregateKind::Adt(did, vidx, _args, _, _) => {
                        let adt = tcx.adt_def(*did);
                        v.push(("agg", J::s("adt")));
                        v.push(("adt", J::S(dps(tcx, *did))));
                        v.push(("variant", J::S(adt.variant(*vidx).name.to_string())));
                        v.push((
                            "fields",
                            J::A(adt.variant(*vidx).fields.iter().map(|f| J::S(f.name.to_string())).collect()),
                        ));
                    }
                    AggregateKind::Closure(did, _) => {
                        v.push(("agg", J::s("closure")));
                        v.push(("closure", J::S(dps(tcx, *did))));
                        if let Some(l) = did.as_local() {
                            v.push((
                                "fields",
                                J::A(tcx.closure_captures(l).iter().map(|c| J::S(c.to_symbol().to_string())).collect()),
                            ));
                        }
                    }
                    other => v.push(("agg", J::S(format!("{:?}", other)))),
                }
                v.push(("ops", J::A(ops.iter().map(|o| self.operand(body, def, o)).collect())));
                J::O(v)
            }
            Rvalue::CopyForDeref(p) => J::O(vec![
                ("rv", J::s("use")),
                ("op", J::O(vec![("k", J::s("copy")), ("pl", self.place(body, def, *p))])),
            ]),
            Rvalue::ThreadLocalRef(d) => J::O(vec![("rv", J::s("tls")), ("def", J::S(dps(tcx, *d)))]),
            other => J::O(vec![("rv", J::s("other")), ("dbg", J::S(format!("{:?}", other)))]),
        }
    }

    fn unwind(&self, u: &UnwindAction) -> J {
        match u {
            UnwindAction::Cleanup(bb) => J::I(bb.index() as i128),
            UnwindAction::Continue => J::s("continue"),
            UnwindAction::Unreachable => J::s("unreachable"),
            UnwindAction::Terminate(_) => J::s("terminate"),
        }
    }

    fn callee(&self, env: TypingEnv<'tcx>, fty: Ty<'tcx>) -> Vec<(&'static str, J)> {
        let tcx = self.tcx;
        let mut v = Vec::new();
        if let ty::FnDef(d, a) = fty.kind() {
            v.push(("callee", J::S(dps(tcx, *d))));
            v.push(("callee_krate", J::S(krate_name(tcx, *d))));
            v.push((
                "gargs",
                J::A(a.iter().map(|g| J::S(with_no_trimmed_paths!(format!("{}", g)))).collect()),
            ));
            if let Some(tr) = tcx.trait_of_assoc(*d) {
                v.push(("trait", J::S(dps(tcx, tr))));
                if a.len() > 0 {
                    if let Some(st) = a[0].as_type() {
                        v.push(("self_ty", J::S(tys(st))));
                        v.push(("self_adt", J::opt_s(head_adt(tcx, st))));
                    }
                }
            } else if let Some(imp) = tcx.impl_of_assoc(*d) {
                let st = tcx.type_of(imp).instantiate_identity().skip_norm_wip();
                v.push(("impl_self_adt", J::opt_s(head_adt(tcx, st))));
                if a.len() > 0 {
                    // inherent impl: first generic args are the impl's
                }
            }
            v.push(("name", J::S(tcx.item_name(*d).to_string())));
            if tcx.intrinsic(*d).is_some() {
                v.push(("intrinsic", J::B(true)));
            } else if matches!(tcx.def_kind(*d), DefKind::Fn | DefKind::AssocFn | DefKind::Closure | DefKind::Ctor(..)) {
                let a2 = tcx.erase_and_anonymize_regions(*a);
                match Instance::try_resolve(tcx, env, *d, a2) {
                    Ok(Some(inst)) => {
                        v.push(("res", J::S(dps(tcx, inst.def_id()))));
                        v.push(("res_krate", J::S(krate_name(tcx, inst.def_id()))));
                        v.push(("res_kind", J::S(inst_kind(&inst.def).to_string())));
                        v.push(("res_name", J::S(with_no_trimmed_paths!(format!("{}", inst)))));
                    }
                    _ => v.push(("res", J::N)),
                }
            }
        } else {
            v.push(("callee", J::N));
            v.push(("fty", J::S(tys(fty))));
        }
        v
    }

    fn body(&self, body: &Body<'tcx>, def: DefId, env: TypingEnv<'tcx>) -> J {
        let tcx = self.tcx;
        // locals
        let mut names: FxHashMap<usize, String> = FxHashMap::default();
        for vdi in body.var_debug_info.iter() {
            if let VarDebugInfoContents::Place(p) = vdi.value {
                if p.projection.is_empty() {
                    names.entry(p.local.index()).or_insert_with(|| vdi.name.to_string());
                }
            }
        }
        let mut locals = Vec::new();
        for (l, decl) in body.local_decls.iter_enumerated() {
            locals.push(J::O(vec![
                ("ty", J::S(tys(decl.ty))),
                ("adt", J::opt_s(head_adt(tcx, decl.ty))),
                ("name", J::opt_s(names.get(&l.index()).cloned())),
                ("mut", J::B(decl.mutability.is_mut())),
            ]));
        }
        let mut blocks = Vec::new();
        for (_bb, data) in body.basic_blocks.iter_enumerated() {
            let mut stmts = Vec::new();
            for st in data.statements.iter() {
                let (_, line) = span_loc(tcx, st.source_info.span);
                match &st.kind {
                    StatementKind::Assign(b) => {
                        let (p, rv) = &**b;
                        stmts.push(J::O(vec![
                            ("s", J::s("assign")),
                            ("line", J::I(line as i128)),
                            ("exp", J::B(st.source_info.span.from_expansion())),
                            ("lhs", self.place(body, def, *p)),
                            ("rhs", self.rvalue(body, def, rv)),
                        ]));
                    }
                    StatementKind::SetDiscriminant { place, variant_index } => {
                        let pt = place.ty(&body.local_decls, tcx).ty;
                        let vn = match pt.kind() {
                            ty::Adt(adt, _) => adt.variant(*variant_index).name.to_string(),
                            _ => format!("{}", variant_index.index()),
                        };
                        stmts.push(J::O(vec![
                            ("s", J::s("setdiscr")),
                            ("line", J::I(line as i128)),
                            ("lhs", self.place(body, def, **place)),
                            ("variant", J::S(vn)),
                        ]));
                    }
                    StatementKind::StorageLive(l) => {
                        stmts.push(J::O(vec![("s", J::s("live")), ("l", J::I(l.index() as i128))]))
                    }
                    StatementKind::StorageDead(l) => {
                        stmts.push(J::O(vec![("s", J::s("dead")), ("l", J::I(l.index() as i128))]))
                    }
                    _ => {}
                }
            }
            let term = data.terminator();
            let (_, tline) = span_loc(tcx, term.source_info.span);
            let mut t: Vec<(&'static str, J)> = vec![
                ("line", J::I(tline as i128)),
                ("exp", J::B(term.source_info.span.from_expansion())),
            ];
            match &term.kind {
                TerminatorKind::Goto { target } => {
                    t.push(("t", J::s("goto")));
                    t.push(("target", J::I(target.index() as i128)));
                }
                TerminatorKind::SwitchInt { discr, targets } => {
                    t.push(("t", J::s("switch")));
                    t.push(("discr", self.operand(body, def, discr)));
                    t.push(("dty", J::S(tys(discr.ty(&body.local_decls, tcx)))));
                    t.push((
                        "targets",
                        J::A(targets
                            .iter()
                            .map(|(v, bb)| J::A(vec![J::I(v as i128), J::I(bb.index() as i128)]))
                            .collect()),
                    ));
                    t.push(("otherwise", J::I(targets.otherwise().index() as i128)));
                }
                TerminatorKind::UnwindResume => t.push(("t", J::s("resume"))),
                TerminatorKind::UnwindTerminate(_) => t.push(("t", J::s("terminate"))),
                TerminatorKind::Return => t.push(("t", J::s("return"))),
                TerminatorKind::Unreachable => t.push(("t", J::s("unreachable"))),
                TerminatorKind::Drop { place, target, unwind, .. } => {
                    let pt = place.ty(&body.local_decls, tcx).ty;
                    t.push(("t", J::s("drop")));
                    t.push(("pl", self.place(body, def, *place)));
                    t.push(("ty", J::S(tys(pt))));
                    t.push(("adt", J::opt_s(head_adt(tcx, pt))));
                    t.push(("target", J::I(target.index() as i128)));
                    t.push(("unwind", self.unwind(unwind)));
                }
                TerminatorKind::Call { func, args, destination, target, unwind, fn_span, .. } => {
                    t.push(("t", J::s("call")));
                    let fty = func.ty(&body.local_decls, tcx);
                    t.extend(self.callee(env, fty));
                    if !matches!(fty.kind(), ty::FnDef(..)) {
                        t.push(("fnop", self.operand(body, def, func)));
                    }
                    t.push(("args", J::A(args.iter().map(|a| self.operand(body, def, &a.node)).collect())));
                    t.push((
                        "arg_tys",
                        J::A(args.iter().map(|a| J::S(tys(a.node.ty(&body.local_decls, tcx)))).collect()),
                    ));
                    t.push(("dest", self.place(body, def, *destination)));
                    t.push(("target", match target { Some(b) => J::I(b.index() as i128), None => J::N }));
                    t.push(("unwind", self.unwind(unwind)));
                    t.push(("fn_exp", J::B(fn_span.from_expansion())));
                }
                TerminatorKind::Assert { cond, expected, msg, target, unwind } => {
                    t.push(("t", J::s("assert")));
                    t.push(("cond", self.operand(body, def, cond)));
                    t.push(("expected", J::B(*expected)));
                    let kind = format!("{:?}", msg);
                    let kind = kind.split('(').next().unwrap_or("").to_string();
                    t.push(("kind", J::S(kind)));
                    t.push(("msg", J::S(format!("{:?}", msg))));
                    t.push(("target", J::I(target.index() as i128)));
                    t.push(("unwind", self.unwind(unwind)));
                }
                TerminatorKind::FalseEdge { real_target, .. } => {
                    t.push(("t", J::s("goto")));
                    t.push(("target", J::I(real_target.index() as i128)));
                }
                TerminatorKind::FalseUnwind { real_target, .. } => {
                    t.push(("t", J::s("goto")));
                    t.push(("target", J::I(real_target.index() as i128)));
                }
                other => {
                    t.push(("t", J::s("other")));
                    t.push(("dbg", J::S(format!("{:?}", other))));
                }
            }
            blocks.push(J::O(vec![
                ("cleanup", J::B(data.is_cleanup)),
                ("stmts", J::A(stmts)),
                ("term", J::O(t)),
            ]));
        }
        let (file, line) = span_loc(tcx, body.span);
        J::O(vec![
            ("file", J::S(file)),
            ("line", J::I(line as i128)),
            ("argc", J::I(body.arg_count as i128)),
            ("locals", J::A(locals)),
            ("blocks", J::A(blocks)),
        ])
    }

    fn fn_meta(&self, def: DefId) -> Vec<(&'static str, J)> {
        let tcx = self.tcx;
        let mut v = Vec::new();
        let kind = tcx.def_kind(def);
        v.push(("def_kind", J::S(format!("{:?}", kind))));
        v.push(("krate", J::S(krate_name(tcx, def))));
        v.push(("local", J::B(def.is_local())));
        if matches!(kind, DefKind::Fn | DefKind::AssocFn) {
            v.push(("vis", J::S(format!("{:?}", tcx.visibility(def)))));
            v.push(("vis_pub", J::B(tcx.visibility(def).is_public())));
            // nameable from outside the crate (a `pub fn` of a private module that nothing re-exports is not)
            if let Some(ld) = def.as_local() {
                v.push(("exported", J::B(tcx.effective_visibilities(()).is_reachable(ld))));
            }
            let g = tcx.generics_of(def);
            v.push(("n_generics", J::I(g.own_params.iter().filter(|p| !matches!(p.kind, ty::GenericParamDefKind::Lifetime)).count() as i128)));
            v.push(("n_parent_generics", J::I(g.parent_count as i128)));
        }
        if matches!(kind, DefKind::AssocFn) {
            let ai = tcx.associated_item(def);
            v.push(("has_self", J::B(ai.is_method())));
            if let Some(imp) = tcx.impl_of_assoc(def) {
                let st = tcx.type_of(imp).instantiate_identity().skip_norm_wip();
                v.push(("impl_self", J::S(tys(st))));
                v.push(("impl_self_adt", J::opt_s(head_adt(tcx, st))));
                if let Some(tr) = tcx.impl_opt_trait_ref(imp) {
                    let tr = tr.instantiate_identity().skip_norm_wip();
                    v.push(("impl_trait", J::S(dps(tcx, tr.def_id))));
                } else {
                    v.push(("impl_trait", J::N));
                }
            }
        }
        if matches!(kind, DefKind::Closure) {
            v.push(("parent", J::S(dps(tcx, tcx.parent(def)))));
        }
        v.push(("name", J::S(tcx.opt_item_name(def).map(|s| s.to_string()).unwrap_or_default())));
        v
    }
}

fn inst_kind(k: &InstanceKind<'_>) -> &'static str {
    match k {
        InstanceKind::Item(_) => "item",
        InstanceKind::Intrinsic(_) => "intrinsic",
        InstanceKind::VTableShim(_) => "vtable_shim",
        InstanceKind::ReifyShim(..) => "reify_shim",
        InstanceKind::FnPtrShim(..) => "fnptr_shim",
        InstanceKind::Virtual(..) => "virtual",
        InstanceKind::ClosureOnceShim { .. } => "closure_once_shim",
        InstanceKind::ConstructCoroutineInClosureShim { .. } => "coroutine_closure_shim",
        InstanceKind::ThreadLocalShim(_) => "tls_shim",
        InstanceKind::DropGlue(..) => "drop_glue",
        InstanceKind::CloneShim(..) => "clone_shim",
        InstanceKind::FnPtrAddrShim(..) => "fnptr_addr_shim",
        _ => "other",
    }
}

// ------------------------------------------------------------------------------------------------
// Mono walk

struct Mono<'tcx> {
    tcx: TyCtxt<'tcx>,
    ids: FxHashMap<Instance<'tcx>, usize>,
    list: Vec<(Instance<'tcx>, TypingEnv<'tcx>, bool)>,
    out: Vec<Option<J>>,
    work: Vec<usize>,
    extern_bodies: FxHashSet<DefId>,
    vtables: Vec<J>,
    vt_seen: FxHashSet<(Ty<'tcx>, Ty<'tcx>)>,
}

impl<'tcx> Mono<'tcx> {
    fn intern(&mut self, inst: Instance<'tcx>, env: TypingEnv<'tcx>, root: bool) -> usize {
        if let Some(i) = self.ids.get(&inst) {
            if root {
                self.list[*i].2 = true;
            }
            return *i;
        }
        let i = self.list.len();
        self.ids.insert(inst, i);
        self.list.push((inst, env, root));
        self.out.push(None);
        self.work.push(i);
        i
    }

    fn has_body(&self, inst: &Instance<'tcx>) -> bool {
        let tcx = self.tcx;
        match inst.def {
            InstanceKind::Item(d) => {
                if tcx.is_foreign_item(d) {
                    return false;
                }
                if matches!(tcx.def_kind(d), DefKind::Ctor(..)) {
                    return false;
                }
                d.is_local() || tcx.is_mir_available(d)
            }
            InstanceKind::Intrinsic(_) | InstanceKind::Virtual(..) => false,
            InstanceKind::DropGlue(_, None) => false,
            _ => true,
        }
    }

    fn run(&mut self) {
        while let Some(i) = self.work.pop() {
            let j = self.walk(i);
            self.out[i] = Some(j);
        }
    }

    fn subst<T: rustc_middle::ty::TypeFoldable<TyCtxt<'tcx>>>(
        &self,
        inst: &Instance<'tcx>,
        env: TypingEnv<'tcx>,
        v: T,
    ) -> Option<T> {
        inst.try_instantiate_mir_and_normalize_erasing_regions(self.tcx, env, EarlyBinder::bind(v)).ok()
    }

    fn record_vtable(&mut self, env: TypingEnv<'tcx>, src: Ty<'tcx>, dst: Ty<'tcx>) -> Option<J> {
        let tcx = self.tcx;
        // pointee pair
        let pointee = |t: Ty<'tcx>| -> Option<Ty<'tcx>> {
            match t.kind() {
                ty::Ref(_, p, _) => Some(*p),
                ty::RawPtr(p, _) => Some(*p),
                _ => t.boxed_ty(),
            }
        };
        let ptr_kind = match src.kind() {
            ty::Ref(..) => "ref",
            ty::RawPtr(..) => "raw",
            _ => "box",
        };
        let (s, d) = match (pointee(src), pointee(dst)) {
            (Some(s), Some(d)) => (s, d),
            _ => {
                return Some(J::O(vec![("unsize_adt", J::S(tys(src))), ("to", J::S(tys(dst)))]));
            }
        };
        if s.has_param() || d.has_param() || s.has_aliases() || d.has_aliases() {
            return Some(J::O(vec![("unsize_generic", J::S(tys(s))), ("to", J::S(tys(d)))]));
        }
        let (s, d) = tcx.struct_lockstep_tails_for_codegen(s, d, TypingEnv::fully_monomorphized());
        let ty::Dynamic(preds, ..) = d.kind() else { return None };
        if !self.vt_seen.insert((s, d)) {
            return Some(J::O(vec![("vtable", J::S(tys(s))), ("dyn", J::S(tys(d))), ("ptr", J::s(ptr_kind))]));
        }
        let mut methods = Vec::new();
        if let Some(principal) = preds.principal() {
            let trait_ref = tcx.instantiate_bound_regions_with_erased(principal.with_self_ty(tcx, s));
            for e in tcx.vtable_entries(trait_ref).iter() {
                if let VtblEntry::Method(m) = e {
                    let name = match m.def {
                        InstanceKind::ClosureOnceShim { .. } => "call_once".to_string(),
                        InstanceKind::Item(did) if tcx.is_closure_like(did) => {
                            match m.args.as_closure().kind() {
                                ty::ClosureKind::Fn => "call".to_string(),
                                ty::ClosureKind::FnMut => "call_mut".to_string(),
                                ty::ClosureKind::FnOnce => "call_once".to_string(),
                            }
                        }
                        _ => tcx.opt_item_name(m.def_id()).map(|s| s.to_string()).unwrap_or_default(),
                    };
                    let id = self.intern(*m, env, false);
                    methods.push(J::A(vec![J::S(name), J::I(id as i128)]));
                }
            }
        }
        let mut dropid = J::N;
        if s.needs_drop(tcx, TypingEnv::fully_monomorphized()) {
            let g = Instance::resolve_drop_in_place(tcx, s);
            dropid = J::I(self.intern(g, env, false) as i128);
        }
        self.vtables.push(J::O(vec![
            ("concrete", J::S(tys(s))),
            ("concrete_adt", J::opt_s(head_adt(tcx, s))),
            ("dyn", J::S(tys(d))),
            ("methods", J::A(methods)),
            ("drop", dropid),
        ]));
        Some(J::O(vec![("vtable", J::S(tys(s))), ("dyn", J::S(tys(d))), ("ptr", J::s(ptr_kind))]))
    }

    fn walk(&mut self, idx: usize) -> J {
        let tcx = self.tcx;
        let (inst, env, root) = self.list[idx];
        let def = inst.def_id();
        let kname = krate_name(tcx, def);
        let mut v: Vec<(&'static str, J)> = vec![
            ("id", J::I(idx as i128)),
            ("def", J::S(dps(tcx, def))),
            ("name", J::S(with_no_trimmed_paths!(format!("{}", inst)))),
            ("kind", J::S(inst_kind(&inst.def).to_string())),
            ("krate", J::S(kname.clone())),
            ("local", J::B(def.is_local())),
            ("root", J::B(root)),
            ("generic", J::B(inst.args.has_param())),
        ];
        if let InstanceKind::DropGlue(_, Some(t)) = inst.def {
            v.push(("drop_ty", J::S(tys(t))));
            v.push(("drop_adt", J::opt_s(head_adt(tcx, t))));
        }
        if let InstanceKind::Virtual(d, _) = inst.def {
            v.push(("virtual_of", J::S(dps(tcx, d))));
        }
        if !self.has_body(&inst) {
            v.push(("has_body", J::B(false)));
            if let InstanceKind::Item(d) = inst.def {
                // signature arg types (for leaf-with-dyn-arg fan-out)
                if matches!(tcx.def_kind(d), DefKind::Fn | DefKind::AssocFn) {
                    let sig = tcx.fn_sig(d).instantiate(tcx, inst.args).skip_norm_wip();
                    let sig = tcx.instantiate_bound_regions_with_erased(sig);
                    v.push(("sig", J::A(sig.inputs().iter().map(|t| J::S(tys(*t))).collect())));
                }
            }
            return J::O(v);
        }
        v.push(("has_body", J::B(true)));
        let body: &Body<'tcx> = tcx.instance_mir(inst.def);
        if matches!(inst.def, InstanceKind::Item(_)) && !def.is_local() && (!is_stdish(&kname) || std_small(&dps(tcx, def))) {
            self.extern_bodies.insert(def);
        }
        let mut calls = Vec::new();
        for (bb, data) in body.basic_blocks.iter_enumerated() {
            // unsize casts
            for st in data.statements.iter() {
                if let StatementKind::Assign(b) = &st.kind {
                    if let Rvalue::Cast(CastKind::PointerCoercion(PointerCoercion::Unsize, _), op, t) = &b.1 {
                        let st_ = self.subst(&inst, env, op.ty(&body.local_decls, tcx));
                        let dt = self.subst(&inst, env, *t);
                        if let (Some(s), Some(d)) = (st_, dt) {
                            if let Some(j) = self.record_vtable(env, s, d) {
                                calls.push(J::O(vec![("bb", J::I(bb.index() as i128)), ("k", J::s("unsize")), ("info", j)]));
                            }
                        }
                    }
                    if let Rvalue::Cast(CastKind::PointerCoercion(pc @ (PointerCoercion::ReifyFnPointer(_) | PointerCoercion::ClosureFnPointer(_)), _), op, _) = &b.1 {
                        if let Some(fty) = self.subst(&inst, env, op.ty(&body.local_decls, tcx)) {
                            let target = match (pc, fty.kind()) {
                                (PointerCoercion::ReifyFnPointer(_), ty::FnDef(d, a)) => {
                                    Instance::resolve_for_fn_ptr(tcx, env, *d, a)
                                }
                                (PointerCoercion::ClosureFnPointer(_), ty::Closure(d, a)) => {
                                    Some(Instance::resolve_closure(tcx, *d, a, ty::ClosureKind::FnOnce))
                                }
                                _ => None,
                            };
                            if let Some(t) = target {
                                let id = self.intern(t, env, false);
                                calls.push(J::O(vec![("bb", J::I(bb.index() as i128)), ("k", J::s("reify")), ("to", J::I(id as i128))]));
                            }
                        }
                    }
                }
            }
            let term = data.terminator();
            match &term.kind {
                TerminatorKind::Call { func, args, .. } | TerminatorKind::TailCall { func, args, .. } => {
                    let fty = func.ty(&body.local_decls, tcx);
                    let Some(fty) = self.subst(&inst, env, fty) else {
                        calls.push(J::O(vec![("bb", J::I(bb.index() as i128)), ("k", J::s("call")), ("to", J::N), ("why", J::s("normalize"))]));
                        continue;
                    };
                    let mut c: Vec<(&'static str, J)> = vec![("bb", J::I(bb.index() as i128)), ("k", J::s("call")), ("cleanup", J::B(data.is_cleanup))];
                    match fty.kind() {
                        ty::FnDef(d, a) => {
                            c.push(("callee", J::S(dps(tcx, *d))));
                            if tcx.intrinsic(*d).is_some() {
                                c.push(("to", J::N));
                                c.push(("why", J::s("intrinsic")));
                            } else {
                                match Instance::try_resolve(tcx, env, *d, a) {
                                    Ok(Some(callee)) => {
                                        if let InstanceKind::Virtual(vd, _) = callee.def {
                                            c.push(("to", J::N));
                                            c.push(("why", J::s("virtual")));
                                            c.push(("method", J::S(tcx.item_name(vd).to_string())));
                                            c.push(("method_path", J::S(dps(tcx, vd))));
                                            let st = a.type_at(0);
                                            c.push(("dyn", J::S(tys(st))));
                                        } else {
                                            let id = self.intern(callee, env, false);
                                            c.push(("to", J::I(id as i128)));
                                        }
                                    }
                                    _ => {
                                        c.push(("to", J::N));
                                        c.push(("why", J::s("unresolved")));
                                        if a.len() > 0 {
                                            if let Some(st) = a[0].as_type() {
                                                c.push(("self_ty", J::S(tys(st))));
                                            }
                                        }
                                    }
                                }
                            }
                        }
                        _ => {
                            c.push(("to", J::N));
                            c.push(("why", J::s("fnptr")));
                            c.push(("fty", J::S(tys(fty))));
                        }
                    }
                    // dyn-typed arguments (for leaf fan-out)
                    let mut dyns = Vec::new();
                    for a in args.iter() {
                        if let Some(t) = self.subst(&inst, env, a.node.ty(&body.local_decls, tcx)) {
                            let s = tys(t);
                            if s.contains("dyn ") {
                                dyns.push(J::S(s));
                            }
                        }
                    }
                    if !dyns.is_empty() {
                        c.push(("dyn_args", J::A(dyns)));
                    }
                    calls.push(J::O(c));
                }
                TerminatorKind::Drop { place, .. } => {
                    let pt = place.ty(&body.local_decls, tcx).ty;
                    let mut c: Vec<(&'static str, J)> = vec![("bb", J::I(bb.index() as i128)), ("k", J::s("drop")), ("cleanup", J::B(data.is_cleanup))];
                    match self.subst(&inst, env, pt) {
                        Some(t) => {
                            c.push(("ty", J::S(tys(t))));
                            if t.has_param() || t.has_aliases() {
                                c.push(("to", J::N));
                                c.push(("why", J::s("generic")));
                            } else if !t.needs_drop(tcx, TypingEnv::fully_monomorphized()) {
                                c.push(("to", J::N));
                                c.push(("why", J::s("noop")));
                            } else if let ty::Dynamic(..) = t.kind() {
                                c.push(("to", J::N));
                                c.push(("why", J::s("virtual")));
                                c.push(("method", J::s("drop_in_place")));
                                c.push(("dyn", J::S(tys(t))));
                            } else {
                                let g = Instance::resolve_drop_in_place(tcx, t);
                                let id = self.intern(g, env, false);
                                c.push(("to", J::I(id as i128)));
                            }
                        }
                        None => {
                            c.push(("to", J::N));
                            c.push(("why", J::s("normalize")));
                        }
                    }
                    calls.push(J::O(c));
                }
                _ => {}
            }
        }
        v.push(("nblocks", J::I(body.basic_blocks.len() as i128)));
        v.push(("edges", J::A(calls)));
        J::O(v)
    }
}

fn erased_identity<'tcx>(tcx: TyCtxt<'tcx>, def: DefId) -> GenericArgsRef<'tcx> {
    let a = GenericArgs::identity_for_item(tcx, def);
    tcx.erase_and_anonymize_regions(a)
}

fn dump_crate<'tcx>(tcx: TyCtxt<'tcx>, dir: &str) {
    let d = Dumper { tcx };
    let crate_name = tcx.crate_name(LOCAL_CRATE).to_string();
    let is_test = tcx.sess.opts.test;

    let mut bodies: Vec<J> = Vec::new();
    let mut mono = Mono {
        tcx,
        ids: FxHashMap::default(),
        list: Vec::new(),
        out: Vec::new(),
        work: Vec::new(),
        extern_bodies: FxHashSet::default(),
        vtables: Vec::new(),
        vt_seen: FxHashSet::default(),
    };

    for ldef in tcx.hir_body_owners() {
        let def = ldef.to_def_id();
        let kind = tcx.def_kind(def);
        if !matches!(kind, DefKind::Fn | DefKind::AssocFn | DefKind::Closure) {
            continue;
        }
        let env = TypingEnv::post_analysis(tcx, def);
        let body = tcx.optimized_mir(def);
        let mut v = vec![("id", J::S(dps(tcx, def)))];
        v.extend(d.fn_meta(def));
        v.push(("mir", d.body(body, def, env)));
        let proms = tcx.promoted_mir(def);
        v.push(("promoted", J::A(proms.iter().map(|p| d.body(p, def, env)).collect())));
        bodies.push(J::O(v));
        // root of the mono walk (closures are reached through their parents)
        if matches!(kind, DefKind::Fn | DefKind::AssocFn) {
            let inst = Instance::new_raw(def, erased_identity(tcx, def));
            mono.intern(inst, env, true);
        }
    }
    mono.run();

    // extern (non-std) bodies reached
    let mut ext: Vec<DefId> = mono.extern_bodies.iter().copied().collect();
    ext.sort_by_key(|d| dps(tcx, *d));
    for def in ext {
        let kind = tcx.def_kind(def);
        if !matches!(kind, DefKind::Fn | DefKind::AssocFn | DefKind::Closure) {
            continue;
        }
        let env = TypingEnv::post_analysis(tcx, def);
        let body = tcx.optimized_mir(def);
        let mut v = vec![("id", J::S(dps(tcx, def)))];
        v.extend(d.fn_meta(def));
        v.push(("mir", d.body(body, def, env)));
        v.push(("promoted", J::A(vec![])));
        bodies.push(J::O(v));
    }

    // ADTs
    let mut adts = Vec::new();
    for ldef in tcx.hir_crate_items(()).definitions() {
        let def = ldef.to_def_id();
        if !matches!(tcx.def_kind(def), DefKind::Struct | DefKind::Enum | DefKind::Union) {
            continue;
        }
        let adt = tcx.adt_def(def);
        let mut variants = Vec::new();
        for (vi, var) in adt.variants().iter_enumerated() {
            let discr = if adt.is_enum() {
                adt.discriminant_for_variant(tcx, vi).val as i128
            } else {
                0
            };
            variants.push(J::O(vec![
                ("name", J::S(var.name.to_string())),
                ("discr", J::I(discr)),
                (
                    "fields",
                    J::A(var
                        .fields
                        .iter()
                        .map(|f| {
                            J::O(vec![
                                ("name", J::S(f.name.to_string())),
                                ("ty", J::S(tys(tcx.type_of(f.did).instantiate_identity().skip_norm_wip()))),
                                ("vis_pub", J::B(f.vis.is_public())),
                            ])
                        })
                        .collect()),
                ),
            ]));
        }
        let (file, line) = span_loc(tcx, tcx.def_span(def));
        adts.push(J::O(vec![
            ("id", J::S(dps(tcx, def))),
            ("kind", J::S(format!("{:?}", tcx.def_kind(def)))),
            ("file", J::S(file)),
            ("line", J::I(line as i128)),
            ("vis_pub", J::B(tcx.visibility(def).is_public())),
            ("has_drop", J::B(tcx.adt_destructor(def).is_some())),
            ("variants", J::A(variants)),
        ]));
    }

    // trait impls
    let mut impls = Vec::new();
    for (trait_def, imps) in tcx.all_local_trait_impls(()).iter() {
        for imp in imps {
            let idef = imp.to_def_id();
            let st = tcx.type_of(idef).instantiate_identity().skip_norm_wip();
            let (file, line) = span_loc(tcx, tcx.def_span(idef));
            let items: Vec<J> = tcx
                .associated_items(idef)
                .in_definition_order()
                .filter(|a| a.is_fn())
                .map(|a| J::S(dps(tcx, a.def_id)))
                .collect();
            impls.push(J::O(vec![
                ("trait", J::S(dps(tcx, *trait_def))),
                ("self_ty", J::S(tys(st))),
                ("self_adt", J::opt_s(head_adt(tcx, st))),
                ("file", J::S(file)),
                ("line", J::I(line as i128)),
                ("derived", J::B(tcx.is_automatically_derived(idef))),
                ("items", J::A(items)),
            ]));
        }
    }

    // statics / consts
    let mut statics = Vec::new();
    for ldef in tcx.hir_crate_items(()).definitions() {
        let def = ldef.to_def_id();
        if matches!(tcx.def_kind(def), DefKind::Static { .. }) {
            let body = tcx.mir_for_ctfe(def);
            let env = TypingEnv::post_analysis(tcx, def);
            statics.push(J::O(vec![("id", J::S(dps(tcx, def))), ("mir", d.body(body, def, env))]));
        }
        // named constants: their initialiser bodies (so that `const NAMES: [&str; 4] = [..]` can be read by the rules)
        if matches!(tcx.def_kind(def), DefKind::Const { .. }) && tcx.generics_of(def).count() == 0 {
            let body = tcx.mir_for_ctfe(def);
            let env = TypingEnv::post_analysis(tcx, def);
            statics.push(J::O(vec![("id", J::S(dps(tcx, def))), ("const", J::B(true)), ("mir", d.body(body, def, env))]));
        }
    }

    let instances: Vec<J> = mono.out.into_iter().map(|o| o.unwrap_or(J::N)).collect();
    let features: Vec<J> = tcx
        .sess
        .config
        .iter()
        .filter(|(k, _)| k.as_str() == "feature")
        .filter_map(|(_, v)| v.map(|s| J::S(s.to_string())))
        .collect();
    let top = J::O(vec![
        ("crate", J::S(crate_name.clone())),
        ("is_test", J::B(is_test)),
        ("crate_types", J::A(tcx.crate_types().iter().map(|c| J::S(format!("{:?}", c))).collect())),
        ("features", J::A(features)),
        ("panic_strategy", J::S(format!("{:?}", tcx.sess.panic_strategy()))),
        ("bodies", J::A(bodies)),
        ("adts", J::A(adts)),
        ("impls", J::A(impls)),
        ("statics", J::A(statics)),
        ("instances", J::A(instances)),
        ("vtables", J::A(mono.vtables)),
    ]);
    let mut s = String::new();
    top.write(&mut s);
    let kind = if is_test { "test" } else { "main" };
    let id = format!("{:x}", tcx.stable_crate_id(LOCAL_CRATE).as_u64());
    let path = format!("{}/{}-{}-{}.json", dir, crate_name, kind, id);
    let tmp = format!("{}.tmp{}", path, std::process::id());
    std::fs::write(&tmp, s).expect("write facts");
    std::fs::rename(&tmp, &path).expect("rename facts");
}

#[allow(dead_code)]
fn _unused(_: BasicBlock) {}
