//! Minimal JSON value + serializer (no external crates available to a rustc_private driver).

pub enum J {
    N,
    B(bool),
    I(i128),
    S(String),
    A(Vec<J>),
    O(Vec<(&'static str, J)>),
}

impl J {
    pub fn s<T: AsRef<str>>(t: T) -> J {
        J::S(t.as_ref().to_string())
    }
    pub fn opt_s(t: Option<String>) -> J {
        match t {
            Some(s) => J::S(s),
            None => J::N,
        }
    }
    pub fn opt_i(t: Option<usize>) -> J {
        match t {
            Some(s) => J::I(s as i128),
            None => J::N,
        }
    }
    pub fn write(&self, out: &mut String) {
        match self {
            J::N => out.push_str("null"),
            J::B(b) => out.push_str(if *b { "true" } else { "false" }),
            J::I(i) => out.push_str(&i.to_string()),
            J::S(s) => esc(s, out),
            J::A(v) => {
                out.push('[');
                for (i, x) in v.iter().enumerate() {
                    if i > 0 {
                        out.push(',');
                    }
                    x.write(out);
                }
                out.push(']');
            }
            J::O(v) => {
                out.push('{');
                for (i, (k, x)) in v.iter().enumerate() {
                    if i > 0 {
                        out.push(',');
                    }
                    esc(k, out);
                    out.push(':');
                    x.write(out);
                }
                out.push('}');
            }
        }
    }
}

fn esc(s: &str, out: &mut String) {
    out.push('"');
    for c in s.chars() {
        match c {
            '"' => out.push_str("\\\""),
            '\\' => out.push_str("\\\\"),
            '\n' => out.push_str("\\n"),
            '\r' => out.push_str("\\r"),
            '\t' => out.push_str("\\t"),
            c if (c as u32) < 0x20 => out.push_str(&format!("\\u{:04x}", c as u32)),
            c => out.push(c),
        }
    }
    out.push('"');
}
