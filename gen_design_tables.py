#!/usr/bin/env python3
"""Regenerates the generated appendices of DESIGN.md (between the GENERATED markers):
  C: the rules as implemented (rule id, number of obligations on today's tree, the obligation text), from a run of the rules
  D: which check catches which seeded change / hand-written mutant / revert (from seeded/*/meta.json, selftest/results.json, selftest/regress)
usage: gen_design_tables.py   (rewrites DESIGN.md in place)"""
import importlib, json, os, sys, glob, collections, re
HERE = os.path.dirname(os.path.abspath(__file__))
sys.path.insert(0, os.path.join(HERE, "rules"))
import engine  # noqa

def rules_table():
    out = ["| property | rule | obligations today | what one obligation says (first instance) |", "|---|---|---|---|"]
    facts = engine.load_facts(engine.REPO, "lib")
    for i in range(1, 21):
        prop = "C%02d" % i
        mod = importlib.import_module("rules_%s" % prop)
        ctx = engine.Ctx(prop, "quick", facts, 0)
        mod.run(ctx)
        by = collections.OrderedDict()
        for o in ctx.obs:
            by.setdefault(o.rule, []).append(o)
        for r, obs in by.items():
            texts = collections.Counter(o.text for o in obs)
            t = obs[0].text.replace("|", "\\|")
            more = "" if len(texts) == 1 else " *(+%d other obligation texts)*" % (len(texts) - 1)
            out.append("| %s | %s | %d | %s%s |" % (prop, r, len(obs), t, more))
    return "\n".join(out)

def short(s, n=230):
    s = " ".join(s.split())
    return s if len(s) <= n else s[:n - 1] + "…"

def seeded_table():
    out = ["| id | round | change (one line) | needs | first contact: caught by | now caught by (check: first rule that fires) |", "|---|---|---|---|---|---|"]
    for p in sorted(glob.glob(os.path.join(HERE, "seeded", "*", "meta.json"))):
        m = json.load(open(p))
        fired = m.get("fired", {})
        fr = m.get("first_run_caught_by")
        fr_s = "(see §9.5)" if fr is None else (", ".join(fr) or "nothing")
        cb = "; ".join("**%s**: `%s`" % (k, short(fired[k][0], 110).replace("|", "\\|")) if fired.get(k) else k for k in m.get("caught_by", []))
        out.append("| %s | %s | %s | %s | %s | %s |" % (m["id"], m.get("round", 1), short(m.get("summary", "")).replace("|", "\\|"), short(m.get("needs", ""), 160).replace("|", "\\|"), fr_s, cb))
    return "\n".join(out)

def hand_table():
    rp = os.path.join(HERE, "selftest", "results.json")
    if not os.path.exists(rp):
        return "(selftest/results.json missing)"
    res = json.load(open(rp))
    out = ["| mutant | repository tests | own check | all checks that fire | expected rule fired |", "|---|---|---|---|---|"]
    for r in res:
        if not r["patch"].startswith("selftest/"):
            continue
        if r.get("status"):
            out.append("| %s | %s | | | |" % (r["patch"], r["status"]))
            continue
        out.append("| %s | %s | %s | %s | %s |" % (r["patch"][len("selftest/"):], r.get("tests", "-"), "fires" if r.get("caught_by_own_property") else "silent",
                                              ", ".join(r.get("caught_by", [])), ", ".join(r.get("expected_rules_fired", [])) or "-"))
    return "\n".join(out)

def regress_table():
    idx = json.load(open(os.path.join(HERE, "selftest", "regress", "index.json")))
    out = ["| revert of | properties | rule keys that must fire |", "|---|---|---|"]
    for e in idx:
        out.append("| %s | %s | %s |" % (e["patch"], ", ".join(e["props"]), "; ".join("`%s`" % x.replace("|", "\\|") for x in (e.get("expect") or []))))
    return "\n".join(out)

def refactors_table():
    out = ["| id | round | refactoring (one line) | repository tests | checks that alarmed on first contact | now |", "|---|---|---|---|---|---|"]
    for p in sorted(glob.glob(os.path.join(HERE, "refactors", "*", "meta.json"))):
        m = json.load(open(p))
        al = m.get("alarms") or {}
        first = m.get("first_run_alarms")
        first_s = "(first round: see §9.7)" if first is None and m["id"].startswith("R") else ("none" if not first else ", ".join(sorted(first)))
        out.append("| %s | %s | %s | %s | %s | %s |" % (m["id"], m.get("round", 1), short(m.get("summary") or "", 200).replace("|", "\\|"), m.get("suite", "-") + ((" (excluded: " + m["exclude"] + ")") if m.get("exclude") else ""),
                                                  first_s, "silent" if not al else "ALARMS: " + ", ".join(sorted(al))))
    return "\n".join(out)


def seeded_first_run():
    return ""


def main():
    p = os.path.join(HERE, "DESIGN.md")
    s = open(p).read()
    for name, fn in (("RULES", rules_table), ("SEEDED", seeded_table), ("HAND", hand_table), ("REGRESS", regress_table), ("REFACTORS", refactors_table)):
        a, b = "<!-- GENERATED:%s -->" % name, "<!-- /GENERATED:%s -->" % name
        if a not in s:
            print("marker missing:", name); continue
        pre, rest = s.split(a, 1)
        _, post = rest.split(b, 1)
        s = pre + a + "\n" + fn() + "\n" + b + post
    open(p, "w").write(s)

if __name__ == "__main__":
    main()
