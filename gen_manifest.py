#!/usr/bin/env python3
"""Generate MANIFEST.json from the rule modules present (rules/rules_Cxx.py) and manifest_meta.json."""
import json, os, re
HERE = os.path.dirname(os.path.abspath(__file__))
meta = json.load(open(os.path.join(HERE, "manifest_meta.json")))
props = [json.loads(l) for l in open(os.path.join(HERE, "properties.jsonl"))]
checks, na = [], []
for p in props:
    pid = p["id"]
    m = meta.get(pid, {})
    if os.path.exists(os.path.join(HERE, "rules", "rules_%s.py" % pid)) and not m.get("not_applicable"):
        checks.append({
            "property_id": pid,
            "quick_cmd": "./check %s --tier quick" % pid,
            "thorough_cmd": "./check %s --tier thorough" % pid,
            "evidence_file": "/verif/evidence/%s.json" % pid,
            "replay_cmd_template": "./check %s --replay {path}" % pid,
            "engine": "thv-static",
            "level_claimed": {"category": "other", "text": m.get("text", ""), "design_ref": "DESIGN.md §4 %s" % pid},
            "level_note": m.get("note", ""),
            "technique": m.get("technique", "custom static analysis over rustc MIR"),
        })
    else:
        na.append({"property_id": pid, "reason": m.get("na_reason", "no check registered yet for this property in this round (rules under construction); nothing is claimed")})
man = {
    "version": 1,
    "setup_cmd": "./setup.sh",
    "hooks": {
        "guard": "tiny_http_verif",
        "enable": "not used: the checks analyse /repo unmodified (cargo +nightly check through the thv-driver RUSTC_WORKSPACE_WRAPPER); no hook was added to tiny-http",
        "baseline_off_cmd": "cd /repo && cargo nextest run --workspace --no-fail-fast --tool-config-file pb:/w/lib/nextest.toml --profile pb --test-threads 8 --offline || cargo test --workspace --no-fail-fast --offline",
        "source_commits": [],
        "add_only": True,
    },
    "engines": [{
        "name": "thv-static",
        "path": "/verif/check",
        "serves_properties": [c["property_id"] for c in checks],
        "kind_free_text": "rustc_private driver (driver/) serialises MIR, resolved callees, a monomorphic call graph and type/impl census of /repo's current tree; python rule engine (rules/) binds models by structure and role, splices private helpers and small std combinators into their callers (virtual inlining), explores abstract paths by path-sensitive constant/variant propagation in a term domain and evaluates census / effect / ownership / taint / decision-table rules on them; nothing of tiny-http is executed",
    }],
    "checks": checks,
    "notes": meta.get("_notes", ""),
    "not_applicable": na,
}
json.dump(man, open(os.path.join(HERE, "MANIFEST.json"), "w"), indent=1)
print("checks:", [c["property_id"] for c in checks], "na:", [n["property_id"] for n in na])
