#!/usr/bin/env python3
"""Development matrix (not a registered command): every stored variant of the tree x every check.
  R*/Q*  refactors/      behaviour-preserving  -> every check must stay silent (exit 0)
  S*  seeded/         property-breaking     -> the targeted property's check must fire (exit 1)
  H*  selftest/Cxx/   hand-written mutants  -> the check of the mutant's property must fire
  V*  selftest/regress reverts of repairs   -> the listed properties' checks must fire
  K*  selftest/stacked a refactoring + a break on top -> the check of the break's property must fire
usage: devsuite.py [--build] [--only REGEX] [--props C01,C02] [-v]
Trees are materialised under /tmp/thv-suite/<id>/ (--build refreshes them from /repo + patch)."""
import glob, json, os, re, shutil, subprocess, sys
from concurrent.futures import ThreadPoolExecutor
VERIF = os.path.dirname(os.path.abspath(__file__))
SUITE = "/tmp/thv-suite"
PROPS = ["C%02d" % i for i in range(1, 21)]

def variants():
    out = []
    for d in sorted(glob.glob(os.path.join(VERIF, "refactors", "[ABRQTUWXYZ]*-*"))):
        m = json.load(open(os.path.join(d, "meta.json")))
        if m.get("exclude"):
            continue
        out.append((os.path.basename(d), os.path.join(d, "patch.diff"), "silent", []))
    for d in sorted(glob.glob(os.path.join(VERIF, "seeded", "C*"))):
        m = json.load(open(os.path.join(d, "meta.json")))
        if m.get("open_miss"):
            continue        # a confirmed change no check reports yet (recorded in DESIGN.md); not an expectation of the matrix
        out.append(("S" + os.path.basename(d), os.path.join(d, "patch.diff"), "fire-or-closed" if m.get("fails_closed") else "fire", m.get("expect_props") or [m["property"]]))
    for p in sorted(glob.glob(os.path.join(VERIF, "selftest", "C*", "*.patch"))):
        m = json.load(open(p[:-6] + ".json"))
        out.append(("H%s-%s" % (m["property"], os.path.basename(p)[:-6]), p, "fire", [m["property"]]))
    for e in json.load(open(os.path.join(VERIF, "selftest", "regress", "index.json"))):
        out.append(("V" + e["patch"][:-6], os.path.join(VERIF, "selftest", "regress", e["patch"]), "fire", e["props"]))
    # mutants of REFACTORED trees (a refactoring from refactors/ with a property-breaking edit on top): the generalisation that made the
    # refactoring silent must not have made the check blind
    for d in sorted(glob.glob(os.path.join(VERIF, "selftest", "stacked", "*"))):
        if not os.path.isdir(d):
            continue
        m = json.load(open(os.path.join(d, "meta.json")))
        base = os.path.join(VERIF, "refactors", m["base"], "patch.diff")
        out.append(("K" + os.path.basename(d), [base, os.path.join(d, "patch.diff")], "fire", [m["property"]]))
    return out

def build(v):
    vid, patch, _, _ = v
    d = os.path.join(SUITE, vid)
    shutil.rmtree(d, ignore_errors=True)
    os.makedirs(d)
    subprocess.run(["rsync", "-a", "--exclude", "target", "--exclude", ".git", "/repo/", d + "/"], check=True)
    for one in (patch if isinstance(patch, list) else [patch]):
        r = subprocess.run(["patch", "-p1", "-s", "-E", "--no-backup-if-mismatch", "-i", one], cwd=d, stdout=subprocess.PIPE, stderr=subprocess.STDOUT, text=True)
        if r.returncode != 0:
            open(os.path.join(d, "STALE"), "w").write(r.stdout)
            break

def run(job):
    vid, prop = job
    d = os.path.join(SUITE, vid)
    if os.path.exists(os.path.join(d, "STALE")):
        return vid, prop, -1, ["stale patch"]
    r = subprocess.run([os.path.join(VERIF, "check"), prop, "--repo", d], cwd=VERIF, stdout=subprocess.PIPE, stderr=subprocess.STDOUT, text=True,
                       env=dict(os.environ, THV_CACHE_MAX="900"))
    keys = [l.split(" -- ")[0][len("violated: "):] for l in r.stdout.splitlines() if l.startswith("violated: ")]
    if r.returncode == 2:
        keys = [l for l in r.stdout.splitlines() if "CHECKER-ERROR" in l or "Error" in l][-1:]
    return vid, prop, r.returncode, keys

def main():
    a = sys.argv[1:]
    vs = variants()
    if "--only" in a:
        rx = re.compile(a[a.index("--only") + 1])
        vs = [v for v in vs if rx.search(v[0])]
    props = PROPS
    if "--props" in a:
        props = a[a.index("--props") + 1].split(",")
    verbose = "-v" in a
    os.makedirs(SUITE, exist_ok=True)
    todo = [v for v in vs if "--build" in a or not os.path.isdir(os.path.join(SUITE, v[0]))]
    with ThreadPoolExecutor(max_workers=16) as ex:
        list(ex.map(build, todo))
    # warm the fact cache one run per tree first (extraction is the expensive part), then the matrix
    with ThreadPoolExecutor(max_workers=12) as ex:
        list(ex.map(run, [(v[0], props[0]) for v in vs]))
    jobs = [(v[0], p) for v in vs for p in props]
    with ThreadPoolExecutor(max_workers=16) as ex:
        res = list(ex.map(run, jobs))
    by = {}
    for vid, prop, rc, keys in res:
        by.setdefault(vid, {})[prop] = (rc, keys)
    bad = 0
    for vid, patch, expect, eprops in vs:
        row = by[vid]
        if expect == "silent":
            al = {p: x for p, x in row.items() if x[0] != 0}
            if al:
                bad += 1
                print("FALSE-ALARM %-8s %s" % (vid, "  ".join("%s[%s]%s" % (p, "E" if x[0] == 2 else "V", (": " + "; ".join(k[:150] for k in x[1][:3])) if verbose else "") for p, x in sorted(al.items()))))
            else:
                print("ok silent   %s" % vid)
        else:
            # ("fire-or-closed": a change that replaces a whole mechanism -- the own check says it cannot decide (exit 2), which is accepted there)
            miss = [p for p in eprops if p in row and row[p][0] != 1 and not (expect == "fire-or-closed" and row[p][0] == 2)]
            extra = [p for p, x in row.items() if x[0] != 0 and p not in eprops]
            if miss:
                bad += 1
                print("MISSED      %-40s %s" % (vid, "  ".join("%s[rc=%d]%s" % (p, row[p][0], (": " + "; ".join(k[:150] for k in row[p][1][:2])) if verbose else "") for p in miss)))
            elif verbose or extra:
                print("ok caught   %-40s also: %s" % (vid, " ".join("%s%s" % (p, "[E]" if row[p][0] == 2 else "") for p in sorted(extra))))
    print("variants=%d bad=%d" % (len(vs), bad))

if __name__ == "__main__":
    main()
