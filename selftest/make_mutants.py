#!/usr/bin/env python3
"""Generate the hand-written self-validation mutants as unified diffs against /repo's current tree.
Each spec: (property, name, file, old, new, expected rule prefix(es), note).  Re-run after /repo changes."""
import difflib, json, os, sys
REPO = "/repo"
HERE = os.path.dirname(os.path.abspath(__file__))
M = []
def m(prop, name, file, old, new, expect, note=""):
    M.append((prop, name, file, old, new, expect if isinstance(expect, list) else [expect], note))

# ---- C01
m("C01", "flush-without-token-wait", "src/util/sequential.rs",
  """    fn flush(&mut self) -> IoResult<()> {
        if let Some(v) = self.trigger.as_mut() {
            v.recv().unwrap()
        }
        self.trigger = None;
""", """    fn flush(&mut self) -> IoResult<()> {
        self.trigger = None;
""", "C01.2|")
m("C01", "token-sent-from-write", "src/util/sequential.rs",
  """        self.writer.lock().unwrap().write(buf)
    }""", """        let n = self.writer.lock().unwrap().write(buf);
        self.on_finish.send(()).ok();
        n
    }""", "C01.3|")
m("C01", "builder-forgets-predecessor", "src/util/sequential.rs",
  """        Some(SequentialWriter {
            trigger: next_next_trigger,""", """        drop(next_next_trigger);
        Some(SequentialWriter {
            trigger: None,""", "C01.4|")
m("C01", "no-flush-in-respond_impl", "src/request.rs",
  """        Self::ignore_client_closing_errors(writer.flush())
    }""", """        Ok(())
    }""", ["C01.8|", "C04.5|"])
# ---- C02
m("C02", "as_str-swaps-put-post", "src/common.rs",
  """            Method::Post => "POST",
            Method::Put => "PUT",""", """            Method::Post => "PUT",
            Method::Put => "POST",""", "C02.1|")
m("C02", "skip-unparsable-header", "src/client.rs",
  """                        _ => return Err(ReadError::WrongHeader(version)),""", """                        _ => continue,""", ["C02.3|", "C10.2|", "C16.4|"])
m("C02", "lowercase-path", "src/request.rs",
  """        path,
        http_version: version,""", """        path: path.to_lowercase(),
        http_version: version,""", ["C02.4|", "C02.5|"])
# ---- C03
m("C03", "content-length-before-transfer-encoding", "src/request.rs",
  """    let content_length = if transfer_encoding.is_some() {""", """    let content_length = if false && transfer_encoding.is_some() {""", ["C03.1|", "C16.5|"])
m("C03", "unfused-equal-reader", "src/request.rs",
  """            Box::new(FusedReader::new(data_reader)) as Box<dyn Read + Send + 'static>
        }
    } else if transfer_encoding.is_some() {""", """            Box::new(data_reader) as Box<dyn Read + Send + 'static>
        }
    } else if transfer_encoding.is_some() {""", ["C03.4|", "C03.1|"])
m("C03", "equal-reader-off-by-one", "src/util/equal_reader.rs",
  """        let buf = if buf.len() < self.size {
            buf
        } else {
            &mut buf[..self.size]
        };""", """        let buf = if buf.len() <= self.size + 1 {
            buf
        } else {
            &mut buf[..self.size]
        };""", "C03.2|")
m("C11", "small-body-threshold-below-1024", "src/request.rs",
  """        } else if content_length <= 1024 && !expects_continue {""", """        } else if content_length < 1024 && !expects_continue {""", "C11.2|")
# ---- C04
m("C04", "304-sends-body", "src/response.rs",
  """                100..=199 | 204 | 304 => true,""", """                100..=199 | 204 => true,""", "C04.1|")
m("C04", "status-199-sends-body", "src/response.rs",
  """                100..=199 | 204 | 304 => true,""", """                100..=198 | 204 | 304 => true,""", "C04.1|")
m("C04", "identity-without-content-length", "src/response.rs",
  """            Some(TransferEncoding::Identity) => {
                assert!(data_length.is_some());
                let data_length = data_length.unwrap();

                self.headers.push(""", """            Some(TransferEncoding::Identity) if data_length != Some(0) => {
                assert!(data_length.is_some());
                let data_length = data_length.unwrap();

                self.headers.push(""", "C04.2|")
# ---- C05
m("C05", "threshold-strict", "src/response.rs",
  """        .map_or(true, |val| *val >= chunked_threshold)""", """        .map_or(true, |val| *val > chunked_threshold)""", "C05.1|")
m("C05", "http10-may-chunk", "src/response.rs",
  """    if *http_version <= (1, 0) {
        return TransferEncoding::Identity;""", """    if *http_version < (1, 0) {
        return TransferEncoding::Identity;""", "C05.1|")
m("C05", "ascending-q", "src/response.rs",
  """            parse.sort_by(|a, b| b.1.partial_cmp(&a.1).unwrap_or(Ordering::Equal));""", """            parse.sort_by(|a, b| a.1.partial_cmp(&b.1).unwrap_or(Ordering::Equal));""", "C05.4|")
m("C05", "status-200-identity", "src/response.rs",
  """    if status_code.0 < 200 || status_code.0 == 204 {""", """    if status_code.0 <= 200 || status_code.0 == 204 {""", ["C05.1|", "C18.5|"])
m("C05", "default-threshold-changed", "src/response.rs",
  """        self.chunked_threshold.unwrap_or(32768)""", """        self.chunked_threshold.unwrap_or(32767)""", "C05.3|")
# ---- C06
m("C06", "drop-without-500", "src/request.rs",
  """        if self.response_writer.is_some() {
            let response = Response::empty(500);
            let _ = self.respond_impl(response); // ignoring any potential error""", """        if self.response_writer.is_some() && !std::thread::panicking() {
            let response = Response::empty(500);
            let _ = self.respond_impl(response); // ignoring any potential error""", "C06.4|", "conjunction makes the occupied branch conditional")
m("C06", "second-slot-taker", "src/request.rs",
  """    pub(crate) fn with_notify_sender(mut self, sender: Sender<()>) -> Self {""", """    /// Gives access to the raw response writer without consuming the request.
    pub fn take_writer(&mut self) -> Box<dyn Write + Send + 'static> {
        self.extract_writer_impl()
    }

    pub(crate) fn with_notify_sender(mut self, sender: Sender<()>) -> Self {""", ["C06.2|", "C06.1|"])
m("C06", "drop-answers-503", "src/request.rs",
  """            let response = Response::empty(500);""", """            let response = Response::empty(503);""", ["C06.4|", "C06.7|"])
# ---- C07
m("C07", "push-without-notify", "src/util/messages_queue.rs",
  """        queue.push_back(Control::Elem(value));
        self.condvar.notify_one();""", """        queue.push_back(Control::Elem(value));""", ["C07.1|"])
m("C07", "push-front", "src/util/messages_queue.rs",
  """        queue.push_back(Control::Elem(value));""", """        queue.push_front(Control::Elem(value));""", ["C07.4|", "C07.1|", "C17.3|"])
m("C07", "pop-waits-before-looking", "src/util/messages_queue.rs",
  """        let mut queue = self.queue.lock().unwrap();

        loop {
            match queue.pop_front() {
                Some(Control::Elem(value)) => return Some(value),
                Some(Control::Unblock) => return None,
                None => (),
            }

            queue = self.condvar.wait(queue).unwrap();
        }""", """        let mut queue = self.queue.lock().unwrap();

        loop {
            queue = self.condvar.wait(queue).unwrap();

            match queue.pop_front() {
                Some(Control::Elem(value)) => return Some(value),
                Some(Control::Unblock) => return None,
                None => (),
            }
        }""", "C07.2|")
# ---- C08
m("C08", "task-runs-under-lock", "src/util/task_pool.rs",
  """                        if let Some(poped_task) = todo.pop_front() {
                            task = poped_task;
                            break;
                        }""", """                        if let Some(mut poped_task) = todo.pop_front() {
                            // run it right away
                            poped_task();
                            continue;
                        }""", "C08.2|")
m("C08", "retire-with-work-queued", "src/util/task_pool.rs",
  """                        if !received && todo.is_empty() {""", """                        if !received {""", "C08.4|")
# ---- C09
m("C09", "drain-reads-once", "src/util/equal_reader.rs",
  """        while remaining_to_read > 0 {""", """        let mut first = true;
        while remaining_to_read > 0 && first {
            first = false;""", ["C09.2|", "C13.1|"])
m("C09", "reader-state-lost-after-wait", "src/util/sequential.rs",
  """        let result = reader.read(buf);
        self.inner = SequentialReaderInner::MyTurn(reader);
        result""", """        let result = reader.read(buf);
        if result.is_ok() {
            self.inner = SequentialReaderInner::MyTurn(reader);
        }
        result""", "C09.4|")
# ---- C10
m("C10", "bad-header-keeps-connection", "src/client.rs",
  """                    response.raw_print(writer, ver, &[], false, None).ok();
                    return None; // we don't know where the next request would start,
                                 // se we have to close
                }

                Err(ReadError::ReadIoError(ref err)) if err.kind() == ErrorKind::TimedOut => {""", """                    response.raw_print(writer, ver, &[], false, None).ok();
                    continue;
                }

                Err(ReadError::ReadIoError(ref err)) if err.kind() == ErrorKind::TimedOut => {""", ["C10.1|", "C16.4|"])
m("C10", "version-gate-too-high", "src/client.rs",
  """            if *rq.http_version() > (1, 1) {""", """            if *rq.http_version() > (2, 0) {""", "C10.3|")
m("C10", "expect-anything-accepted", "src/request.rs",
  """            _ => return Err(RequestCreationError::ExpectationFailed),""", """            _ => false,""", "C10.6|")
m("C10", "missing-version-defaults", "src/client.rs",
  """        .and_then(|method| Some((method, path?, version?)))""", """        .and_then(|method| Some((method, path?, version.unwrap_or(HTTPVersion(1, 0)))))""", "C10.2|")
# ---- C11
m("C11", "buffered-body-keeps-reader", "src/request.rs",
  """            Box::new(Cursor::new(buffer)) as Box<dyn Read + Send + 'static>""", """            Box::new(Cursor::new(buffer).chain(source_data.take(0))) as Box<dyn Read + Send + 'static>""", ["C11.2|"])
# ---- C12
m("C12", "close-compared-case-sensitively", "src/client.rs",
  """                Some(ref val) if val.contains("close") => self.no_more_requests = true,""", """                Some(ref val) if val.contains("Close") => self.no_more_requests = true,""", "C12.1|")
m("C12", "http10-keepalive-ignored", "src/client.rs",
  """                    if !val.contains("keep-alive") && *rq.http_version() == HTTPVersion(1, 0) =>""", """                    if *rq.http_version() == HTTPVersion(1, 0) =>""", "C12.1|")
m("C12", "flag-reset", "src/client.rs",
  """                _ => (),
            };

            // returning the request""", """                _ => self.no_more_requests = false,
            };

            // returning the request""", "C12.2|")
m("C12", "halves-swapped", "src/util/refined_tcp_stream.rs",
  """        let read = RefinedTcpStream {
            stream: read,
            close_read: true,
            close_write: false,
        };""", """        let read = RefinedTcpStream {
            stream: read,
            close_read: true,
            close_write: true,
        };""", "C12.3|")
# ---- C13
m("C13", "single-read-for-small-body", "src/request.rs",
  """            while offset != content_length {
                let read = source_data.read(&mut buffer[offset..])?;""", """            if offset != content_length {
                let read = source_data.read(&mut buffer[offset..])?;""", ["C13.1|", "C09.3|", "C03.3|"])
# ---- C14
m("C14", "huge-preread-bound", "src/request.rs",
  """        } else if content_length <= 1024 && !expects_continue {""", """        } else if content_length <= 1024 * 1024 * 1024 && !expects_continue {""", ["C14.A|", "C03.1|"])
m("C14", "unwrap-on-header-value", "src/response.rs",
  """                if let Ok(te) = TransferEncoding::from_str(value.0) {
                    return Some(te);
                }""", """                if value.1 > 1.0 {
                    return Some(TransferEncoding::from_str(value.0).unwrap());
                }
                if let Ok(te) = TransferEncoding::from_str(value.0) {
                    return Some(te);
                }""", ["C14.B|", "C15.4|"])
m("C14", "index-past-prefix", "src/util/mod.rs",
  """                    if let Ok(val) = f32::from_str(p.trim_start()[2..].trim()) {""", """                    if let Ok(val) = f32::from_str(p.trim_start()[3..].trim()) {""", ["C14.B|"])
# ---- C15
m("C15", "reset-is-an-error", "src/request.rs",
  """            ErrorKind::ConnectionReset => Ok(()),
""", "", "C15.3|")
m("C15", "partial-body-delivered", "src/request.rs",
  """                if read == 0 {
                    // the socket returned EOF, but we were before the expected content-length
                    // aborting
                    let info = "Connection has been closed before we received enough data";
                    let err = IoError::new(ErrorKind::ConnectionAborted, info);
                    return Err(RequestCreationError::CreationIoError(err));
                }""", """                if read == 0 {
                    // the socket returned EOF before the expected content-length
                    buffer.truncate(offset);
                    break;
                }""", ["C15.2|"])
m("C15", "flush-error-unfiltered", "src/request.rs",
  """        Self::ignore_client_closing_errors(writer.flush())
    }""", """        writer.flush()
    }""", "C15.3|")
# ---- C16
m("C16", "content-length-lenient-again", "src/request.rs",
  """        if !value.bytes().all(|b| b.is_ascii_digit()) {
            return Err(RequestCreationError::InvalidContentLength);
        }""", """        if value.is_empty() {
            return Err(RequestCreationError::InvalidContentLength);
        }""", "C16.3|")
m("C16", "header-line-trimmed-start", "src/client.rs",
  """                    headers.push(match FromStr::from_str(line.as_str().trim_end()) {""", """                    headers.push(match FromStr::from_str(line.as_str().trim_start()) {""", "C16.2|")
m("C16", "invalid-length-maps-to-io-error", "src/client.rs",
  """                request::RequestCreationError::InvalidContentLength => {
                    ReadError::WrongHeader(version)
                }""", """                request::RequestCreationError::InvalidContentLength => {
                    ReadError::ReadIoError(IoError::new(ErrorKind::InvalidInput, "bad length"))
                }""", ["C16.4|", "C10.1|"])
# ---- C17
m("C17", "try-pop-skips-token", "src/util/messages_queue.rs",
  """        match queue.pop_front() {
            Some(Control::Elem(value)) => Some(value),
            Some(Control::Unblock) | None => None,
        }
    }

    /// Tries to pop an element without blocking
    /// more""", """        loop {
            match queue.pop_front() {
                Some(Control::Elem(value)) => return Some(value),
                Some(Control::Unblock) => continue,
                None => return None,
            }
        }
    }

    /// Tries to pop an element without blocking
    /// more""", "C17.2|")
m("C17", "unblock-two-tokens", "src/util/messages_queue.rs",
  """        queue.push_back(Control::Unblock);
        self.condvar.notify_one();""", """        queue.push_back(Control::Unblock);
        queue.push_back(Control::Unblock);
        self.condvar.notify_all();""", "C17.1|")
m("C17", "try-recv-waits", "src/lib.rs",
  """        match self.messages.try_pop() {""", """        match self.messages.pop_timeout(Duration::from_millis(1)) {""", ["C17.5|", "C17.4|"])
m("C17", "recv-timeout-maps-none-to-error", "src/lib.rs",
  """            Some(Message::NewRequest(rq)) => Ok(Some(rq)),
            None => Ok(None),
        }
    }

    /// Same as `recv()` but doesn't block.""", """            Some(Message::NewRequest(rq)) => Ok(Some(rq)),
            None => Err(IoError::new(IoErrorKind::TimedOut, "timed out")),
        }
    }

    /// Same as `recv()` but doesn't block.""", "C17.4|")
# ---- C18
m("C18", "flag-never-cleared", "src/request.rs",
  """            self.response_writer.as_mut().unwrap().flush().ok();
            self.must_send_continue = false;""", """            self.response_writer.as_mut().unwrap().flush().ok();""", "C18.2|")
m("C18", "continue-not-flushed", "src/request.rs",
  """            .ok();
            self.response_writer.as_mut().unwrap().flush().ok();
            self.must_send_continue = false;""", """            .ok();
            self.must_send_continue = false;""", "C18.2|")
m("C18", "expecting-body-preread", "src/request.rs",
  """        } else if content_length <= 1024 && !expects_continue {""", """        } else if content_length <= 1024 {""", ["C18.4|", "C03.1|", "C11.2|"])
# ---- C19
m("C19", "trailer-not-filtered", "src/response.rs",
  """            || header.field.equiv("Trailer")
""", "", "C19.1|")
m("C19", "constructor-stores-headers", "src/response.rs",
  """            headers: Vec::with_capacity(16),
            data_length,
            chunked_threshold: None,
        };

        for h in headers {
            response.add_header(h)
        }""", """            headers,
            data_length,
            chunked_threshold: None,
        };""", "C19.2|")
m("C19", "char-count-length", "src/response.rs",
  """        let data = data.into();
        let data_len = data.len();

        Response::new(
            StatusCode(200),
            vec![""", """        let data: String = data.into();
        let data_len = data.chars().count();

        Response::new(
            StatusCode(200),
            vec![""", "C19.4|")
m("C19", "content-type-appended", "src/response.rs",
  """                content_type_header.value = header.value;
                return;""", """                content_type_header.value = header.value.clone();""", "C19.1|")
# ---- C20
m("C20", "flag-after-wakeup", "src/lib.rs",
  """        self.close.store(true, Relaxed);
        // Connect briefly to ourselves to unblock the accept thread
        let maybe_stream = match &self.listening_addr {""", """        // Connect briefly to ourselves to unblock the accept thread
        let maybe_stream = match &self.listening_addr {""", "C20.1|", "store moved after (next mutant adds it back later)")
m("C20", "timed-wait-comparison-flipped", "src/util/task_pool.rs",
  """                            if sharing.active_tasks.load(Ordering::Acquire) <= MIN_THREADS {""", """                            if sharing.active_tasks.load(Ordering::Acquire) >= MIN_THREADS {""", "C20.4|")
m("C20", "pool-drop-does-not-wake", "src/util/task_pool.rs",
  """            .store(999_999_999, Ordering::Release);
        self.sharing.condvar.notify_all();""", """            .store(999_999_999, Ordering::Release);""", "C20.4|")

def main():
    out_index = {}
    for prop, name, file, old, new, expect, note in M:
        src = open(os.path.join(REPO, file)).read()
        if src.count(old) != 1:
            print("SPEC-STALE %s/%s: anchor found %d times" % (prop, name, src.count(old)))
            continue
        dst = src.replace(old, new)
        diff = "".join(difflib.unified_diff(src.splitlines(True), dst.splitlines(True), "a/" + file, "b/" + file))
        d = os.path.join(HERE, prop)
        os.makedirs(d, exist_ok=True)
        open(os.path.join(d, name + ".patch"), "w").write(diff)
        json.dump({"property": prop, "expect": expect, "note": note, "origin": "hand-written self-validation mutant"}, open(os.path.join(d, name + ".json"), "w"), indent=1)
    print("generated", len(M))

if __name__ == "__main__":
    main()
