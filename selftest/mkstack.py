#!/usr/bin/env python3
"""mkstack.py <id> <base refactoring> <property> <file> <old> <new> [<why>]: store a mutant of a refactored tree as selftest/stacked/<id>/"""
import sys, os, subprocess, shutil, json, tempfile
sid, base, prop, path, old, new = sys.argv[1:7]
why = sys.argv[7] if len(sys.argv) > 7 else ""
d = tempfile.mkdtemp(prefix="thv-stack.", dir="/tmp")
try:
    subprocess.run(["rsync", "-a", "--exclude", "target", "--exclude", ".git", "/repo/", d + "/a/"], check=True)
    subprocess.run(["patch", "-p1", "-s", "-E", "--no-backup-if-mismatch", "-i", "/verif/refactors/%s/patch.diff" % base], cwd=d + "/a", check=True)
    shutil.copytree(d + "/a", d + "/b")
    f = os.path.join(d, "b", path)
    s = open(f).read()
    assert s.count(old) == 1, "old text occurs %d times" % s.count(old)
    open(f, "w").write(s.replace(old, new))
    r = subprocess.run(["diff", "-ruN", "a/" + path, "b/" + path], cwd=d, stdout=subprocess.PIPE, text=True)
    out = "/verif/selftest/stacked/" + sid
    os.makedirs(out, exist_ok=True)
    open(out + "/patch.diff", "w").write(r.stdout)
    json.dump({"id": sid, "base": base, "property": prop, "why": why}, open(out + "/meta.json", "w"), indent=1)
    print("stored", out)
finally:
    shutil.rmtree(d, ignore_errors=True)
