#!/usr/bin/env python3
"""For every mutant under selftest/Cxx/ (and seeded/*): apply to a scratch copy of /repo; (1) run the
repository's own test suite, (2) run the checks named by the mutant's expectation.  Writes selftest/results.json.
usage: verify.py [--only Cxx] [--no-tests]"""
import glob, json, os, re, shutil, subprocess, sys, tempfile
from concurrent.futures import ThreadPoolExecutor
HERE = os.path.dirname(os.path.abspath(__file__))
VERIF = os.path.dirname(HERE)
only = None
if "--only" in sys.argv:
    only = sys.argv[sys.argv.index("--only") + 1]
run_tests = "--no-tests" not in sys.argv

def specs():
    out = []
    for p in sorted(glob.glob(os.path.join(HERE, "C*", "*.patch"))):
        meta = json.load(open(p[:-6] + ".json"))
        out.append((p, meta))
    for d in sorted(glob.glob(os.path.join(VERIF, "seeded", "*"))):
        mp = os.path.join(d, "meta.json")
        if os.path.exists(mp):
            out.append((os.path.join(d, "patch.diff"), json.load(open(mp))))
    if only:
        out = [(p, m) for p, m in out if m.get("property") == only]
    return out

def one(args):
    idx, (patch, meta) = args
    worker = idx % 8
    d = tempfile.mkdtemp(prefix="thv-vfy.", dir="/tmp")
    res = {"patch": os.path.relpath(patch, VERIF), "property": meta.get("property")}
    try:
        subprocess.run(["rsync", "-a", "--exclude", "target", "--exclude", ".git", "/repo/", d + "/"], check=True)
        r = subprocess.run(["patch", "-p1", "-s", "-E", "--no-backup-if-mismatch", "-i", patch], cwd=d, stdout=subprocess.PIPE, stderr=subprocess.STDOUT, text=True)
        if r.returncode != 0:
            res["status"] = "stale"
            return res
        if run_tests:
            tdir = os.path.join(d, "target")
            env = dict(os.environ, CARGO_TARGET_DIR=tdir, CARGO_NET_OFFLINE="true")
            try:
                r = subprocess.run(["cargo", "test", "--offline", "--no-fail-fast"], cwd=d, env=env, stdout=subprocess.PIPE, stderr=subprocess.STDOUT, text=True, timeout=420)
                fails = re.findall(r"^test (\S+) \.\.\. FAILED", r.stdout, re.M)
                res["tests"] = "pass" if r.returncode == 0 else ("compile-error" if re.search(r"^error(\[E\d+\])?: (?!test failed)", r.stdout, re.M) and not fails else "killed-by-tests: " + ",".join(fails[:4]))
            except subprocess.TimeoutExpired:
                res["tests"] = "killed-by-tests: hang (>420 s)"
        # all twenty checks: the expected one(s) must fire; what else fires is recorded so that alarms of properties the
        # mutant does not break can be reviewed
        props = ["C%02d" % i for i in range(1, 21)]
        fired = {}
        for p in props:
            rr = subprocess.run([os.path.join(VERIF, "check"), p, "--repo", d], cwd=VERIF, stdout=subprocess.PIPE, stderr=subprocess.STDOUT, text=True)
            keys = [l.split(" @ ")[0][len("violated: "):] for l in rr.stdout.splitlines() if l.startswith("violated: ")]
            fired[p] = {"rc": rr.returncode, "keys": keys[:8]}
            if rr.returncode == 2:
                fired[p]["err"] = rr.stdout.strip().splitlines()[-1][:300]
        res["checks"] = fired
        exp = meta.get("expect") or []
        own = meta.get("property")
        res["caught_by"] = sorted(p for p, v in fired.items() if v["rc"] == 1)
        res["caught_by_own_property"] = fired.get(own, {}).get("rc") == 1
        res["expected_rules_fired"] = [e for e in exp if any(k.startswith(e) for v in fired.values() for k in v["keys"])]
        return res
    except Exception as e:
        res["status"] = "error: %s" % str(e)[:200]
        return res
    finally:
        shutil.rmtree(d, ignore_errors=True)

if __name__ == "__main__":
    ss = specs()
    with ThreadPoolExecutor(max_workers=8) as ex:
        results = list(ex.map(one, enumerate(ss)))
    for w in range(8):
        shutil.rmtree("/tmp/thv-vfy-target-%d" % w, ignore_errors=True)
    old = {}
    rp = os.path.join(HERE, "results.json")
    if os.path.exists(rp) and only:
        old = {r["patch"]: r for r in json.load(open(rp))}
    for r in results:
        old[r["patch"]] = r
    json.dump(sorted(old.values(), key=lambda r: r["patch"]) if only else results, open(rp, "w"), indent=1)
    for r in results:
        print("%-58s tests=%-14s own=%-5s caught_by=%s exp_fired=%s %s" % (r["patch"][:58], r.get("tests", "-")[:14], r.get("caught_by_own_property"), ",".join(r.get("caught_by", [])),
              len(r.get("expected_rules_fired", [])), r.get("status", "") + " ".join(v.get("err", "") for v in r.get("checks", {}).values())))
