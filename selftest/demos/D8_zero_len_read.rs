use std::io::{Read, Write};
use std::net::TcpStream;

// A body of 2000 bytes (streamed: above the 1024-byte pre-read limit). The application first fills a 16-byte
// buffer with the usual loop `read(&mut buf[filled..])` until it returns 0 -- the last call passes an empty
// slice -- and then reads the rest.
#[test]
fn zero_length_read_must_not_end_the_body() {
    let server = tiny_http::Server::http("127.0.0.1:0").unwrap();
    let port = server.server_addr().to_ip().unwrap().port();
    let mut client = TcpStream::connect(("127.0.0.1", port)).unwrap();
    let body = vec![b'x'; 2000];
    write!(client, "POST / HTTP/1.1\r\nHost: a\r\nContent-Length: {}\r\n\r\n", body.len()).unwrap();
    client.write_all(&body).unwrap();

    let mut rq = server.recv().unwrap();
    let mut head = [0u8; 16];
    let mut filled = 0;
    loop {
        let n = rq.as_reader().read(&mut head[filled..]).unwrap();
        if n == 0 {
            break;
        }
        filled += n;
    }
    assert_eq!(filled, 16);
    let mut rest = Vec::new();
    rq.as_reader().read_to_end(&mut rest).unwrap();
    assert_eq!(rest.len(), 2000 - 16, "the body ended early: a zero-length read was taken for end of stream");
    rq.respond(tiny_http::Response::empty(200)).unwrap();
}
