#!/bin/bash
# Build the fact-extraction driver (offline, nightly + rustc-dev) and byte-compile the rules.
set -e
cd "$(dirname "$0")"
export CARGO_NET_OFFLINE=true
(cd driver && cargo +nightly build --release --offline)
python3 -m compileall -q rules >/dev/null
test -x driver/target/release/thv-driver
echo "setup ok"
