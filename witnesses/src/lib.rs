//! Compile-fail witnesses for the type-level clauses of C01 / C06 / C07, each paired with a
//! compiling twin that differs only in the offending line (a witness whose path is merely wrong
//! would also "fail to compile").  Nothing here runs: the twins are `no_run`.
//!
//! Run with `cargo +nightly test --doc --offline` (error codes are only honoured on nightly).

/// A request cannot be answered twice: `respond` takes the request by value.
///
/// ```compile_fail,E0382
/// fn handler(rq: tiny_http::Request) {
///     let a = tiny_http::Response::from_string("a");
///     let b = tiny_http::Response::from_string("b");
///     let _ = rq.respond(a);
///     let _ = rq.respond(b); // use of moved value: `rq`
/// }
/// ```
///
/// Twin (compiles):
/// ```no_run
/// fn handler(rq: tiny_http::Request) {
///     let a = tiny_http::Response::from_string("a");
///     let _b = tiny_http::Response::from_string("b");
///     let _ = rq.respond(a);
/// }
/// ```
pub struct RespondTwice;

/// After `into_writer` the request is gone: it cannot be answered through `respond` as well.
///
/// ```compile_fail,E0382
/// fn handler(rq: tiny_http::Request) {
///     let w = rq.into_writer();
///     let _ = rq.respond(tiny_http::Response::from_string("x")); // use of moved value: `rq`
///     drop(w);
/// }
/// ```
///
/// Twin (compiles):
/// ```no_run
/// fn handler(rq: tiny_http::Request) {
///     let w = rq.into_writer();
///     drop(w);
/// }
/// ```
pub struct RespondAfterIntoWriter;

/// After `respond` the body reader is gone too (no 100-continue after the final response).
///
/// ```compile_fail,E0382
/// fn handler(mut rq: tiny_http::Request) {
///     let _ = rq.respond(tiny_http::Response::from_string("x"));
///     let _ = rq.as_reader(); // borrow of moved value: `rq`
/// }
/// ```
///
/// Twin (compiles):
/// ```no_run
/// fn handler(mut rq: tiny_http::Request) {
///     let _ = rq.as_reader();
///     let _ = rq.respond(tiny_http::Response::from_string("x"));
/// }
/// ```
pub struct ReadAfterRespond;

/// `upgrade` consumes the request as well.
///
/// ```compile_fail,E0382
/// fn handler(rq: tiny_http::Request) {
///     let s = rq.upgrade("websocket", tiny_http::Response::empty(101));
///     let _ = rq.respond(tiny_http::Response::from_string("x")); // use of moved value: `rq`
///     drop(s);
/// }
/// ```
///
/// Twin (compiles):
/// ```no_run
/// fn handler(rq: tiny_http::Request) {
///     let s = rq.upgrade("websocket", tiny_http::Response::empty(101));
///     drop(s);
/// }
/// ```
pub struct RespondAfterUpgrade;

/// A request cannot be duplicated (so at most one receiver / one answer).
///
/// ```compile_fail,E0277
/// fn needs_clone<T: Clone>() {}
/// fn main() { needs_clone::<tiny_http::Request>(); } // `Request: Clone` is not satisfied
/// ```
///
/// Twin (compiles; `Request` is `Send`, which the API promises):
/// ```no_run
/// fn needs_send<T: Send>() {}
/// fn main() { needs_send::<tiny_http::Request>(); }
/// ```
pub struct RequestNotClone;

/// The response writer handed out by `into_writer` is an owned `Box<dyn Write + Send>`: it cannot
/// be cloned either, so a response can only be written by one owner at a time.
///
/// ```compile_fail,E0599
/// fn handler(rq: tiny_http::Request) {
///     let w = rq.into_writer();
///     let _w2 = w.clone(); // no method named `clone` found for `Box<dyn Write + Send>`
/// }
/// ```
///
/// Twin (compiles):
/// ```no_run
/// fn handler(rq: tiny_http::Request) {
///     let w = rq.into_writer();
///     let _w2 = w;
/// }
/// ```
pub struct WriterNotClone;
