"""The connection parser seen by role: `<ClientConnection as Iterator>::next`, the function it calls to obtain
`Result<Request, _>` ("read"), both with the helpers of their own source file and the small std combinators spliced in;
everything defined elsewhere (Request / Response methods, header parsing, new_request, the turn-taking builders) stays a call
and shows up as an event of the abstract paths.  Decision tables are extracted by exploring the abstract paths and reading
the conditions each path assumed (absint), so they do not depend on whether the code is a `match` with guards, an `if` chain,
a helper returning bool, ..."""
import re, itertools
from core import *  # noqa
from roles import *  # noqa
import roles, shared, symex, inline, absint
import queue_rules as Q

RQ = ("sym", "request")
RESULT = "std::result::Result"
_FACTS = {}


def Ok_(v):
    return ("agg", RESULT, "Ok", {"0": v})


def Err_(v):
    return ("agg", RESULT, "Err", {"0": v})


class ParserModel:
    def __init__(self, facts):
        self.facts = facts
        _FACTS["facts"] = facts
        self.cc_next = method(facts, T_ITER, CC, "next")
        self.file = self.cc_next.file
        raw = self.cc_next
        # the parser's own code: the functions of its file, and private helpers that were moved elsewhere (reading and parsing the head may
        # live next to the Request type) -- everything local that no other model owns: not new_request, not the methods of the Request /
        # Response / turn-taking / body-reader types, nothing of the response module
        owned_adts = {REQ, RESP, SW, SR, SWB, SRB, ER, FR}
        resp_file = facts.adt(RESP)["file"]
        seq_file = facts.adt(SW)["file"]
        req_file = facts.adt(REQ)["file"]
        mod_prefix = CC.rsplit("::", 1)[0] + "::"
        def same_file(d):
            g = facts.fns.get(d)
            if g is None or not g.rec.get("local"):
                return False
            if g.file == self.file:
                return True
            if d.startswith(mod_prefix) or d.startswith("<" + mod_prefix):
                return True             # a submodule of the parser's module (`client/head.rs`)
            if g.file != req_file:
                return False            # (helpers moved next to the Request type are followed; other modules have their own rules)
            if d == "request::new_request" or g.rec.get("impl_self_adt") in owned_adts:
                return False
            if g.rec.get("impl_trait") in (T_READ, T_WRITE, T_DROP):
                return False
            return True
        self.same_file = same_file
        # first find "read": inline everything of this file, look for the call whose destination is Result<Request, E>
        full = inline.inlined(facts, self.cc_next.id, stop=lambda d: facts.fns[d].rec.get("local") and not same_file(d), extern_ok=Q.std_small)
        # (called by next() itself, or by the step helper(s) next() is made of: the outermost such call)
        by_depth = {}
        for b in range(full.n):
            ic = full.blocks[b].get("inl_call")
            if ic and full.local_ty(ic["dest"]["l"]).startswith("std::result::Result<request::Request,"):
                by_depth.setdefault(full.blocks[b].get("depth") or 0, set()).add(full.term(b).get("inl_enter"))
        prod = set(by_depth[min(by_depth)]) if by_depth else set()
        if len(prod) != 1:
            raise CheckerError("parser rules: the function next() calls to obtain Result<Request, _> was not found (%s)" % sorted(map(str, prod)))
        self.read_def = prod.pop()
        self.read_p = self.read_def          # the function whose result is the Result<Request, _>
        self.read_h = None                   # (a separate function that reads the head, when the two are split)
        def has_line_calls(fid):
            g_ = inline.inlined(facts, fid, stop=lambda d: facts.fns[d].rec.get("local") and not same_file(d), extern_ok=Q.std_small)
            for b in range(g_.n):
                ic = g_.blocks[b].get("inl_call")
                if ic and re.match(LINE_TY, g_.local_ty(ic["dest"]["l"])):
                    return True
            return False
        if not has_line_calls(self.read_p):
            # the head is read by one function (`read_head() -> Result<Head, E>`) and the request built by another (`build_request(head) ->
            # Result<Request, E>`), called one after the other with their errors going the same way: the two together are "the head reader"
            dmin = min(by_depth)
            pb = [b for b in range(full.n) if full.blocks[b].get("inl_call") and full.term(b).get("inl_enter") == self.read_p and (full.blocks[b].get("depth") or 0) == dmin]
            pty = full.local_ty(full.blocks[pb[0]]["inl_call"]["dest"]["l"]) if pb else ""
            mm_ = re.match(r"^std::result::Result<request::Request, ([\w:]+)>$", pty)
            hs = []
            if mm_:
                for b in range(full.n):
                    ic = full.blocks[b].get("inl_call")
                    d_ = full.term(b).get("inl_enter") if ic else None
                    if ic and d_ != self.read_p and (full.blocks[b].get("depth") or 0) == dmin and \
                            re.match(r"^std::result::Result<.+, %s>$" % re.escape(mm_.group(1)), full.local_ty(ic["dest"]["l"])) and same_file(d_) and "{closure" not in d_ and has_line_calls(d_):
                        if all(full.dominates(b, x, unwind=False) for x in pb) and d_ not in [h for h, _ in hs]:
                            hs.append((d_, full.local_ty(ic["dest"]["l"])))
            H = facts.fns.get(hs[0][0]) if len(hs) == 1 else None
            P = facts.fns[self.read_p]
            okty = re.match(r"^std::result::Result<(.+), %s>$" % re.escape(mm_.group(1)), hs[0][1]).group(1) if H is not None else None
            if H is not None and H.argc == 1 and P.argc == 2 and P.local_ty(2) == okty and P.local_ty(1) == H.local_ty(1):
                self.read_h = H.id
                self.read_def = self._compose(facts, H, P, hs[0][1], pty, mm_.group(1))
        stops = {self.read_p, self.read_h} - {None}
        self.nxt = inline.inlined(facts, self.cc_next.id, stop=lambda d: facts.fns[d].rec.get("local") and (not same_file(d) or d in stops), extern_ok=Q.std_small)
        self.rd = inline.inlined(facts, self.read_def, stop=lambda d: facts.fns[d].rec.get("local") and not same_file(d), extern_ok=Q.std_small)
        self.read_calls = [bb for bb, t in self.nxt.calls() if call_name(t) == self.read_p]
        self.head_calls = [bb for bb, t in self.nxt.calls() if self.read_h is not None and call_name(t) == self.read_h]
        self.read_entry = self.read_h or self.read_p
        ty = self.nxt.local_ty(self.nxt.term(self.read_calls[0])["dest"]["l"])
        mm = re.match(r"^std::result::Result<request::Request, ([\w:]+)>$", ty)
        self.err_adt = mm.group(1) if mm else None
        # the last-request gate: the field of the connection (a bool or a field-less enum of the crate) that is assigned outside its
        # construction.  Its value at construction is the `open` state, the values stored later are the `closed` states.
        cc = facts.adt(CC)
        def gate_ty(ty):
            if ty == "bool":
                return True
            a = facts.adts.get(ty)
            return a is not None and a.get("kind") == "Enum" and all(not v["fields"] for v in a["variants"])
        flags = []
        for x in cc["variants"][0]["fields"]:
            if gate_ty(x["ty"]) and [w for w in facts.field_writes(CC, x["name"]) if w[2] not in ("construct", "drop")]:
                flags.append((x["name"], x["ty"]))
        if len(flags) != 1:
            raise CheckerError("parser rules: last-request flag of %s not found (%s)" % (CC, flags))
        self.flag, self.flag_ty = flags[0]
        self.flag_open, self.flag_closed, self.flag_writes = set(), set(), []
        for g, bb, kind, x in facts.field_writes(CC, self.flag):
            if kind == "construct":
                r = x["rhs"]
                v = static_value(g, r["ops"][r["fields"].index(self.flag)])
                self.flag_open.add(v)
            elif kind == "assign":
                v = static_value(g, x["rhs"]["op"]) if x["rhs"]["rv"] == "use" else static_rvalue(g, x["rhs"])
                self.flag_closed.add(v)
            elif kind == "drop":
                continue
            else:
                v = None
                self.flag_closed.add(None)
            self.flag_writes.append((g, bb, kind, v))
        # a boolean gate that is assigned a computed value can hold either boolean: the one it does not start with is the closed state
        if self.flag_ty == "bool" and None in self.flag_closed and len(self.flag_open) == 1:
            (o,) = self.flag_open
            if o is not None and o[0] == "b":
                self.flag_closed.add(("b", not o[1]))

    def is_read_entry(self, t):
        """is the call terminator the one with which next() starts reading a request?"""
        return t.get("t") == "call" and call_name(t) == self.read_entry

    def _compose(self, facts, H, P, hty, pty, ety):
        """`fn read(&mut self) -> Result<Request, E> { let head = H(self)?; P(self, head) }` as a body of its own (H and P resolved to
        their instances), registered under a name of its own"""
        from core import Fn
        sid = "%s::<head reader: %s + %s>" % (CC, H.id.rsplit("::", 1)[-1], P.id.rsplit("::", 1)[-1])
        if sid in facts.fns:
            return sid
        line = H.line
        L = lambda ty, nm=None: {"ty": ty, "adt": None, "name": nm, "mut": True}
        okty = P.local_ty(2)
        locs = [L(pty), L(H.local_ty(1), "self"), L(hty), L(okty, "head"), L("isize"), L(H.local_ty(1)), L(H.local_ty(1))]
        pl = lambda l, *proj: {"l": l, "p": list(proj)}
        mv = lambda l, *proj: {"k": "move", "pl": pl(l, *proj)}
        asg = lambda lhs, rhs: {"s": "assign", "line": line, "exp": False, "lhs": lhs, "rhs": rhs, "syn": True}
        fld0 = {"f": 0, "n": "0", "ty": "?"}
        def inst_of(g):
            c = [x for x in facts.instances_of(g.id) if x["kind"] == "item"]
            return c[0]["id"] if len(c) == 1 else None
        def call(g, args, dest, target):
            t = {"t": "call", "line": line, "exp": False, "callee": g.id, "callee_krate": "tiny_http", "gargs": [], "name": g.id.rsplit("::", 1)[-1], "res": g.id, "res_krate": "tiny_http",
                 "res_kind": "item", "res_name": g.id, "args": args, "arg_tys": [g.local_ty(i + 1) for i in range(len(args))], "dest": pl(dest), "target": target, "unwind": "continue", "fn_exp": False, "syn": True}
            i = inst_of(g)
            if i is not None:
                t["syn_to"] = i
            return t
        reb = lambda dst: asg(pl(dst), {"rv": "ref", "mut": True, "pl": pl(1, "*")})
        blocks = [
            {"cleanup": False, "stmts": [reb(5)], "term": call(H, [mv(5)], 2, 1)},
            {"cleanup": False, "stmts": [asg(pl(4), {"rv": "discr", "pl": pl(2), "ty": hty, "adt": "std::result::Result", "variants": [[0, "Ok"], [1, "Err"]]})],
             "term": {"t": "switch", "line": line, "exp": False, "discr": mv(4), "dty": "isize", "targets": [[0, 2], [1, 3]], "otherwise": 5}},
            {"cleanup": False, "stmts": [asg(pl(3), {"rv": "use", "op": mv(2, {"d": "Ok"}, fld0)}), reb(6)], "term": call(P, [mv(6), mv(3)], 0, 4)},
            {"cleanup": False, "stmts": [asg(pl(0), {"rv": "agg", "agg": "adt", "adt": "std::result::Result", "variant": "Err", "fields": ["0"], "ops": [mv(2, {"d": "Err"}, fld0)]})],
             "term": {"t": "goto", "line": line, "exp": False, "target": 4}},
            {"cleanup": False, "stmts": [], "term": {"t": "return", "line": line, "exp": False}},
            {"cleanup": False, "stmts": [], "term": {"t": "unreachable", "line": line, "exp": False}},
        ]
        mir = {"blocks": blocks, "locals": locs, "argc": 1, "file": H.mir["file"], "line": line}
        if H.mir.get("real_file"):
            mir["real_file"] = H.mir["real_file"]
        rec = {"id": sid, "local": True, "synthetic": True, "def_kind": "AssocFn", "promoted": [], "mir": mir, "vis_pub": False, "impl_self_adt": CC, "impl_trait": None, "name": "read"}
        facts.fns[sid] = Fn(facts, rec)
        return sid

    def flag_term(self, nv):
        if nv[0] == "b":
            return ("const", nv[1], "true" if nv[1] else "false", None)
        return ("agg", self.flag_ty, nv[1], {})

    def line_calls(self):
        """blocks of the head reader at which its line reader (a function of the parser's own file returning io::Result<line>) is entered"""
        rd = self.rd
        out = []
        for b in range(rd.n):
            ic = rd.blocks[b].get("inl_call")
            if not ic:
                continue
            cal = rd.blocks[b]["term"].get("inl_enter")
            g = self.facts.fns.get(cal)
            if g is not None and self.same_file(cal) and "{closure" not in cal and re.match(LINE_TY, rd.local_ty(ic["dest"]["l"])):
                out.append(b)
        return out

    def line_reader(self):
        """the parser's line reader function (bound by role: the same-file function returning io::Result<line> that the head reader calls)"""
        ds = {self.rd.blocks[b]["term"].get("inl_enter") for b in self.line_calls()}
        if len(ds) != 1:
            raise CheckerError("parser rules: the head reader's line reader was not found (%s)" % sorted(map(str, ds)))
        return self.facts.fn(ds.pop())

    def after_read(self, value, stop_at_read=True, **kw):
        """abstract paths of next() after the call of read returned `value`"""
        out = []
        f = self.nxt
        # the state in which the read call is reached: the entry of next() explored up to that call (the call may sit inside a step helper,
        # whose arguments -- the reborrowed `self` -- are bound on the way there)
        if not hasattr(self, "_pre_read"):
            self._pre_read = {}
            def at_read(bb, t2, st2):
                if t2["t"] == "call" and call_name(t2) == self.read_p:
                    return "read"
            for p in absint.explore(f, 0, None, stop=at_read, max_paths=200):
                if p.end[0] == "stop" and p.end[2] == "read":
                    self._pre_read.setdefault(p.blocks[-1], p.state)
        for rb in self.read_calls:
            t = f.term(rb)
            st = self._pre_read[rb].clone() if rb in self._pre_read else symex.Sym(f)
            st.write_key(pl_key(t["dest"]), value)
            def stop(bb, t2, st2):
                if stop_at_read and self.is_read_entry(t2):
                    return "read-again"
            out += absint.explore(f, t["target"], st, stop=stop, **kw)
        # an error may also come out of the function that reads the head, when that is a function of its own
        if self.head_calls and value and value[0] == "agg" and value[2] == "Err":
            if not hasattr(self, "_pre_head"):
                self._pre_head = {}
                def at_head(bb, t2, st2):
                    if self.is_read_entry(t2):
                        return "head"
                for p in absint.explore(f, 0, None, stop=at_head, max_paths=200):
                    if p.end[0] == "stop" and p.end[2] == "head":
                        self._pre_head.setdefault(p.blocks[-1], p.state)
            for hb in self.head_calls:
                t = f.term(hb)
                st = self._pre_head[hb].clone() if hb in self._pre_head else symex.Sym(f)
                st.write_key(pl_key(t["dest"]), value)
                def stop2(bb, t2, st2):
                    if stop_at_read and self.is_read_entry(t2) and bb != hb:
                        return "read-again"
                out += absint.explore(f, t["target"], st, stop=stop2, **kw)
        return out

    def flag_set(self, p):
        """None: the gate was not touched on this path; True: it now holds one of the closed values; False: it holds the open value again"""
        v = p.state.read_key((1, "*", "." + self.flag))
        if v[0] == "init":
            return None     # untouched
        nv = norm_value(absint.deep(p.state, v))
        if nv is not None and nv in self.flag_closed and nv not in self.flag_open:
            return True
        if nv is not None and nv in self.flag_open:
            return False
        return "?"


def norm_value(v):
    """('b', bool) / ('v', variant name) for a constant bool / a field-less enum value, else None"""
    c = absint.const_of(v)
    if isinstance(c, bool):
        return ("b", c)
    if v[0] in ("agg", "variant") and (len(v) < 4 or not v[3]):
        return ("v", v[2])
    return None


def static_rvalue(f, r):
    if r["rv"] == "agg" and r.get("agg") == "adt" and not r.get("ops"):
        return ("v", r["variant"])
    if r["rv"] == "use":
        return static_value(f, r["op"])
    return None


def static_value(f, op, depth=0):
    """value of an operand that is a constant or a temporary assigned exactly once from a constant / a field-less enum constructor"""
    c = op_const(op)
    if isinstance(c, bool):
        return ("b", c)
    l = op_local(op)
    if l is None or depth > 4:
        return None
    defs = [s for bb, i, s in f.assigns() if s["lhs"]["l"] == l and not s["lhs"]["p"]]
    if len(defs) != 1:
        return None
    return static_rvalue(f, defs[0]["rhs"]) if defs[0]["rhs"]["rv"] != "use" else static_value(f, defs[0]["rhs"]["op"], depth + 1)


def pmodel(facts):
    if not hasattr(facts, "_parser_model"):
        facts._parser_model = ParserModel(facts)
    return facts._parser_model


# ---- condition atoms ---------------------------------------------------------------------------

def const_str(v):
    while v and v[0] in ("constref", "ref*"):
        v = v[1]
    if v and v[0] == "const" and isinstance(v[1], str):
        return v[1]
    return None


def version_const(v):
    while v and v[0] in ("constref", "ref*", "clone"):
        v = v[1]
    if v and v[0] == "tuple" and len(v[1]) == 2:
        a, b = absint.const_of(v[1][0]), absint.const_of(v[1][1])
        if isinstance(a, int) and isinstance(b, int):
            return (a, b)
    if v and v[0] == "agg" and v[1] == HV:
        xs = [absint.const_of(x) for x in v[3].values()]
        if len(xs) == 2 and all(isinstance(x, int) for x in xs):
            return tuple(xs)
    return None


CMP = {"eq": lambda a, b: a == b, "ne": lambda a, b: a != b, "lt": lambda a, b: a < b, "le": lambda a, b: a <= b, "gt": lambda a, b: a > b, "ge": lambda a, b: a >= b}


def atom_of_cond(c):
    """-> (atom, value) ; atom = ('contains', lit) | ('version', op, (maj, min), const_is_lhs) | ('lookup', header name) | None"""
    if not c:
        return None
    if c[0] == "scalar":
        v, val = c[1], c[2]
        neg = False
        while v[0] == "unop" and v[1] == "Not":
            v = v[2]
            neg = not neg
        if v[0] != "call" or not isinstance(val, bool):
            return None
        val = val != neg
        name, args = v[1], v[2]
        if re.search(r"<impl str>::contains", name) and len(args) == 2 and const_str(args[1]) is not None:
            return (("contains", const_str(args[1]), v), val)
        full = name + " " + (v[4] if len(v) > 4 else "")
        m = re.search(r"<common::HTTPVersion as std::cmp::Partial(?:Eq|Ord)(?:<.*>)?>::(eq|ne|lt|le|gt|ge)\b", full)
        if m and len(args) == 2:
            k0, k1 = version_const(args[0]), version_const(args[1])
            if k1 is not None:
                return (("version", m.group(1), k1, False), val)
            if k0 is not None:
                return (("version", m.group(1), k0, True), val)
        return (("call", name, v), val)
    if c[0] == "variant":
        key, name, cur = c[1], c[2], c[3]
        lits = absint.str_consts(cur)
        for x in absint.calls_in(cur):
            for a in x[2]:
                if isinstance(a, tuple) and a and a[0] == "closure":
                    lits += closure_literals(a[1])
        if name in ("Some", "None") and lits:
            return (("lookup", tuple(sorted(set(lits))), cur), name == "Some")
        return (("variant", name, cur), True)
    return None


def closure_literals(cdef):
    facts = _FACTS.get("facts")
    g = facts.fns.get(cdef) if facts else None
    out = []
    if g is not None:
        for bb, t in g.calls():
            out += [c for c in arg_consts(g, t) if isinstance(c, str)]
    return out


LINE_TY = r"^std::result::Result<(ascii::AsciiString|std::string::String|std::vec::Vec<u8>), std::io::Error>$"
LINE = ("sym", "line")
VER = ("sym", "version-of-the-request")
DEAD = ("diverge", "resume", "terminate", "unreachable")


def returns_type(f, x, needle):
    """does the call term x produce a value whose type mentions `needle`? (declared return type of the callee when it is a
    crate function, else the type of the destination of the call site)"""
    g = f.facts.fns.get(x[1])
    if g is not None and needle in g.locals[0]["ty"]:
        return True
    bb = x[3] if len(x) > 3 else None
    if isinstance(bb, int) and 0 <= bb < f.n:
        t = f.blocks[bb].get("inl_call") or f.term(bb)
        if t.get("t") == "call" or "dest" in t:
            return needle in f.local_ty(t["dest"]["l"])
    return False


def statuses_of(p):
    out = []
    for e in p.calls():
        for a in e[3]:
            for x in absint.walk_terms(absint.deep(p.state, a)):
                if x and x[0] == "agg" and x[1] == STATUS:
                    c = absint.const_of(list(x[3].values())[0]) if x[3] else None
                    out.append(c)
    return out


def prints_of(p):
    import request_rules as RR_
    RR_.rmodel(_FACTS["facts"])
    return [e for e in p.calls() if re.search(RR_.RAW_PRINT, e[2])]


def version_arg(p, e):
    """the HTTP version a raw_print answers with (3rd argument)"""
    a = shared.print_call_args(_FACTS["facts"], p.state, e)
    if "version" in a:
        return a["version"]
    return absint.deep(p.state, e[3][2]) if len(e[3]) > 2 else None


def io_error(kind):
    return ("call", "std::io::Error::new", [("agg", "std::io::ErrorKind", kind, {}), ("const", "x", '"x"', None)], -1, "")




def trace_and_judge(ctx, r1, r2, only=None):
    """Trace every cause of a read error from the head reader into next() and judge what next() does with it.
    r1: rule id for the verdicts, r2: rule id for the propagation obligations; only: predicate on cause labels."""
    facts = ctx.facts
    PM = pmodel(facts)
    f, rd = PM.nxt, PM.rd
    ctx.touch(f); ctx.touch(rd)
    err = facts.adt(PM.err_adt)
    where = "%s:%d" % (f.file, f.line)
    emit = (lambda *a, **k: ctx.ob(*a, **k))
    def verdict(x, label, want_status, want_version):
        """what next() does with read() == Err(x)"""
        ps = [p for p in PM.after_read(Err_(x), on_call=absint.io_model) if p.end[0] not in DEAD]
        ctx.paths += len(ps)
        bad = []
        for p in ps:
            if not (p.end[0] == "return" and p.ret() == ("none",)):
                bad.append("does not end the connection: %s" % Q._ret_str(p))
                continue
            pr = prints_of(p)
            st = [s for s in statuses_of(p)]
            if want_status is None:
                if pr:
                    bad.append("answers with %s" % st)
                continue
            if len(pr) != 1 or set(st) != {want_status}:
                bad.append("prints %d responses with status %s" % (len(pr), sorted(set(map(str, st)))))
                continue
            va = version_arg(p, pr[0])
            if want_version == "1.1":
                okv = version_const(va) == (1, 1)
            else:
                # the version the head reader had parsed (not a constant)
                okv = absint.contains(va, VER) or (version_const(va) is None and not any(x and x[0] == "const" for x in absint.walk_terms(va)))
            if not okv:
                bad.append("answers with version %s" % symex.sym_str(va))
        ok = bool(ps) and not bad
        what = ("answered with nothing" if want_status is None else "answered with %s (%s)" % (want_status, "as HTTP/1.1" if want_version == "1.1" else "with the request's own version"))
        ctx.ob(r1, "%s|%s" % (PM.cc_next.id, label), "%s: the connection ends, nothing is delivered, no further request is read, and the client is %s" % (label, what), ok, where,
               None if ok else str(bad[:3]))

    # ---- C10.1 (a) what read() returns for each cause ------------------------------------------------------------
    causes = []          # (label, error term, status, version)
    # header parser failure
    hp = [bb for bb, t in rd.calls() if rd.local_ty(t["dest"]["l"]).startswith("std::result::Result<common::Header,") and not t["dest"]["p"]]
    ctx.ob(r2, "%s|parses-headers" % PM.read_def, "the head reader hands every header line to the header parser", bool(hp), "%s:%d" % (rd.file, rd.line))
    for k, bb in enumerate(hp):
        t = rd.term(bb)
        st = symex.Sym(rd)
        st.write_key((rd.argc + 1000000,), ("unit",))
        st.write_key(pl_key(t["dest"]), Err_(("unit",)))
        # the version parsed from the request line is whatever the function holds at this point: mark every HTTPVersion local
        for i, l in enumerate(rd.locals):
            if l["ty"] == HV:
                st.write_key((i,), VER)
        ps = [p for p in absint.explore(rd, t["target"], st, on_call=absint.io_model) if p.end[0] not in DEAD]
        bad = [Q._ret_str(p) for p in ps if not (p.end[0] == "return" and p.ret()[0] == "agg" and p.ret()[2] == "Err")]
        ctx.ob(r2, "%s|header-error-propagates|%d" % (PM.read_def, k), "a header line the header parser rejects makes the head reader return an error (no request is built, the line is not skipped)",
               bool(ps) and not bad, rd.loc(bb), None if not bad else str(bad[:3]))
        for p in ps:
            if p.end[0] == "return" and p.ret()[0] == "agg" and p.ret()[2] == "Err":
                causes.append(("malformed header line", p.ret()[3]["0"], 400, "own"))
    # new_request failures
    nrc = [bb for bb, t in rd.calls() if call_matches(t, r"^request::new_request$")]
    ctx.ob(r2, "%s|builds-request" % PM.read_def, "the head reader builds the request with new_request", len(nrc) == 1, "%s:%d" % (rd.file, rd.line))
    for bb in nrc:
        t = rd.term(bb)
        ty = rd.local_ty(t["dest"]["l"])
        mm = re.match(r"^std::result::Result<request::Request, ([\w:]+)>$", ty)
        ctx.require(mm and mm.group(1) in facts.adts, "C10.1: error type of new_request")
        import framing_rules as FRM_
        produced = {r["err"][2] for r in FRM_.fmodel(facts).rows if r.get("kind") == "err" and r.get("err") and r["err"][0] == "agg"}
        for v in facts.adt(mm.group(1))["variants"]:
            tys = [x["ty"] for x in v["fields"]]
            if produced and v["name"] not in produced and tys != ["std::io::Error"]:
                continue        # a variant of a shared error type that new_request never returns (it belongs to another producer)
            kinds = ["TimedOut", "ConnectionAborted"] if tys == ["std::io::Error"] else [None]
            for kind in kinds:
                st = symex.Sym(rd)
                payload = {v["fields"][0]["name"]: io_error(kind)} if kind else {x["name"]: ("sym", x["name"]) for x in v["fields"]}
                st.write_key(pl_key(t["dest"]), Err_(("agg", mm.group(1), v["name"], payload)))
                for i, l in enumerate(rd.locals):
                    if l["ty"] == HV:
                        st.write_key((i,), VER)
                ps = [p for p in absint.explore(rd, t["target"], st, on_call=absint.io_model) if p.end[0] not in DEAD]
                bad = [Q._ret_str(p) for p in ps if not (p.end[0] == "return" and p.ret()[0] == "agg" and p.ret()[2] == "Err")]
                ctx.ob(r2, "%s|new_request-error-propagates|%s" % (PM.read_def, v["name"]), "an error of new_request makes the head reader return an error", bool(ps) and not bad, rd.loc(bb),
                       None if not bad else str(bad[:3]))
                for p in ps:
                    if p.end[0] == "return" and p.ret()[0] == "agg" and p.ret()[2] == "Err":
                        x = p.ret()[3]["0"]
                        if kind == "TimedOut":
                            causes.append(("read timeout while buffering the body", x, 408, "1.1"))
                        elif kind:
                            causes.append(("I/O error while buffering the body", x, None, None))
                        elif re.search(r"expect", v["name"], re.I):
                            causes.append(("unsupported Expect value", x, 417, "own"))
                        else:
                            causes.append(("%s reported by new_request" % v["name"], x, 400, "own"))
    # the line reader: end of stream, non-ASCII, timeout
    lines = PM.line_calls()
    ctx.ob(r2, "%s|reads-lines" % PM.read_def, "the head reader obtains the head line by line from a line reader of its own", bool(lines), "%s:%d" % (rd.file, rd.line))
    first = [b for b in lines if all(rd.dominates(b, x, unwind=False) for x in lines)]
    for k, b in enumerate(lines):
        ic = rd.blocks[b]["inl_call"]
        for label, kind, status, ver in (("end of stream in the head", "ConnectionAborted", None, None), ("non-ASCII bytes in the head", "InvalidInput", None, None), ("read timeout in the head", "TimedOut", 408, "1.1")):
            st = symex.Sym(rd)
            st.write_key(pl_key(ic["dest"]), Err_(io_error(kind)))
            for i, l in enumerate(rd.locals):
                if l["ty"] == HV:
                    st.write_key((i,), VER)
            ps = [p for p in absint.explore(rd, ic["target"], st, on_call=absint.io_model) if p.end[0] not in DEAD]
            bad = [Q._ret_str(p) for p in ps if not (p.end[0] == "return" and p.ret()[0] == "agg" and p.ret()[2] == "Err")]
            ctx.ob(r2, "%s|line-error-propagates|%d|%s" % (PM.read_def, k, kind), "a failure of the line reader makes the head reader return an error", bool(ps) and not bad, rd.loc(b), None if not bad else str(bad[:3]))
            if k == 0 or b in first:
                for p in ps:
                    if p.end[0] == "return" and p.ret()[0] == "agg" and p.ret()[2] == "Err":
                        causes.append((label, p.ret()[3]["0"], status, ver))
    # request line
    if len(first) == 1:
        b = first[0]
        ic = rd.blocks[b]["inl_call"]
        st = symex.Sym(rd)
        st.write_key(pl_key(ic["dest"]), Ok_(LINE))
        others = set(lines) - {b}
        ps = [p for p in absint.Explorer(rd, stop_blocks=others, max_paths=6000, max_visits=1).run(ic["target"], st) if p.end[0] not in DEAD]
        ctx.paths += len(ps)
        good = [p for p in ps if p.end[0] == "stop"]
        bad_fields, bad_version = [], []
        for p in good:
            nexts = []
            vers = []
            # the version values the path holds when the line has been accepted: a successful lookup they are derived from (a table searched
            # with the token) is a recognition of the token, whatever its result type
            hv_vals = [absint.deep(p.state, p.state.read_key((i,))) for i, l in enumerate(rd.locals) if l["ty"] == HV and p.state.read_key((i,))[0] != "init"]
            for bb, c in p.conds:
                if not c:
                    continue
                if c[0] == "variant" and c[2] in ("Some", "Ok") and c[3] and absint.head_call(c[3]) is not None and any(absint.mentions_call(v, absint.head_call(c[3])) for v in hv_vals):
                    vers.append(True)
                if c[0] == "variant" and c[2] in ("Some", "None"):
                    calls = absint.calls_in(c[3])
                    if calls and re.search(r"(Split\w*<.*> as std::iter::Iterator>::next|SplitWhitespace<.*> as std::iter::Iterator>::next|::split_once|::splitn)", calls[0][1] + " " + (calls[0][4] if len(calls[0]) > 4 else "")):
                        if c[3][0] == "call" and re.search(r"Iterator>::next$", c[3][1]):
                            nexts.append(c[2])
                    if c[3][0] == "call" and returns_type(rd, c[3], HV):
                        vers.append(c[2] in ("Some", "Ok"))
                if c[0] == "variant" and c[2] in ("Ok", "Err"):
                    calls = absint.calls_in(c[3])
                    if c[3][0] == "call" and returns_type(rd, c[3], HV):
                        vers.append(c[2] == "Ok")
                if c[0] == "scalar" and isinstance(c[2], bool) and c[1][0] == "call" and re.search(r"PartialEq.*for str>::eq$|<str as std::cmp::PartialEq>::eq$|<impl std::cmp::PartialEq for str>::eq$", c[1][1]):
                    lits = [const_str(a) for a in c[1][2]]
                    if any(isinstance(l, str) and l.startswith("HTTP/") for l in lits):
                        vers.append(c[2])
            if len(nexts) < 3 or nexts[:3] != ["Some"] * 3:
                bad_fields.append(nexts)
            if not any(vers):
                bad_version.append(vers)
        ctx.ob(r2, "%s|request-line-needs-three-fields" % PM.read_def, "a request line is only accepted when its first three space-separated fields are present", bool(good) and not bad_fields,
               rd.loc(b), None if not bad_fields else "accepted with field presence %s" % bad_fields[:3])
        ctx.ob(r2, "%s|request-line-needs-known-version" % PM.read_def, "a request line is only accepted when its version token was recognised", bool(good) and not bad_version,
               rd.loc(b), None if not bad_version else "accepted although every version test failed: %s" % bad_version[:3])
        errs = {}
        for p in ps:
            if p.end[0] == "return" and p.ret()[0] == "agg" and p.ret()[2] == "Err":
                errs[repr(p.ret()[3]["0"])] = p.ret()[3]["0"]
        odd = [Q._ret_str(p) for p in ps if p.end[0] == "return" and not (p.ret()[0] == "agg" and p.ret()[2] == "Err")]
        ctx.ob(r2, "%s|request-line-error-is-error" % PM.read_def, "a rejected request line makes the head reader return an error", bool(errs) and not odd, rd.loc(b), None if not odd else str(odd[:2]))
        for x in errs.values():
            causes.append(("malformed request line", x, 400, "1.1"))
    else:
        ctx.ob(r2, "%s|request-line-first" % PM.read_def, "the request line is the first line read", False, "%s:%d" % (rd.file, rd.line))

    # ---- C10.1 (b) what next() does with each of those values -------------------------------------------------------
    seen = set()
    for label, x, status, ver in causes:
        if only and not only(label):
            continue
        k = (label, repr(x))
        if k in seen:
            continue
        seen.add(k)
        verdict(x, label, status, ver)
    if not only:
        ctx.floor("%s distinct error causes traced from the head reader into next()" % r1, len({l for l, _ in seen}), 6)
    if only:
        return causes
    # every variant of the error type is handled in a closing way (also ones no cause above produces)
    for v in err["variants"]:
        tys = [x["ty"] for x in v["fields"]]
        payload = {x["name"]: (io_error("ConnectionReset") if x["ty"] == "std::io::Error" else (VER if x["ty"] == HV else ("sym", x["name"]))) for x in v["fields"]}
        ps = [p for p in PM.after_read(Err_(("agg", PM.err_adt, v["name"], payload)), on_call=absint.io_model) if p.end[0] not in DEAD]
        ok = bool(ps) and all(p.end[0] == "return" and p.ret() == ("none",) for p in ps)
        ctx.ob(r1, "%s|%s|closes" % (PM.cc_next.id, v["name"]), "every kind of read error ends the connection: nothing is delivered and no further request is read", ok, where)

    return causes


# ------------------------------------------------------------------------------------------------
# head fidelity helpers (C02)

STR_EQ = r"PartialEq.*for str>::eq$|<str as std::cmp::PartialEq>::eq$|<impl std::cmp::PartialEq for str>::eq$|PartialEq<&.*str>.*>::eq$|<&.* as std::cmp::PartialEq.*>::eq$|<impl str>::eq_ignore_ascii_case$"
INPUT = ("sym", "the-token")


def str_model(token, case_sensitive_only=True):
    """on_call model: comparing the input token with a string literal is decided (exactly, or ignoring ASCII case for eq_ignore_ascii_case)"""
    def on_call(bb, t, args, st):
        n = call_name(t) + " " + (t.get("res_name") or "")
        if not re.search(STR_EQ, call_name(t)) and not re.search(r"PartialEq", n):
            return None
        if len(args) != 2:
            return None
        vals = [absint.deep(st, a) for a in args]
        lits = [const_str(v) for v in vals]
        has_input = [absint.contains(v, INPUT) for v in vals]
        if any(has_input) and any(l is not None for l in lits):
            lit = [l for l in lits if l is not None][0]
            # the input may have been case-folded on the way (`input.to_ascii_lowercase() == "chunked"`)
            tok = token
            for v, h in zip(vals, has_input):
                if h:
                    for x in absint.walk_terms(v):
                        if x and x[0] == "call" and re.search(r"::to_(ascii_)?lowercase$", x[1]):
                            tok = tok.lower()
                        elif x and x[0] == "call" and re.search(r"::to_(ascii_)?uppercase$", x[1]):
                            tok = tok.upper()
            if call_name(t).endswith("eq_ignore_ascii_case"):
                r = lit.lower() == tok.lower()
            else:
                r = lit == tok
            if call_name(t).endswith("::ne"):
                r = not r
            return ("const", r, str(r).lower(), None)
        return None
    return on_call


def eval_str_fn(facts, fdef, token, extra_stop=None):
    """abstract paths of a `fn(&str) -> ..` with its argument bound to a token whose comparisons with literals are decided"""
    g0 = facts.fn(fdef)
    g = inline.inlined(facts, fdef, stop=lambda d: facts.fns[d].rec.get("local") and (facts.fns[d].file != g0.file or (extra_stop and extra_stop(d))), extern_ok=Q.std_small)
    st = symex.Sym(g)
    st.write_key((1,), INPUT)
    st.write_key((1, "*"), INPUT)
    return g, [p for p in absint.explore(g, 0, st, on_call=absint.table_model(facts, str_model(token)), max_paths=4000) if p.end[0] == "return"]


def unwrap_ok(v):
    """payload of Ok(..) / Some(..), or None"""
    if v[0] == "agg" and v[1] == RESULT and v[2] == "Ok":
        return v[3]["0"]
    if v[0] == "some":
        return v[1]
    return None


def version_parser(facts):
    """the function that turns the version token into an HTTPVersion: fn(&str) -> Result/Option<HTTPVersion>"""
    c = [g for k, g in sorted(facts.local_fns.items()) if g.argc == 1 and g.locals[1]["ty"] == "&str" and re.match(r"^std::(result::Result|option::Option)<common::HTTPVersion[,>]", g.locals[0]["ty"])
         and "{closure" not in k and not k.startswith("test")]
    if len(c) != 1:
        raise CheckerError("parser rules: version-token parser (fn(&str) -> Result/Option<HTTPVersion>) not found: %s" % [x.id for x in c])
    return c[0]
