"""The connection parser seen by role: `<ClientConnection as Iterator>::next`, the function it calls to obtain
`Result<Request, _>` ("read"), both with the helpers of their own source file and the small std combinators spliced in;
everything defined elsewhere (Request / Response methods, header parsing, new_request, the turn-taking builders) stays a call
and shows up as an event of the abstract paths.  Decision tables are extracted by exploring the abstract paths and reading
the conditions each path assumed (absint), so they do not depend on whether the code is a `match` with guards, an `if` chain,
a helper returning bool, ..."""
import re, itertools
from core import *  # noqa
from roles import *  # noqa
import roles, shared, symex, inline, absint
import queue_rules as Q

RQ = ("sym", "request")
RESULT = "std::result::Result"
_FACTS = {}


def Ok_(v):
    return ("agg", RESULT, "Ok", {"0": v})


def Err_(v):
    return ("agg", RESULT, "Err", {"0": v})


class ParserModel:
    def __init__(self, facts):
        self.facts = facts
        _FACTS["facts"] = facts
        self.cc_next = method(facts, T_ITER, CC, "next")
        self.file = self.cc_next.file
        raw = self.cc_next
        def same_file(d):
            g = facts.fns.get(d)
            return g is not None and g.rec.get("local") and g.file == self.file
        self.same_file = same_file
        # first find "read": inline everything of this file, look for the call whose destination is Result<Request, E>
        full = inline.inlined(facts, self.cc_next.id, stop=lambda d: facts.fns[d].rec.get("local") and not same_file(d), extern_ok=Q.std_small)
        prod = set()
        for b in range(full.n):
            ic = full.blocks[b].get("inl_call")
            if ic and full.local_ty(ic["dest"]["l"]).startswith("std::result::Result<request::Request,") and full.blocks[b].get("depth") == 0:
                prod.add(full.term(b).get("inl_enter"))
        if len(prod) != 1:
            raise CheckerError("parser rules: the function next() calls to obtain Result<Request, _> was not found (%s)" % sorted(map(str, prod)))
        self.read_def = prod.pop()
        self.nxt = inline.inlined(facts, self.cc_next.id, stop=lambda d: facts.fns[d].rec.get("local") and (not same_file(d) or d == self.read_def), extern_ok=Q.std_small)
        self.rd = inline.inlined(facts, self.read_def, stop=lambda d: facts.fns[d].rec.get("local") and not same_file(d), extern_ok=Q.std_small)
        self.read_calls = [bb for bb, t in self.nxt.calls() if call_name(t) == self.read_def]
        ty = self.nxt.local_ty(self.nxt.term(self.read_calls[0])["dest"]["l"])
        mm = re.match(r"^std::result::Result<request::Request, ([\w:]+)>$", ty)
        self.err_adt = mm.group(1) if mm else None
        # the last-request flag: the bool field of the connection that is assigned outside its construction
        cc = facts.adt(CC)
        bools = [x["name"] for x in cc["variants"][0]["fields"] if x["ty"] == "bool"]
        flags = []
        for b in bools:
            ws = [w for w in facts.field_writes(CC, b) if w[2] != "construct"]
            if ws:
                flags.append(b)
        if len(flags) != 1:
            raise CheckerError("parser rules: last-request flag of %s not found (%s)" % (CC, flags))
        self.flag = flags[0]

    def after_read(self, value, stop_at_read=True, **kw):
        """abstract paths of next() after the call of read returned `value`"""
        out = []
        f = self.nxt
        for rb in self.read_calls:
            t = f.term(rb)
            st = symex.Sym(f)
            st.write_key(pl_key(t["dest"]), value)
            def stop(bb, t2, st2):
                if stop_at_read and t2["t"] == "call" and call_name(t2) == self.read_def:
                    return "read-again"
            out += absint.explore(f, t["target"], st, stop=stop, **kw)
        return out

    def flag_set(self, p):
        v = p.state.read_key((1, "*", "." + self.flag))
        if v[0] == "const" and isinstance(v[1], bool):
            return v[1]
        if v[0] == "init":
            return None     # untouched
        return "?"


def pmodel(facts):
    if not hasattr(facts, "_parser_model"):
        facts._parser_model = ParserModel(facts)
    return facts._parser_model


# ---- condition atoms ---------------------------------------------------------------------------

def const_str(v):
    while v and v[0] in ("constref", "ref*"):
        v = v[1]
    if v and v[0] == "const" and isinstance(v[1], str):
        return v[1]
    return None


def version_const(v):
    while v and v[0] in ("constref", "ref*"):
        v = v[1]
    if v and v[0] == "tuple" and len(v[1]) == 2:
        a, b = absint.const_of(v[1][0]), absint.const_of(v[1][1])
        if isinstance(a, int) and isinstance(b, int):
            return (a, b)
    if v and v[0] == "agg" and v[1] == HV:
        xs = [absint.const_of(x) for x in v[3].values()]
        if len(xs) == 2 and all(isinstance(x, int) for x in xs):
            return tuple(xs)
    return None


CMP = {"eq": lambda a, b: a == b, "ne": lambda a, b: a != b, "lt": lambda a, b: a < b, "le": lambda a, b: a <= b, "gt": lambda a, b: a > b, "ge": lambda a, b: a >= b}


def atom_of_cond(c):
    """-> (atom, value) ; atom = ('contains', lit) | ('version', op, (maj, min), const_is_lhs) | ('lookup', header name) | None"""
    if not c:
        return None
    if c[0] == "scalar":
        v, val = c[1], c[2]
        neg = False
        while v[0] == "unop" and v[1] == "Not":
            v = v[2]
            neg = not neg
        if v[0] != "call" or not isinstance(val, bool):
            return None
        val = val != neg
        name, args = v[1], v[2]
        if re.search(r"<impl str>::contains", name) and len(args) == 2 and const_str(args[1]) is not None:
            return (("contains", const_str(args[1]), v), val)
        full = name + " " + (v[4] if len(v) > 4 else "")
        m = re.search(r"<common::HTTPVersion as std::cmp::Partial(?:Eq|Ord)(?:<.*>)?>::(eq|ne|lt|le|gt|ge)\b", full)
        if m and len(args) == 2:
            k0, k1 = version_const(args[0]), version_const(args[1])
            if k1 is not None:
                return (("version", m.group(1), k1, False), val)
            if k0 is not None:
                return (("version", m.group(1), k0, True), val)
        return (("call", name, v), val)
    if c[0] == "variant":
        key, name, cur = c[1], c[2], c[3]
        lits = absint.str_consts(cur)
        for x in absint.calls_in(cur):
            for a in x[2]:
                if isinstance(a, tuple) and a and a[0] == "closure":
                    lits += closure_literals(a[1])
        if name in ("Some", "None") and lits:
            return (("lookup", tuple(sorted(set(lits))), cur), name == "Some")
        return (("variant", name, cur), True)
    return None


def closure_literals(cdef):
    facts = _FACTS.get("facts")
    g = facts.fns.get(cdef) if facts else None
    out = []
    if g is not None:
        for bb, t in g.calls():
            out += [c for c in arg_consts(g, t) if isinstance(c, str)]
    return out
