"""Evaluation of *extracted guard expressions* (origin trees of branch conditions) over a finite
set of representative values.  Used to canonicalise decision functions: two guards built from
comparisons of a scalar with constants are equivalent iff they agree on every boundary point
(c-1, c, c+1 for every constant c of either side), so agreeing on such a sample set is an exact
comparison of canonical forms, not a test of the program."""
import operator, re
from core import CheckerError
import shared

BIN = {"Lt": operator.lt, "Le": operator.le, "Gt": operator.gt, "Ge": operator.ge, "Eq": operator.eq, "Ne": operator.ne,
       "BitAnd": operator.and_, "BitOr": operator.or_, "BitXor": operator.xor, "Add": operator.add, "Sub": operator.sub}
CMP_CALL = re.compile(r"PartialOrd(<.*>)?>?::(lt|le|gt|ge)$|PartialEq(<.*>)?>?::(eq|ne)$")
CMPF = {"lt": operator.lt, "le": operator.le, "gt": operator.gt, "ge": operator.ge, "eq": operator.eq, "ne": operator.ne}


class Unknown(Exception):
    pass


def ev(f, o, env, depth=0):
    """env: maps ('arg', n) / ('arg', n, 'field', ...) / ('local', l) / upvar names to values.
    Values: int, bool, tuple, None (for Option::None), ('some', v)."""
    if depth > 40:
        raise Unknown("depth")
    k = o[0]
    if k == "const":
        if o[4] is not None:
            v = shared.sym_const(shared.promoted_value(f, o[4]))
            if v is None:
                raise Unknown("promoted")
            if isinstance(v, tuple) and len(v) == 3 and isinstance(v[2], tuple) and isinstance(v[0], str):
                return v[2]        # tuple struct like HTTPVersion(1, 0) -> (1, 0)
            return v
        if o[1] is None:
            raise Unknown("const %s" % (o[2],))
        if isinstance(o[1], tuple) and o[1][0] == "float":
            return o[1][1]
        return o[1]
    if k in ("ref", "deref"):
        return ev(f, o[1], env, depth + 1)
    if k == "arg":
        key = ("arg", o[1])
        if key in env:
            return env[key]
        raise Unknown(str(key))
    if k == "local":
        key = ("local", o[1])
        if key in env:
            return env[key]
        raise Unknown(str(key))
    if k == "field":
        base = o[1]
        path = [o[2]]
        while base[0] in ("field", "deref", "ref", "downcast"):
            if base[0] == "field":
                path.append(base[2])
            base = base[1]
        if base[0] == "arg":
            key = ("arg", base[1]) + tuple(reversed(path))
            if key in env:
                return env[key]
            if ("arg", base[1]) in env:
                v = env[("arg", base[1])]
                for p in reversed(path):
                    v = v[int(p)] if isinstance(v, tuple) else v[p]
                return v
        v = ev(f, o[1], env, depth + 1)
        if isinstance(v, tuple) and o[2].isdigit():
            return v[int(o[2])]
        if isinstance(v, dict):
            return v[o[2]]
        raise Unknown("field %s" % o[2])
    if k == "downcast":
        v = ev(f, o[1], env, depth + 1)
        if isinstance(v, tuple) and v and v[0] == "some" and o[2] == "Some":
            return (v[1],)
        raise Unknown("downcast")
    if k == "binop":
        a, b = ev(f, o[2], env, depth + 1), ev(f, o[3], env, depth + 1)
        if o[1] in ("AddWithOverflow", "SubWithOverflow", "MulWithOverflow"):
            r = {"A": a + b, "S": a - b, "M": a * b}[o[1][0]]
            return (r, not (0 <= r < (1 << 64)))      # (value, overflowed) as in MIR
        if o[1] in ("Mul", "Div", "Rem", "Shl", "Shr"):
            return {"Mul": operator.mul, "Div": operator.floordiv, "Rem": operator.mod, "Shl": operator.lshift, "Shr": operator.rshift}[o[1]](a, b)
        if o[1] not in BIN:
            raise Unknown("binop %s" % o[1])
        return BIN[o[1]](a, b)
    if k == "unop" and o[1] == "Not":
        return not ev(f, o[2], env, depth + 1)
    if k == "cast":
        return ev(f, o[2], env, depth + 1)
    if k == "agg":
        if o[1] == "tuple" or (o[3] and all(str(n).isdigit() for n in o[3])):
            return tuple(ev(f, x, env, depth + 1) for x in o[2])
        raise Unknown("agg")
    if k == "call":
        name = o[1]
        m = CMP_CALL.search(name)
        if m and len(o[2]) == 2:
            op = m.group(2) or m.group(4)
            return CMPF[op](ev(f, o[2][0], env, depth + 1), ev(f, o[2][1], env, depth + 1))
        if name.endswith("Option::<T>::as_ref") or name.endswith("Option::<T>::as_mut") or name.endswith("::clone") or name.endswith("Option::<T>::copied"):
            return ev(f, o[2][0], env, depth + 1)
        if name.endswith("Option::<T>::is_some"):
            return ev(f, o[2][0], env, depth + 1) is not None
        if name.endswith("Option::<T>::is_none"):
            return ev(f, o[2][0], env, depth + 1) is None
        if name.endswith("Option::<T>::unwrap_or"):
            v = ev(f, o[2][0], env, depth + 1)
            return ev(f, o[2][1], env, depth + 1) if v is None else v[1]
        if name.endswith("Option::<T>::map_or"):
            v = ev(f, o[2][0], env, depth + 1)
            if v is None:
                return ev(f, o[2][1], env, depth + 1)
            clo = o[2][2]
            if clo[0] != "agg":
                raise Unknown("map_or closure")
            cf = f.facts.fn_opt(clo[1])
            if cf is None:
                raise Unknown("closure body")
            cenv = {("arg", 2): v[1]}
            for n, x in zip(clo[3] or [], clo[2]):
                cenv[("arg", 1, n)] = ev(f, x, env, depth + 1)
            return ev(cf, cf.origin_place({"l": 0, "p": []}), cenv, depth + 1)
        raise Unknown("call %s" % name)
    raise Unknown(k)
