"""C09 — message boundaries hold whether or not the application consumes the body."""
import re
from core import *  # noqa
from roles import *  # noqa
import roles, shared, symex

EXPLANATION = (
    "Drain-on-drop and reader hand-off decided on MIR and the monomorphic drop-glue graph: every body reader that new_request builds "
    "around the connection's shared reader (and that is not the upgrade hand-over) must own, above the shared reader, a type whose Drop "
    "reads the inner reader (otherwise unread body bytes are parsed as the next request); EqualReader's Drop loops on read until its "
    "remaining count is exhausted, EOF or error; small bodies are read completely before the Request exists; SequentialReader passes the "
    "socket reader on in Drop on every arm and keeps it after a waited read; the builder chains each reader to its successor; one BufReader "
    "per connection.")
TRUSTED = ["rustc MIR / drop elaboration / trait resolution", "std effect table", "Rust ownership: a value's Drop runs when its owner goes away"]


def type_adts(tystr):
    """ADT heads appearing in a type string, outermost first"""
    return re.findall(r"([A-Za-z_][\w]*(?:::[A-Za-z_][\w]*)+)", tystr)


import parser_rules as PRS


def run(ctx):
    facts = ctx.facts
    roles.bind(facts)
    nr = facts.fn("request::new_request")
    import parser_rules as _PRS
    cc_read = _PRS.pmodel(facts).rd if _PRS.pmodel(facts).read_h else facts.fn(_PRS.pmodel(facts).read_def)      # the head reader, bound by role (what next() calls to obtain a Request)
    ctx.touch(nr)
    # the instance of new_request used for real connections
    insts = [i for i in facts.instances_of(nr.id) if not i["generic"] and "SequentialReader<" in i["name"]]
    ctx.require(len(insts) == 1, "C09.1: connection instance of new_request not found (%d)" % len(insts))
    inst = insts[0]
    eff = facts.effects()
    shared_reader = None
    m = re.search(r"new_request::<(.*SequentialReader<.*?>>>), ", inst["name"])
    boxed_sites = shared.boxed_body_readers(facts)
    site_fn = {(bb, ty): g for g, bb, ty in boxed_sites}
    boxed = [(bb, ty) for g, bb, ty in boxed_sites]
    ctx.floor("C09.1 boxed body-reader types", len(boxed), 3)
    sr_re = re.compile(r"^util::sequential::SequentialReader<.*>$")
    n_wrapping = 0
    for bb, ty in sorted(set(boxed)):
        ctx.call_sites += 1
        if "util::sequential::SequentialReader<" not in ty:
            ctx.ob("C09.1", "%s|reader|%s" % (nr.id, short(ty)), "a body reader that does not wrap the connection's shared reader cannot disturb the next message", True, site_fn[(bb, ty)].loc(bb), nontrivial=False)
            continue
        if sr_re.match(ty):
            # raw hand-over of the shared reader: allowed only for protocol upgrades (decided on the framing table)
            import framing_rules as FRM
            FM = FRM.fmodel(facts)
            bad = []
            for A in FRM.assignments():
                for r in FM.rows:
                    if r["end"] == "return" and r["kind"] == "ok" and FM.compatible(r, A) and (r["reader"] == "raw") != A["upgrade"]:
                        bad.append((A, r["reader"]))
            ctx.ob("C09.1", "%s|raw-reader-only-on-upgrade" % nr.id, "the raw shared reader is handed out exactly for `Connection: upgrade` requests (last request of the connection)", not bad, site_fn[(bb, ty)].loc(bb),
                   None if not bad else str(bad[:3]))
            # ... and "an upgrade request" means the same here as where the connection's fate is decided: the parser ends the connection on
            # what the FIRST `Connection` header says (its look-up stops at the first match), so the request builder may not take the
            # decision from a later one (`Connection: keep-alive` + `Connection: upgrade` would hand out the raw reader of a connection
            # that goes on being parsed)
            # (what counts is whose *value* is examined: a scan may well compare the name of every header)
            many = [r for r in FM.rows if sum(1 for a_, v_ in r["atoms"] if a_[0] == "upgrade") > 1]
            ctx.ob("C09.1", "%s|upgrade-read-from-first-connection-header" % nr.id,
                   "the upgrade decision looks at the first `Connection` header only, like the parser's decision whether the connection goes on", not many, site_fn[(bb, ty)].loc(bb),
                   None if not many else "%d paths of the request builder examine the value of a second `Connection` header" % len(many))
            continue
        n_wrapping += 1
        # drop glue of this reader type: find a user Drop above the shared reader that reads it
        glue = [i for i in facts.instances if i and i["kind"] == "drop_glue" and i.get("drop_ty") == ty]
        ctx.require(glue, "C09.1: no drop glue instance for %s" % ty)
        found = drain_in_glue(facts, glue[0], eff)
        ctx.ob("C09.1", "%s|drains-on-drop|%s" % (nr.id, short(re.sub(r"<util::sequential::SequentialReader<.*", "<R>", ty))),
               "a body reader wrapping the shared socket reader discards its unread rest when dropped, so the next request is parsed at the first byte after the body",
               found is not None, site_fn[(bb, ty)].loc(bb), ("drained by " + found) if found else "no type in %s has a Drop that reads the inner reader: an unread (or partly read) body is left in the stream and parsed as the next request" % short(ty))
    ctx.floor("C09.1 readers wrapping the shared reader", n_wrapping, 2)

    # ---- C09.2 EqualReader::drop drains
    erd = method(facts, T_DROP, ER, "drop")
    import inline
    import queue_rules as Q
    er_fields = facts.adt(ER)["variants"][0]["fields"]
    RFIELD = [x["name"] for x in er_fields if x["ty"] == "R"]
    SINIT = shared.size_init(facts, ER)
    ctx.require(len(RFIELD) == 1 and SINIT is not None, "C09.2: inner-reader / remaining-size fields of EqualReader")
    RFIELD = RFIELD[0]
    import drain_rules as DR
    DR.stops_rule(ctx, "C09.2", ER, "the length-limited body reader", emit=("repeats",))
    DR.owed_rules(ctx, "C09.2", ER, SINIT)

    # ---- C09.6 end-of-body latches: a draining destructor that can be switched off by the reader's own state relies on that state changing
    # only when the body really ended; a zero-length read returns 0 anywhere in the body and must not do it
    n_latch = DR.latch_rule(ctx, "C09.6")
    ctx.counts["C09.6 latch-governed draining readers examined"] = n_latch
    ctx.ob("C09.6", "latch|population", "the chunked body reader (the draining reader that is not governed by a byte counter) was found and examined", n_latch >= 1, "request.rs")

    # ---- C09.7 the request that is given the raw reader is the last one of its connection: new_request hands the raw reader out when the
    # lower-cased Connection value contains `upgrade` (C09.1); the parser must end the connection after that request on the very same
    # test.  Its decision table is the one C12.1 extracts; taken over here.
    import rules_C12, engine
    c2 = engine.Ctx("C09", "quick", facts, 0)
    try:
        rules_C12.keepalive_table(c2)
    except CheckerError as e:
        raise CheckerError("C09.7 (the parser's keep-alive decision could not be extracted): %s" % e)
    n7 = 0
    for o in c2.obs:
        if o.rule == "C12.1" and o.key.split("|")[-1] in ("atoms", "haystack", "table"):
            n7 += 1
            ctx.obs.append(engine.Ob("C09.7|" + o.key.split("|", 1)[1], "C09.7", "[raw reader => last request] " + o.text, o.ok, o.where, o.detail, o.nontrivial))
    ctx.floor("C09.7 obligations taken from the keep-alive table", n7, 3)

    # ---- C09.8 a request that is refused while it is built (malformed header, invalid length, unsupported expectation) leaves its body unread on
    # the connection: the parser must end the connection after answering, not go on reading (the body would be parsed as the next request)
    PRS.trace_and_judge(ctx, "C09.8", "C09.8", only=lambda label: "reported by new_request" in label or label == "unsupported Expect value" or label == "malformed header line")

    # ---- C09.3 buffered bodies are read completely before the Request is built
    import rules_C03
    rules_C03.preread_rules(ctx, "C09.3")
    # ---- C09.9 the framed body readers reach the connection through their bounded `read` alone (rule of C03.2: an override of another method
    # of the Read trait is a second road to the shared reader, with its own chance to take the next message's bytes)
    rules_C03.read_overrides_rule(ctx, "C09.9")

    # ---- C09.4 reader hand-off
    import turn_rules as T, absint
    T.rule_reader_chain(ctx, "C09.4")
    # the head reader: the request gets the reader the head was just read from, the connection keeps the freshly drawn one
    PM = PRS.pmodel(facts)
    g = PM.rd
    RC = T.reader_chain(facts)
    srb_next = RC.next
    keep_paths = shared.find_slot_paths(facts, CC, r"^util::sequential::SequentialReader<")        # (at any depth of private sub-structs)
    ctx.require(len(keep_paths) == 1, "C09.4: the connection's current head reader field")
    KEEP_KEY = (1, "*") + tuple("." + x for x in keep_paths[0])
    nrc = [(bb, t) for bb, t in g.calls() if call_matches(t, r"^request::new_request$")]
    srcn = [bb for bb, t in g.calls() if call_name(t) == srb_next.id]
    ok = len(nrc) == 1 and len(srcn) == 1
    detail = None
    if ok:
        # explored from the entry of the head reader (so that the helpers it is split into see their own arguments), with the
        # draw from the reader chain modelled as handing out a fresh reader
        st = symex.Sym(g)
        NEW = ("sym", "freshly-drawn-reader")
        OLD = ("init", KEEP_KEY)
        def on_call(bb, t, args, s2):
            if bb == srcn[0]:
                return ("some", NEW)
            return None
        ps = [p for p in absint.explore(g, 0, st, on_call=on_call, stop=lambda bb, t, s: "built" if bb == nrc[0][0] else None, max_paths=3000) if p.end[0] == "stop"]
        ok = bool(ps)
        for p in ps:
            args = [absint.deep(p.state, p.state.operand(a)) for a in g.term(nrc[0][0])["args"]]
            given_old = any(a == OLD for a in args)
            kept = absint.deep(p.state, p.state.read_key(KEEP_KEY))
            if not (given_old and kept == NEW):
                ok = False
                detail = "kept=%s given=%s" % (symex.sym_str(kept), given_old)
    ctx.ob("C09.4", "%s|request-gets-positioned-reader" % PM.read_def, "the request's body reader is the reader the head was just read from; the connection keeps the freshly drawn one for the next head",
           ok, g.loc(nrc[0][0]) if nrc else "%s:%d" % (g.file, g.line), detail)

    # ---- C09.5 one buffering layer per connection
    sites = [(h, bb, t) for h, bb, t in facts.all_calls(lambda t: call_matches(t, r"^std::io::BufReader::<R>::(new|with_capacity)$"))]
    cc_ctor = sorted({g2.id for g2, b2, s2 in facts.constructions(CC)})
    ctx.floor("C09.5 BufReader construction sites", len(sites), 1)
    for h, bb, t in sites:
        ctx.ob("C09.5", "bufreader|%s" % h.id, "the socket is wrapped in a BufReader exactly once per connection (a second buffering layer would swallow bytes of the next message)",
               (h.id in cc_ctor or any(shared.private_to(facts, c_, h.id) for c_ in cc_ctor)) and not h.in_loop(bb), h.loc(bb))
    return {}


def upgrade_arm(nr, bb):
    """is block bb only reachable when the `Connection` header contained "upgrade"?"""
    dom = nr.dominators(False)
    for b in sorted(dom[bb], key=lambda b: -len(dom[b])):
        bs = bool_switch(nr, b)
        if not bs or not nr.dominates(bs[1], bb, unwind=False) or bs[1] == bs[2]:
            continue
        l = op_local(bs[0])
        if l is None:
            continue
        src = l
        d = nr.single_def(l)
        if d and d[0] == "assign" and d[3]["rv"] == "use" and op_local(d[3]["op"]) is not None:
            src = op_local(d[3]["op"])
        defs = [x for x in nr.defs().get(src, []) if x[0] == "assign"]
        trues = [x for x in defs if op_const(x[3].get("op", {})) is True] if defs else []
        if not trues:
            continue
        ok = True
        for x in trues:
            tb = x[1]
            good = False
            for cb, t in nr.calls():
                if call_matches(t, r"str>::contains::<&str>$|<impl str>::contains") and "upgrade" in arg_consts(nr, t) and t.get("target") is not None:
                    bs2 = bool_switch(nr, t["target"])
                    if bs2 and nr.dominates(bs2[1], tb, unwind=False) and bs2[1] != bs2[2]:
                        good = True
            ok = ok and good
        others = [x for x in defs if x not in trues]
        if ok and all(op_const(x[3].get("op", {})) is False for x in others):
            return True
    return False


def drain_in_glue(facts, glue, eff):
    """walk the drop-glue graph of a reader type down to the SequentialReader's glue; return the
    name of a user Drop::drop (above it) that performs reads, else None"""
    seen = set()
    work = [glue["id"]]
    while work:
        i = work.pop()
        if i in seen:
            continue
        seen.add(i)
        inst = facts.instances[i]
        if inst["kind"] == "drop_glue" and (inst.get("drop_adt") == SR) and re.match(r"^util::sequential::SequentialReader<", inst.get("drop_ty", "")):
            continue  # below the shared reader: its own Drop only passes the reader on
        if inst["kind"] == "item" and inst["def"].endswith("as std::ops::Drop>::drop"):
            if eff[i] & {"BLOCK-IO", "WAIT-TURN-R"}:
                return inst["name"]
            continue
        if inst["kind"] != "drop_glue":
            continue
        for bb, kind, to, e in facts.inst_callees(inst):
            if to is not None:
                work.append(to)
    return None
