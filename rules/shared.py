"""Obligations shared by several properties (each property evaluates them under its own id)."""
import re
from core import *  # noqa
from roles import *  # noqa
import roles


def holds_writer_types(ty):
    """does a value of this type own a response writer of the connection's writer chain?"""
    return ("request::Request" in ty or "util::sequential::SequentialWriter<" in ty
            or re.search(r"Box<dyn std::io::Write", ty) is not None)


def own_deadlock_sites(ctx, rule, fns=None):
    """OWN (self-deadlock): at every call in the connection thread's parsing code whose callee
    may wait for the predecessor writer's token (effect WAIT-TURN-W), the frame must not still
    own an earlier writer of the same chain (a Request, a SequentialWriter or a boxed writer) --
    the token it waits for can only be sent by dropping that value, i.e. by this very thread."""
    facts = ctx.facts
    roles.bind(facts)
    cc_next = method(facts, T_ITER, CC, "next")
    cc_read = roles.inherent(facts, CC, "read")
    n_sites = 0
    for f in (fns or [cc_next, cc_read]):
        inst = facts.mono_instance(f.id)
        IN = maybe_init(f)
        VF = variant_facts(f)
        ctx.touch(f)
        ordinal = {}
        for bb, t in f.calls():
            if f.blocks[bb]["cleanup"]:
                continue
            eff = facts.call_effects(inst, bb)
            ctx.call_sites += 1
            if "WAIT-TURN-W" not in eff:
                continue
            n_sites += 1
            live = init_at_terminator(f, IN, bb)
            owners = []
            for l in sorted(live):
                ty = f.local_ty(l)
                if not holds_writer_types(ty):
                    continue
                v = (VF[bb] or {}).get(l)
                if v is not None:
                    # enum known to be in variant v here: only that variant's payload counts
                    pts = variant_payload_types(facts, ty, v)
                    if pts is not None and not any(holds_writer_types(p) for p in pts):
                        continue
                owners.append(l)
            cn = short(call_name(t))
            k = ordinal.get(cn, 0)
            ordinal[cn] = k + 1
            arm = arm_label(f, bb)
            key = "%s|%s|%s" % (f.id, cn, arm)
            ok = not owners
            detail = None
            if not ok:
                detail = "call may block on the writer turn token while this frame still owns %s" % ", ".join(
                    "%s: %s" % (f.local_name(l), short(f.local_ty(l))) for l in owners)
            ctx.ob(rule, key,
                   "no call that waits for the predecessor writer's token while the connection thread itself owns an earlier writer",
                   ok, f.loc(bb), detail)
    return n_sites


def arm_label(f, bb):
    """label a block of ClientConnection::next by the status constant of the synthetic response
    built on the way to it (400/408/417/505...), else 'main'"""
    # walk backwards over dominators looking for a StatusCode aggregate with a constant
    dom = f.dominators()
    best = None
    for d in sorted(dom.get(bb, ())):
        for s in f.stmts(d):
            if s["s"] == "assign" and s["rhs"]["rv"] == "agg" and s["rhs"].get("adt") == STATUS:
                c = op_const(s["rhs"]["ops"][0])
                if isinstance(c, int):
                    best = c
    return "status%s" % best if best is not None else "main"


def status_consts_in(f):
    """[(bb, const)] for StatusCode aggregates / Response::empty(const) in f"""
    out = []
    for bb, i, s in f.assigns():
        if s["rhs"]["rv"] == "agg" and s["rhs"].get("adt") == STATUS:
            c = op_const(s["rhs"]["ops"][0])
            out.append((bb, c))
    for bb, t in f.calls():
        if call_matches(t, r"response::Response::<std::io::Empty>::empty") and t["args"]:
            c = op_const(t["args"][0])
            if c is not None:
                out.append((bb, c))
    return out
