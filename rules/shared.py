"""Obligations shared by several properties (each property evaluates them under its own id)."""
import re
from core import *  # noqa
from roles import *  # noqa
import roles


def holds_writer_types(ty):
    """does a value of this type own a response writer of the connection's writer chain?"""
    return (re.search(r"request::Request\b(?!CreationError)", ty) is not None or "util::sequential::SequentialWriter<" in ty
            or re.search(r"Box<dyn std::io::Write", ty) is not None)


def own_deadlock_sites(ctx, rule, fns=None):
    """OWN (self-deadlock): at every call in the connection thread's parsing code whose callee
    may wait for the predecessor writer's token (effect WAIT-TURN-W), the frame must not still
    own an earlier writer of the same chain (a Request, a SequentialWriter or a boxed writer) --
    the token it waits for can only be sent by dropping that value, i.e. by this very thread."""
    facts = ctx.facts
    roles.bind(facts)
    cc_next = method(facts, T_ITER, CC, "next")
    import parser_rules as _PRS
    cc_read = _PRS.pmodel(facts).rd if _PRS.pmodel(facts).read_h else facts.fn(_PRS.pmodel(facts).read_def)      # the head reader, bound by role (what next() calls to obtain a Request)
    n_sites = 0
    for f in (fns or [cc_next, cc_read]):
        inst = None if getattr(f, "is_inlined", False) else facts.mono_instance(f.id)
        IN = maybe_init(f)
        VF = variant_facts(f)
        import pathsim
        PS_ = []
        def PS():
            if not PS_:
                PS_.append(pathsim.PathSim(f))
            return PS_[0]
        ctx.touch(f)
        ordinal = {}
        sites = [(bb, t) for bb, t in f.calls()] + [(bb, t) for bb, t in f.drops()]
        for bb, t in sorted(sites, key=lambda x: x[0]):
            if f.blocks[bb]["cleanup"]:
                continue
            if f.blocks[bb].get("synthetic"):
                continue
            eff = facts.effects_at(f, bb, inst)
            ctx.call_sites += 1
            if "WAIT-TURN-W" not in eff:
                continue
            n_sites += 1
            live = init_at_terminator(f, IN, bb)
            if t["t"] == "drop":
                # destroying a value that owns a writer waits for that writer's turn; the value being
                # destroyed is not "an earlier writer still owned"
                if not t["pl"]["p"]:
                    live.discard(t["pl"]["l"])
                t = dict(t, args=[], callee="drop", res="drop(%s)" % short(t["ty"])[:60])
            owners = []
            # the writer this call writes *to* (lent by reference) is not an earlier one
            lent = backward_slice_locals(f, [op_local(a) for a in t["args"] if op_local(a) is not None])
            for l in sorted(live):
                ty = f.local_ty(l)
                if not holds_writer_types(ty):
                    continue
                if ty.startswith("&"):
                    continue        # a reference does not own what it points to (its owner is judged where it lives)
                if l in lent and "request::Request" not in ty:
                    continue
                v = (VF[bb] or {}).get(l)
                if v is not None:
                    # enum known to be in variant v here: only that variant's payload counts
                    pts = variant_payload_types(facts, ty, v)
                    if pts is not None and not any(holds_writer_types(p) for p in pts):
                        continue
                # path-sensitive: on every variant-consistent path reaching this site the enum is in a
                # variant whose payload owns no writer (e.g. the return place already holds `Err(..)`)
                sts = PS().states_before_term(bb)
                vs = {s_.variant((l,)) for s_ in sts}
                if sts and None not in vs:
                    pay = [variant_payload_types(facts, ty, v_) for v_ in vs]
                    if all(p is not None and not any(holds_writer_types(x) for x in p) for p in pay):
                        continue
                owners.append(l)
            cn = short(call_name(t))
            k = ordinal.get(cn, 0)
            ordinal[cn] = k + 1
            arm = arm_label(f, bb)
            key = "%s|%s|%s" % (f.id, cn, arm)
            ok = not owners
            detail = None
            if not ok:
                detail = "call may block on the writer turn token while this frame still owns %s" % ", ".join(
                    "%s: %s" % (f.local_name(l), short(f.local_ty(l))) for l in owners)
            ctx.ob(rule, key,
                   "no call that waits for the predecessor writer's token while the connection thread itself owns an earlier writer",
                   ok, f.loc(bb), detail)
    return n_sites


def arm_label(f, bb):
    """label a block of ClientConnection::next by the status constant of the synthetic response
    built on the way to it (400/408/417/505...), else 'main'"""
    # walk backwards over dominators looking for a StatusCode aggregate with a constant
    dom = f.dominators()
    best = None
    for d in sorted(dom.get(bb, ())):
        for s in f.stmts(d):
            if s["s"] == "assign" and s["rhs"]["rv"] == "agg" and s["rhs"].get("adt") == STATUS:
                c = op_const(s["rhs"]["ops"][0])
                if isinstance(c, int):
                    best = c
    return "status%s" % best if best is not None else "main"


def status_consts_in(f):
    """[(bb, const)] for StatusCode aggregates / Response::empty(const) in f"""
    out = []
    for bb, i, s in f.assigns():
        if s["rhs"]["rv"] == "agg" and s["rhs"].get("adt") == STATUS:
            c = op_const(s["rhs"]["ops"][0])
            out.append((bb, c))
    for bb, t in f.calls():
        if call_matches(t, r"response::Response::<std::io::Empty>::empty") and t["args"]:
            c = op_const(t["args"][0])
            if c is not None:
                out.append((bb, c))
    return out


# ------------------------------------------------------------------------------------------------
# Result / Option flow helpers

PASS_THROUGH = (
    "std::result::Result::<T, E>::map_err", "std::ops::Try::branch", "std::result::Result::<T, E>::map",
    "std::result::Result::<T, E>::or_else", "std::result::Result::<T, E>::and_then",
    "std::option::Option::<T>::ok_or", "std::option::Option::<T>::ok_or_else",
)


def result_switch(f, call_bb, max_hops=6):
    """Follow the Result produced by the call at call_bb through map_err / `?` plumbing to the
    switch that separates success from failure.
    -> dict(switch=bb, ok=target, err=target, hops=[names]) or None if the result is not
    branched on (e.g. discarded, converted with .ok())."""
    t = f.term(call_bb)
    cur = t["dest"]["l"] if not t["dest"]["p"] else None
    hops = []
    for _ in range(max_hops):
        if cur is None:
            return None
        nxt = None
        for u in f.uses().get(cur, []):
            if u[0] == "term" and u[2]["t"] == "call" and u[3] == 0 and u[4] == "move":
                name = call_name(u[2])
                callee = u[2].get("callee")
                if name in PASS_THROUGH or callee in PASS_THROUGH:
                    hops.append(name)
                    nxt = u[2]["dest"]["l"] if not u[2]["dest"]["p"] else None
                    break
                else:
                    return {"consumed_by": name, "bb": u[1], "hops": hops}
            if u[0] == "stmt" and u[4] == "move" and u[3]["rhs"]["rv"] == "use" and not u[3]["lhs"]["p"]:
                nxt = u[3]["lhs"]["l"]
                break
            if u[0] == "stmt" and u[4] == "discr":
                dl = u[3]["lhs"]["l"]
                for bb2 in sorted(f.live_blocks()):
                    sw = switch_on_discr(f, bb2)
                    if sw and op_local(f.term(bb2)["discr"]) == dl:
                        rv, m, otherwise, rest = sw
                        okn = "Ok" if "Ok" in m or "Ok" in rest else "Continue"
                        ern = "Err" if okn == "Ok" else "Break"
                        okt = m.get(okn, otherwise if okn in rest else None)
                        ert = m.get(ern, otherwise if ern in rest else None)
                        return {"switch": bb2, "ok": okt, "err": ert, "hops": hops}
        if nxt is None:
            return None
        cur = nxt
    return None


def arm_region(f, target, unwind=False):
    """blocks that belong exclusively to the branch starting at `target`: reachable from it and
    dominated by it"""
    dom = f.dominators(unwind)
    return {b for b in f.reach([target], unwind=unwind) if b in dom and target in dom[b]}


def promoted_value(f, idx):
    """symbolic value of promoted constant idx of f (what the promoted body's _0 refers to)"""
    import symex
    pf = f.promoted[idx]
    paths = symex.enumerate_paths(pf)
    if len(paths) != 1:
        return ("unknown",)
    st = symex.run_path(pf, paths[0])
    v = st.read_key((0,))
    if v[0] == "ref":
        return st.read_key(v[1])
    return v


def const_of_origin(f, o):
    """python constant behind an origin: direct constant, or the value of a promoted"""
    if o[0] == "const":
        if o[4] is not None:
            return ("promoted", promoted_value(f, o[4]))
        return o[1]
    if o[0] == "ref":
        return const_of_origin(f, o[1])
    if o[0] == "deref":
        return const_of_origin(f, o[1])
    return None


def sym_const(v):
    """python value of a symbolic term made of constants: ints, tuples, unit-like enum variants"""
    if v[0] == "const":
        return v[1]
    if v[0] == "tuple":
        return tuple(sym_const(x) for x in v[1])
    if v[0] == "agg":
        if not v[3]:
            return ("variant", v[1], v[2])
        return (v[1], v[2], tuple(sym_const(x) for x in v[3].values()))
    return None


def str_match_table(f):
    """`match s { "lit" => .. }` / chains of `s == "lit"`: every call comparing a str with a
    string literal, followed by a bool switch.  -> [(literal, true_bb, false_bb, call_bb)]"""
    out = []
    for bb, t in f.calls():
        if not call_matches(t, r"PartialEq.*for str>::eq$|<str as std::cmp::PartialEq>::eq$|core::str::traits::<impl std::cmp::PartialEq for str>::eq$"):
            continue
        lits = [op_const(a) for a in t["args"] if isinstance(op_const(a), str)]
        if len(lits) != 1:
            # maybe through a promoted / ref
            continue
        nt = t.get("target")
        if nt is None:
            continue
        bs = bool_switch(f, nt)
        if not bs or op_local(bs[0]) != t["dest"]["l"]:
            continue
        out.append((lits[0], bs[1], bs[2], bb))
    return out


def eval_from(f, start, init=None):
    """symbolic states at each return reachable from `start` (normal edges, acyclic paths)"""
    import symex
    outs = []
    for p in symex.enumerate_paths(f, start=start):
        outs.append((p, symex.run_path(f, p, init)))
    return outs



def backward_slice_locals(f, seeds, limit=200):
    """locals a set of temporaries is computed from (through refs, copies, moves, call arguments)"""
    seen = set()
    work = list(seeds)
    while work and len(seen) < limit:
        l = work.pop()
        if l in seen:
            continue
        seen.add(l)
        for d in f.defs().get(l, []):
            if d[0] == "assign":
                for p, kind in rvalue_places(d[3]):
                    work.append(p["l"])
            elif d[0] == "call":
                for a in d[2]["args"]:
                    p = op_place(a)
                    if p:
                        work.append(p["l"])
    return seen


def tls_const_false(ctx):
    """CONST-RET chain: Stream::secure -> RefinedTcpStream::secure -> ClientConnection.secure field
    -> ClientConnection::secure is constantly `false` in this configuration (no ssl feature)."""
    facts = ctx.facts
    if hasattr(facts, "_tls_false"):
        return facts._tls_false
    ok = True
    why = []
    try:
        ss = roles.inherent(facts, STREAM, "secure")
        vals = set()
        for bb, i, s in ss.assigns():
            if s["lhs"] == {"l": 0, "p": []}:
                vals.add(op_const(s["rhs"]["op"]) if s["rhs"]["rv"] == "use" else "?")
        if vals != {False}:
            ok = False; why.append("Stream::secure returns %s" % vals)
        rs = roles.inherent(facts, RTS, "secure")
        o = rs.origin_place({"l": 0, "p": []})
        if not (o[0] == "call" and o[1] == ss.id):
            ok = False; why.append("RefinedTcpStream::secure is not Stream::secure")
        ccnew = roles.inherent(facts, CC, "new")
        writes = facts.field_writes(CC, "secure")
        for f, bb, kind, x in writes:
            if f.id != ccnew.id or kind != "construct":
                ok = False; why.append("ClientConnection.secure written in %s" % f.id)
            else:
                r = x["rhs"]
                idx = r["fields"].index("secure")
                oo = f.origin(r["ops"][idx])
                if not (oo[0] == "call" and oo[1] == rs.id):
                    ok = False; why.append("ClientConnection.secure not from RefinedTcpStream::secure")
        if not writes:
            ok = False; why.append("no write of ClientConnection.secure")
        cs = roles.inherent(facts, CC, "secure")
        o = cs.origin_place({"l": 0, "p": []})
        if not (o[0] == "field" and o[2] == "secure"):
            ok = False; why.append("ClientConnection::secure does not return the field")
    except CheckerError as e:
        ok = False; why.append(str(e))
    facts._tls_false = ok
    facts._tls_why = why
    return ok


def tls_branch_dead(ctx, f, bb):
    """is block bb of f only reachable through the `true` edge of a test of ClientConnection::secure()
    (which is constantly false here)?"""
    if not tls_const_false(ctx):
        return False
    cc_secure = roles.inherent(ctx.facts, CC, "secure")
    for b2, t in f.calls():
        if call_is(t, cc_secure.id) and t.get("target") is not None:
            bs = bool_switch(f, t["target"])
            if bs and op_local(bs[0]) == t["dest"]["l"]:
                if f.dominates(bs[1], bb, unwind=False) and bs[1] != bs[2]:
                    return True
    return False


def slot_typestate(facts, fld):
    """Typestate of an Option slot of Request (`response_writer` / `data_reader`).
    -> dict(emptiers={fn ids that move the value out / overwrite it}, users={fn ids that only
    borrow it}, bad=[(fn, bb, why)]): `bad` lists emptiers that are not reached exclusively through
    methods that consume the Request (or Drop)."""
    emptiers, users, bad = set(), set(), []
    for f, bb, kind, x in facts.field_writes(REQ, fld):
        if kind == "construct":
            continue
        if kind == "mutref":
            emptying = False
            seen = {x["lhs"]["l"]}
            work = [x["lhs"]["l"]]
            while work:
                l = work.pop()
                for u in f.uses().get(l, []):
                    if u[0] == "term" and u[2]["t"] == "call":
                        if call_is(u[2], "std::mem::swap", "std::mem::replace", "std::mem::take", "std::option::Option::<T>::take",
                                   "std::option::Option::<T>::replace", "std::option::Option::<T>::insert", "std::option::Option::<T>::get_or_insert"):
                            emptying = True
                    elif u[0] == "stmt" and not u[3]["lhs"]["p"] and u[3]["lhs"]["l"] not in seen:
                        seen.add(u[3]["lhs"]["l"]); work.append(u[3]["lhs"]["l"])
            (emptiers if emptying else users).add(f.id)
        elif kind in ("assign", "calldest"):
            emptiers.add(f.id)
        elif kind == "drop":
            # `self.slot = v` drops the old value first; counted with the assignment
            pass
    for f, bb, kind in facts.field_reads(REQ, fld):
        if kind == "move":
            emptiers.add(f.id)
        elif f.id not in emptiers:
            users.add(f.id)

    def consumes(g):
        return (g.argc >= 1 and g.local_ty(1) == REQ) or g.rec.get("impl_trait") == T_DROP

    for e in sorted(emptiers):
        ef = facts.fns[e]
        if ef.rec.get("impl_self_adt") != REQ:
            bad.append((ef, 0, "the slot is emptied outside of Request's own methods"))
            continue
        if consumes(ef):
            continue
        seen = set()
        work = [e]
        while work:
            x = work.pop()
            if x in seen:
                continue
            seen.add(x)
            callers = facts.callers_of(x)
            if not callers and not consumes(facts.fns[x]) and facts.fns[x].rec.get("vis_pub"):
                bad.append((facts.fns[x], 0, "public non-consuming method empties the slot"))
            for g, bb, t in callers:
                if consumes(g):
                    continue
                if g.rec.get("impl_self_adt") == REQ and not g.rec.get("vis_pub"):
                    work.append(g.id)
                else:
                    bad.append((g, bb, "caller of a slot-emptying helper does not consume the Request"))
    return {"emptiers": emptiers, "users": users - emptiers, "bad": bad}


# ------------------------------------------------------------------------------------------------
# decision tables: evaluate a branch structure for every assignment of named boolean atoms

def walk_decision(f, start, atom_of, assignment, stop, on_block=None, max_steps=400):
    """Follow the normal CFG from `start` deciding each recognised test with `assignment`.
    atom_of(bb) -> (atom name, {value: target}) for decision blocks, None otherwise.
    Returns (reached stop block or None, list of visited blocks).  A block with several normal
    successors that is not a recognised decision aborts with CheckerError."""
    bb = start
    visited = []
    flags = f.flag_locals()
    fval = {}
    # drop flags have a definite value on the way to `start` only if it is the same on every
    # path; take it from the block-entry dataflow
    st0 = f.flag_states()[start] or {}
    for l, vs in st0.items():
        if len(vs) == 1:
            fval[l] = next(iter(vs))
    for _ in range(max_steps):
        visited.append(bb)
        if on_block:
            on_block(bb)
        if bb in stop:
            return bb, visited
        for s in f.stmts(bb):
            if s["s"] == "assign" and not s["lhs"]["p"] and s["lhs"]["l"] in flags and s["rhs"]["rv"] == "use":
                fval[s["lhs"]["l"]] = op_const(s["rhs"]["op"])
        t = f.term(bb)
        if t["t"] == "switch" and op_local(t["discr"]) in flags:
            if op_local(t["discr"]) in fval:
                v = fval[op_local(t["discr"])]
                tg = dict((bool(x), b) for x, b in t["targets"])
                bb = tg.get(v, t["otherwise"])
            else:
                # a drop flag whose value depends on the path before `start`: both sides only
                # differ in which destructor runs; follow the first feasible edge
                bb = f.succs(bb, False)[0]
            continue
        a = atom_of(bb)
        if a is not None:
            name, edges = a
            v = assignment[name]
            if v not in edges:
                raise CheckerError("decision %s has no edge for %r in %s" % (name, v, f.id))
            bb = edges[v]
            continue
        succ = f.succs(bb, False)
        if len(succ) == 1:
            bb = succ[0]
            continue
        if not succ:
            return None, visited
        raise CheckerError("unrecognised branch at %s while extracting a decision table in %s" % (f.loc(bb), f.id))
    raise CheckerError("decision walk did not terminate in %s" % f.id)


def walk_paths(f, start, atom_of, assignment, stop, max_paths=48, max_steps=500, max_visits=2):
    """Like walk_decision, but an unrecognised branch forks instead of aborting.  Returns a list of
    (end_block_or_None, visited_blocks).  Paths end at a block of `stop`, at a block without
    successors, or when a block would be visited more than `max_visits` times (loop cut)."""
    flags = f.flag_locals()
    st0 = f.flag_states()[start] or {}
    fval0 = {l: next(iter(vs)) for l, vs in st0.items() if len(vs) == 1}
    out = []
    work = [(start, dict(fval0), [])]
    steps = 0
    while work:
        bb, fval, visited = work.pop()
        while True:
            steps += 1
            if steps > max_steps * max_paths:
                raise CheckerError("decision walk explosion in %s" % f.id)
            if visited.count(bb) >= max_visits:
                out.append((None, visited + [bb]))
                break
            visited = visited + [bb]
            if bb in stop:
                out.append((bb, visited))
                break
            for s in f.stmts(bb):
                if s["s"] == "assign" and not s["lhs"]["p"] and s["lhs"]["l"] in flags and s["rhs"]["rv"] == "use":
                    fval[s["lhs"]["l"]] = op_const(s["rhs"]["op"])
            t = f.term(bb)
            if t["t"] == "switch" and op_local(t["discr"]) in flags:
                if op_local(t["discr"]) in fval:
                    v = fval[op_local(t["discr"])]
                    tg = dict((bool(x), b) for x, b in t["targets"])
                    bb = tg.get(v, t["otherwise"])
                else:
                    bb = f.succs(bb, False)[0]
                continue
            a = atom_of(bb)
            if a is not None:
                name, edges = a
                v = assignment[name]
                if v not in edges:
                    raise CheckerError("decision %s has no edge for %r in %s" % (name, v, f.id))
                bb = edges[v]
                continue
            succ = f.succs(bb, False)
            if not succ:
                out.append((None, visited))
                break
            if len(succ) == 1:
                bb = succ[0]
                continue
            if len(out) + len(work) > max_paths:
                raise CheckerError("too many paths while extracting a decision table in %s" % f.id)
            for s2 in succ[1:]:
                work.append((s2, dict(fval), list(visited)))
            bb = succ[0]
    return out


# ------------------------------------------------------------------------------------------------
# effects restricted to the successful paths of Result-returning local functions

def success_blocks(f):
    """blocks of f that lie on a path through an `_0 = Ok(..)` assignment: everything that can reach
    such an assignment, plus the epilogue actually executed after it (drop flags folded per path)"""
    import pathsim
    oks = [bb for bb, i, s in f.assigns() if s["lhs"] == {"l": 0, "p": []} and s["rhs"]["rv"] == "agg" and s["rhs"].get("variant") == "Ok"]
    if not oks or not f.local_ty(0).startswith("std::result::Result<"):
        return None
    live = f.live_blocks(unwind=False)
    before = {b for b in live if f.reach([b], unwind=False) & set(oks)}
    ps = pathsim.PathSim(f)
    after = set()
    for o in oks:
        after |= ps.forward_from(o)
    return before | after


def success_effects(facts, inst_id, memo=None, depth=0):
    """effects of an instance on its successful paths (for local functions returning Result; full
    effects otherwise), looking through nested local Result-returning callees"""
    if memo is None:
        memo = {}
    if inst_id in memo:
        return memo[inst_id]
    inst = facts.instances[inst_id]
    eff_all = facts.effects()[inst_id]
    memo[inst_id] = eff_all       # recursion guard
    f = facts.fns.get(inst["def"]) if inst["kind"] == "item" else None
    if f is None or not inst.get("local") or depth > 6:
        return eff_all
    sb = success_blocks(f)
    if sb is None:
        return eff_all
    out = set(facts.def_tags.get(f.id, set())) if False else set()
    for bb in sorted(sb):
        if f.blocks[bb]["cleanup"]:
            continue
        for _, kind, to, e in facts.inst_callees(inst, bb):
            if to is None:
                out.add({"unresolved": "USER-CALLBACK", "generic": "USER-CALLBACK", "fnptr": "FNPTR", "virtual": "DYN-UNKNOWN", "normalize": "USER-CALLBACK"}.get(kind, "UNKNOWN"))
            else:
                out |= success_effects(facts, to, memo, depth + 1)
    memo[inst_id] = frozenset(out)
    return memo[inst_id]



def writer_drop_waits_turn(ctx, rule):
    """A SequentialWriter releases its successor (send on on_finish) only after its own turn has
    come, even when dropped unused.  Shared by C01.3 and C10.7."""
    facts = ctx.facts
    f = method(facts, T_DROP, SW, "drop")
    ctx.touch(f)
    senders = [(bb, t) for bb, t in f.calls() if call_is(t, SEND) and "on_finish" in arg_origin_fields(f, t)]
    recvs = [bb for bb, t in f.calls() if call_is(t, RECV, "std::sync::mpsc::Receiver::<T>::recv_timeout") and "trigger" in arg_origin_fields(f, t)]
    none_targets = set()
    for bb in sorted(f.live_blocks()):
        sw = switch_on_discr(f, bb)
        if sw and "trigger" in origin_fields(f.origin_place(sw[0]["pl"])):
            rv, m, otherwise, rest = sw
            if "None" in m:
                none_targets.add(m["None"])
            elif "None" in rest:
                none_targets.add(otherwise)
    passed = {f.normal_target(bb) for bb in recvs}
    reach = f.reach([0], blocked=passed | none_targets, unwind=False)
    if not senders:
        ctx.ob(rule, "%s|send-after-own-turn" % f.id, "the writer's destructor releases its successor", False, "%s:%d" % (f.file, f.line), "no send on on_finish in Drop")
    for bb, t in senders:
        ok = bool(recvs) and bb not in reach
        ctx.ob(rule, "%s|send-after-own-turn" % f.id,
               "a writer releases its successor only after its own turn has come (its predecessor finished), even when it is dropped without ever writing",
               ok, f.loc(bb), None if ok else "Drop sends the successor's token without waiting for this writer's trigger: dropping an unused writer (e.g. `drop(rq.into_writer())`, or the parser abandoning a writer when new_request fails) lets a later response (or the 417/400 of a rejected request) overtake an earlier pending one")



def framing_lookup_closures(facts, nr):
    """{header literal: closure id} for the equiv("..") lookups of new_request"""
    lookups = {}
    for cl in facts.find_fns(r"^request::new_request::\{closure"):
        for bb, t in cl.calls():
            if call_matches(t, r"common::HeaderField::equiv$"):
                lit = [c for c in arg_consts(cl, t) if isinstance(c, str)]
                if lit:
                    lookups.setdefault(lit[0], []).append(cl.id)
    return lookups


def te_presence_tests(facts, nr, lookups):
    """[(bb, present_edge, absent_edge)] for the tests whether a Transfer-Encoding header exists"""
    out = []
    te_clos = set(lookups.get("Transfer-Encoding", []))
    for bb, t in nr.calls():
        if call_matches(t, r"Option::<T>::is_some$|Option::<T>::is_none$") and t.get("target") is not None:
            o = nr.origin(t["args"][0])
            if any(x[0] == "agg" and x[1] in te_clos for x in origin_walk(o)):
                bs = bool_switch(nr, t["target"])
                if bs and bs[1] != bs[2]:
                    pres, absent = (bs[1], bs[2]) if t["name"] == "is_some" else (bs[2], bs[1])
                    out.append((t["target"], pres, absent))
    for bb in sorted(nr.live_blocks()):
        sw = switch_on_discr(nr, bb)
        if sw and sw[0].get("adt") == "std::option::Option" and not nr.blocks[bb]["cleanup"]:
            o = nr.origin_place(sw[0]["pl"])
            if any(x[0] == "agg" and x[1] in te_clos for x in origin_walk(o)):
                rv, m, otherwise, rest = sw
                pres = m.get("Some", otherwise if "Some" in rest else None)
                absent = m.get("None", otherwise if "None" in rest else None)
                if pres is not None and absent is not None and pres != absent:
                    out.append((bb, pres, absent))
    return out


def content_length_local(facts, nr):
    cons = [(bb, s) for g, bb, s in facts.constructions(REQ) if g.id == nr.id]
    if not cons:
        raise CheckerError("Request construction not found in new_request")
    r = cons[0][1]["rhs"]
    o = nr.origin(r["ops"][r["fields"].index("body_length")])
    ls = [x[1] for x in origin_walk(o) if x[0] == "local"]
    if not ls:
        raise CheckerError("body_length is not fed by a local")
    return ls[0]


def te_precedence(ctx, rule, key_suffix):
    """Transfer-Encoding takes precedence: the Content-Length that decides the framing (and is reported as
    body_length) can be a header-derived value only on paths where no Transfer-Encoding header exists."""
    facts = ctx.facts
    nr = facts.fn("request::new_request")
    lookups = framing_lookup_closures(facts, nr)
    tests = te_presence_tests(facts, nr, lookups)
    CL = content_length_local(facts, nr)
    defs = [d for d in nr.defs().get(CL, []) if d[0] in ("assign", "call")]
    ok = bool(tests) and bool(defs)
    detail = []
    for d in defs:
        bb = d[1]
        if d[0] == "assign":
            o = nr.origin(d[3]["op"]) if d[3]["rv"] == "use" else (("agg", d[3].get("adt"), [], None, d[3].get("variant")) if d[3]["rv"] == "agg" else ("unknown",))
            if o[0] == "agg" and o[4] == "None":
                continue
        fine = any(nr.dominates(absent, bb, unwind=False) for _, pres, absent in tests)
        if not fine:
            ok = False
            detail.append("a header-derived Content-Length is assigned at %s although a Transfer-Encoding header may be present" % nr.loc(bb))
    ctx.ob(rule, "%s|%s" % (nr.id, key_suffix), "a Transfer-Encoding header takes precedence: the Content-Length used for framing (and reported as body_length) comes from a header only when there is no Transfer-Encoding",
           ok, "%s:%d" % (nr.file, nr.line), "; ".join(detail) or None)
    return lookups, tests, CL



def header_split_rule(ctx, rule):
    """`impl FromStr for Header`: on every accepting path the name is what precedes the FIRST colon of the line and the value what follows it
    (colons included), whatever primitive the code splits with.  Decided on the abstract paths of the parser: the name / value of the
    returned Header must come out of one `splitn(2, ':')`, `split_once(':')` or `find(':')` of the whole input."""
    import inline, absint
    import queue_rules as Q
    facts = ctx.facts
    f0 = method(facts, T_FROMSTR, HEADER, "from_str")
    same = lambda d: facts.fns[d].rec.get("local") and facts.fns[d].file == f0.file and ("FromStr" not in d or d.startswith(f0.id + "::"))
    f = inline.inlined(facts, f0.id, stop=lambda d: facts.fns[d].rec.get("local") and not same(d), extern_ok=Q.std_small)
    ctx.touch(f)
    INPUT = ("init", (1,))
    ps = [p for p in absint.explore(f, 0, None, max_paths=3000) if p.end[0] == "return" and p.ret()[0] == "agg" and p.ret()[2] == "Ok"]
    ctx.paths += len(ps)
    bad = []
    GOOD = r"<impl str>::(splitn|split_once|find)(::<|$)"
    BADC = r"<impl str>::(rsplitn|rsplit_once|rfind|rsplit|split|split_terminator|split_inclusive|rsplit_terminator|matches|match_indices)(::<|$)"
    hf = [x["name"] for x in facts.adt(HEADER)["variants"][0]["fields"] if x["ty"] == HFIELD][0]
    for p in ps:
        h = absint.deep(p.state, p.ret()[3]["0"])
        if not (h[0] == "agg" and h[1] == HEADER):
            bad.append("does not return a Header")
            continue
        for part, v in h[3].items():
            splits = [x for x in absint.walk_terms(v) if x and x[0] == "call" and re.search(GOOD + "|" + BADC, x[1])]
            goods = [x for x in splits if re.search(GOOD, x[1])]
            bads = [x for x in splits if not re.search(GOOD, x[1])]
            if bads or not goods:
                bad.append("%s comes from %s" % ("name" if part == hf else "value", sorted({short(x[1]) for x in splits}) or "no split"))
                continue
            for x in goods:
                pat = [y for a in x[2][1:] for y in absint.walk_terms(a) if y and y[0] == "const"]
                pats = [y[1] for y in pat if not isinstance(y[1], bool)]
                is_colon = any(y == ":" or y == ("char", ":") or y == 58 for y in pats) and not any(isinstance(y, str) and len(y) > 1 for y in pats)
                if not is_colon:
                    bad.append("split pattern %s" % pats)
                if re.search(r"splitn", x[1]) and 2 not in [y for y in pats if isinstance(y, int)]:
                    bad.append("splitn with limit %s" % [y for y in pats if isinstance(y, int)])
                if not any(y and y[0] == "init" and y[1] and y[1][0] == 1 for y in absint.walk_terms(x[2][0])) or any(y and y[0] == "call" and re.search(r"trim|strip_|\\bget\\b|index", y[1]) for y in absint.walk_terms(x[2][0])):
                    bad.append("the split is not applied to the whole line")
        # which side is which: with splitn the name is the first `next()`, with split_once / find the part before
        name_v, val_v = h[3].get(hf), [v for k, v in h[3].items() if k != hf][0]
        nn = [x for x in absint.walk_terms(name_v) if x and x[0] == "call" and re.search(r"SplitN<.*> as std::iter::Iterator>::next$", x[1] + " " + (x[4] if len(x) > 4 else ""))]
        nv = [x for x in absint.walk_terms(val_v) if x and x[0] == "call" and re.search(r"SplitN<.*> as std::iter::Iterator>::next$", x[1] + " " + (x[4] if len(x) > 4 else ""))]
        if nn and nv:
            first = min(e[0] for e in p.calls() if re.search(r"SplitN<.*> as std::iter::Iterator>::next$", e[2] + " " + (e[7] or "")))
            order = [e[0] for e in p.calls() if re.search(r"SplitN<.*> as std::iter::Iterator>::next$", e[2] + " " + (e[7] or ""))]
            if nn[0][3] != order[0] or (len(order) > 1 and nv[0][3] != order[1]):
                bad.append("name / value are not the first / second part of the split")
        def once_fields(v):
            return [x for x in absint.walk_terms(v) if x and x[0] == "field" and x[2] in ("0", "1") and x[1] and x[1][0] == "payload" and absint.head_call(x[1]) is not None
                    and re.search(r"<impl str>::split_once(::<|$)", absint.head_call(x[1])[1])]
        fields0, fields1 = once_fields(name_v), once_fields(val_v)
        if fields0 and fields1 and (fields0[0][2] != "0" or fields1[0][2] != "1"):
            bad.append("name / value are not the part before / after the colon")
    ok = bool(ps) and not bad
    ctx.ob(rule, "%s|split-at-first-colon" % f0.id, "a header line is split exactly once, at its first colon (name = everything before it, value = everything after it, colons included)",
           ok, "%s:%d" % (f0.file, f0.line), None if ok else str(sorted(set(bad))[:4]))
    return f0


def pool_counter_discipline(ctx, rule):
    """The pool's worker counters (active_tasks / waiting_tasks) are changed only through the RAII Registration guard
    (+1 on creation, -1 in Drop, so every exit path including early returns and unwinding gives the count back) and by
    the pool's own destructor."""
    facts = ctx.facts
    reg_new = roles.inherent(facts, REG, "new")
    reg_drop = method(facts, T_DROP, REG, "drop")
    td = method(facts, T_DROP, TP, "drop")
    n = 0
    for g, bb, t2 in facts.all_calls(lambda t2: call_matches(t2, r"atomic::Atomic(::<usize>|Usize)::(store|fetch_add|fetch_sub|swap|compare_exchange\w*|fetch_update|fetch_max|fetch_min)$")):
        if g.id in (reg_new.id, reg_drop.id):
            n += 1
            ok = (g.id == reg_new.id and t2["name"] == "fetch_add") or (g.id == reg_drop.id and t2["name"] == "fetch_sub")
            ctx.ob(rule, "counter-write|%s" % g.id, "the registration guard increments on creation and decrements on drop", ok and op_const(t2["args"][1]) == 1, g.loc(bb))
        elif {"active_tasks", "waiting_tasks"} & arg_origin_fields(g, t2):
            n += 1
            ctx.ob(rule, "counter-write|%s" % g.id, "the worker counters are changed only by the RAII registration guard (and the pool's destructor): a manual increment/decrement pair leaks the count on early exits",
                   g.id == td.id, g.loc(bb))
    return n



def read_buffer_bounded_by(f, read_bb, bound_locals):
    """Is the buffer handed to the Read::read call at read_bb no longer than the *current* value of one of
    `bound_locals` (a remaining-bytes counter)?  Recognised: a buffer allocated inside the same loop iteration with
    a size derived from the counter (`vec![0; remaining.min(K)]`), a prefix slice `[..remaining]` / `[..n]` with n derived
    from the counter in this iteration, or the `if buf.len() < remaining { buf } else { &mut buf[..remaining] }` form.
    -> (bool, description)"""
    t = f.term(read_bb)
    o = f.origin(t["args"][1])
    def mentions_counter(x):
        return any(y[0] == "local" and y[1] in bound_locals for y in origin_walk(x)) or any(
            y[0] == "field" and y[2] == "size" for y in origin_walk(x))
    # prefix slice
    for y in origin_calls(o):
        if re.search(r"index(_mut)?$", y[1]) and len(y[2]) > 1:
            rng = y[2][1]
            if rng[0] == "agg" and str(rng[1]).endswith("RangeTo") and mentions_counter(rng[2][0]):
                return True, "prefix slice bounded by the counter"
    # allocation inside the loop, sized from the counter
    allocs = [y for y in origin_calls(o) if re.search(r"vec::from_elem|Vec::<T>::with_capacity$", y[1])]
    for y in allocs:
        ab = y[3]
        size = y[2][1] if len(y[2]) > 1 else (y[2][0] if y[2] else ("unknown",))
        same_iteration = f.in_loop(ab) and read_bb in f.reach([ab], unwind=False) and ab in f.reach([read_bb], unwind=False)
        if mentions_counter(size):
            if same_iteration:
                return True, "buffer allocated in each iteration with a size derived from the counter"
            return False, "the buffer is sized from the counter once, outside the loop: later reads may ask for more than is left"
    # multi-definition buffer local (EqualReader::read form) is checked by C03.2
    if any(y[0] == "arg" for y in origin_walk(o)) and not allocs:
        return True, "caller's buffer (bounded separately)"
    # fixed-size scratch buffer: not bounded by the counter
    return False, "the buffer is not bounded by what is left to read"


def size_key_of(facts, adt):
    """key suffix of the one `usize` quantity a length-limited reader keeps (directly, or inside a private newtype): ('.size',) /
    ('.remaining', '.0'); None when there is not exactly one"""
    ps = find_slot_paths(facts, adt, r"^usize$")
    return tuple("." + x for x in ps[0]) if len(ps) == 1 else None


def size_init(facts, adt):
    """how a length-limited reader's count of the bytes still owed is initialised for an evaluation of its destructor:
    {place key: term}.  One `usize` quantity (directly or in a newtype): that quantity is SIZE.  Two of them -- the declared length and the
    number of bytes pulled out so far (`remaining = declared - delivered`) --: the declared one is SIZE and the count starts at 0 (told apart by
    evaluating `read`: the count is the one that grows by what the inner read returned).  None when neither shape applies."""
    import drain_rules as DR, absint, inline, symex
    import queue_rules as Q
    ps = find_slot_paths(facts, adt, r"^usize$")
    if len(ps) == 1:
        return {(1, "*") + tuple("." + x for x in ps[0]): DR.SIZE}
    if len(ps) != 2:
        return None
    rd = facts.trait_method(T_READ, adt, "read")
    if rd is None:
        return None
    g0 = facts.fn(rd)
    g = inline.inlined(facts, rd, stop=helper_stop(facts, g0.file), extern_ok=Q.std_small)
    keys = [(1, "*") + tuple("." + x for x in p_) for p_ in ps]
    N = ("sym", "count-read")
    def on_call(bb, t, args, st):
        if t.get("callee") in ("std::io::Read::read",):
            return ("agg", "std::result::Result", "Ok", {"0": N})
        return None
    grows, same = set(), set()
    for p in absint.explore(g, 0, None, on_call=on_call, max_paths=400):
        if p.end[0] != "return" or not any(e[1] == "call" and e[6] == "std::io::Read::read" for e in p.events):
            continue
        for k in keys:
            v = absint.deep(p.state, p.state.read_key(k))
            if v == ("init", k):
                same.add(k)
            elif any(x and x[0] == "binop" and x[1] in ("Add", "AddWithOverflow", "AddUnchecked") and ("init", k) in (x[2], x[3]) for x in absint.walk_terms(v)):
                grows.add(k)
    if len(grows) == 1 and len(same - grows) == 1:
        (kc,), (kd,) = tuple(grows), tuple(same - grows)
        return {kd: DR.SIZE, kc: ("const", 0, "0_usize", None)}
    return None


def helper_stop(facts, file):
    """inlining boundary of a model that reads one file: functions of the crate in other files stay calls -- except free functions (no
    `impl`, no trait) of the crate and provided methods of its traits, which are plumbing that several files may share
    (`util::discard(reader, scratch, limit)`, `trait DiscardRest { fn discard_rest(&mut self) {..} }`)"""
    def stop(d):
        g = facts.fns[d]
        if not g.rec.get("local") or g.file == file:
            return False
        root = facts.fns.get(re.sub(r"(::\{closure#\d+\})+$", "", d))
        if root is not None and root.rec.get("def_kind") == "Fn" and root.rec.get("impl_self_adt") is None and root.rec.get("impl_trait") is None and "test" not in root.id.split("::")[0]:
            return False
        # ... and so are the provided methods of a trait of the crate (a default body shared by its implementors: it belongs to no type)
        if root is not None and root.rec.get("def_kind") == "AssocFn" and "impl_self" not in root.rec:
            return False
        return True
    return stop


def find_slot_paths(facts, adt, type_rx, depth=0):
    """field paths (tuples of field names) inside `adt` (through nested local structs) to a field whose type matches type_rx"""
    out = []
    a = facts.adts.get(adt)
    if a is None or a["kind"] != "Struct" or depth > 3:
        return out
    for x in a["variants"][0]["fields"]:
        if (type_rx(x["ty"]) if callable(type_rx) else re.search(type_rx, x["ty"])):
            out.append((x["name"],))
        elif x["ty"] in facts.adts:
            for sub in find_slot_paths(facts, x["ty"], type_rx, depth + 1):
                out.append((x["name"],) + sub)
    return out


def lift_sites(facts, g, bb, depth=0, std=False):
    """A site inside a private helper or a closure is judged in the function(s) it serves: a closure belongs to the function it is written
    in; a private, non-trait function is replaced by its callers in the same file (each of them, when there are several); the site is then
    found in each such function's body with the helpers and closures of its file spliced in.  -> list of (function to analyse, block)"""
    import inline
    tops, work, seen = [], [g], {g.id}
    while work:
        top = work.pop()
        if "{closure" in top.id:
            parent = facts.fns.get(re.sub(r"::\{closure#\d+\}$", "", top.id))
            if parent is not None and parent.id not in seen:
                seen.add(parent.id); work.append(parent)
                continue
            tops.append(top); continue
        if top.rec.get("impl_trait") is not None or top.rec.get("vis_pub"):
            tops.append(top); continue
        callers = sorted({h.id for h, b2, t2 in facts.callers_of(top.id)})
        cf = [facts.fns[c] for c in callers]
        if not cf or any(h.file != top.file for h in cf) or len(seen) > 12:
            tops.append(top); continue
        new = [h for h in cf if h.id not in seen]
        if not new:
            tops.append(top); continue
        for h in new:
            seen.add(h.id); work.append(h)
    cache = facts.__dict__.setdefault("_lift_cache", {})
    out = []
    for top in tops:
        if top.id == g.id and g.rec.get("impl_trait") != T_DROP:
            out.append((g, bb)); continue
        # (a destructor is judged with the private helpers of its file spliced in, but not the Read impls it drains through)
        ck = (top.id, std)
        if ck not in cache:
            import queue_rules as Q_
            cache[ck] = inline.inlined(facts, top.id, stop=lambda d, top=top: facts.fns[d].rec.get("local") and (facts.fns[d].file != top.file or (facts.fns[d].rec.get("impl_trait") == T_READ and d != g.id and d != top.id)),
                                       extern_ok=Q_.std_small if std else (lambda d_: False))      # (no std bodies, but pipelines read as loops)
        R = cache[ck]
        hit = [b for b in range(R.n) if R.blocks[b].get("src") == g.id and R.blocks[b].get("obb") == bb and not R.blocks[b].get("synthetic")]
        if hit:
            out += [(R, b) for b in hit[:1]]
        elif top.id == g.id:
            out.append((g, bb))
    return out or [(g, bb)]


def lift_site(facts, g, bb):
    """single-context form of lift_sites (the first context)"""
    return lift_sites(facts, g, bb)[0]


def abstractly_visited(facts):
    """(function def path, block) pairs at which some abstract path of the public entry points PANICS (the diverging call itself, or a call site
    whose spliced-in callee diverges): of the Request and of the turn-taking
    reader/writer, started from the states the typestate rules (C06) and the chain rules (C01/C09) establish.  A panic-capable construct of
    those modules that is NOT in this set cannot be reached by any use of the public API: the check that would fail is decided by the
    state the object is in.  -> (visited set, set of functions fully covered)"""
    if hasattr(facts, "_abs_visited"):
        return facts._abs_visited
    import request_rules as RR, turn_rules as T, absint, symex, inline
    import queue_rules as Q
    visited, covered, cut_fns = set(), set(), set()
    def note(f, paths):
        had_cut = any(p.end[0] == "cut" for p in paths)
        for dep, d in f.inlined:
            (cut_fns if had_cut else covered).add(d)
        for p in paths:
            if p.end[0] not in ("diverge", "resume", "terminate"):
                continue
            # where the path blew up: the block itself and every call site (of the functions spliced in) it is nested in
            blk = f.blocks[p.blocks[-1]]
            visited.add((blk.get("src") or f.id, blk.get("obb", p.blocks[-1])))
            for sd, so in blk.get("sites") or ():
                visited.add((sd, so))
    RM = RR.rmodel(facts)
    import engine
    nd_ok, nd_path = notify_slot_dead(engine.Ctx("x", "quick", facts, 0))
    def pre(st, base):
        if nd_ok and nd_path:
            st.write_key(RM.key(base, nd_path), notify_slot(facts)["dead"])
    entry = [m for m in RM.methods.values() if m.rec.get("vis_pub")]
    for g in entry:
        base = RM.self_base(g)
        f = RM.fn(g)
        for w, r in (("some", "some"),):
            st = symex.Sym(f)
            st.write_key(RM.key(base, RM.wslot), ("some", RR.WRITER))
            st.write_key(RM.key(base, RM.rslot), ("some", RR.READER))
            pre(st, base)
            note(f, absint.explore(f, 0, st, max_paths=6000))
    f = RM.fn(RM.drop)
    for w, r in (("some", "some"), ("none", "some"), ("none", "none")):
        st = symex.Sym(f)
        st.write_key(RM.key((1, "*"), RM.wslot), ("some", RR.WRITER) if w == "some" else ("none",))
        st.write_key(RM.key((1, "*"), RM.rslot), ("some", RR.READER) if r == "some" else ("none",))
        pre(st, (1, "*"))
        note(f, absint.explore(f, 0, st, max_paths=6000))
    for chain, trait, names in ((T.writer_chain(facts), T_WRITE, ("write", "flush")), (T.reader_chain(facts), T_READ, ("read",))):
        if chain.problems or len(chain.items) < 3:
            continue
        shapes = list(chain.items[:2])
        adt = chain.i_adt
        ms = [method(facts, trait, adt, n) for n in names] + [method(facts, T_DROP, adt, "drop")]
        # shapes after a first use
        for m in ms[:-1]:
            for it in list(chain.items[:2]):
                f, ps = chain.run(m.id, it)
                for p in ps:
                    if p.end[0] == "return":
                        shapes.append(absint.deep(p.state, p.state.read_key((1, "*"))))
        seen = set()
        for m in ms:
            f = chain.inl(m.id)
            for it in shapes:
                if repr((m.id, it)) in seen:
                    continue
                seen.add(repr((m.id, it)))
                st = symex.Sym(f)
                st.counter = 1000
                st.write_key((1, "*"), it)
                note(f, absint.explore(f, 0, st))
        for m in (chain.ctor, chain.next):
            pass
    # the response printer, from any response and any arguments (its panics are decided by how it computed its own intermediate values)
    try:
        import response_rules as RSP
        M = RSP.resp_model(facts)
        note(M.f, absint.explore(M.f, 0, None, max_paths=50000, max_visits=2))
    except CheckerError:
        pass
    facts._abs_visited = (visited, covered - cut_fns)
    return facts._abs_visited


def owner_of_path(facts, adt, path):
    """(owning adt, field) of the last segment of a field path through nested local structs"""
    owner = adt
    for seg in path[:-1]:
        nxt = [x["ty"] for x in facts.adt(owner)["variants"][0]["fields"] if x["name"] == seg]
        owner = nxt[0]
    return owner, path[-1]


SENDER_UNIT = "std::sync::mpsc::Sender<()>"


def notify_kind(facts, ty):
    """how a type can hold the completion-notice sender: ('option',) for Option<Sender<()>>, ('enum', adt, armed variant, empty variant) for an
    enum of the crate with one variant carrying exactly a Sender<()> and one field-less variant; None otherwise"""
    if ty == "std::option::Option<%s>" % SENDER_UNIT:
        return ("option",)
    a = facts.adts.get(ty)
    if a is not None and a["kind"] == "Enum" and len(a["variants"]) == 2:
        armed = [v for v in a["variants"] if len(v["fields"]) == 1 and v["fields"][0]["ty"] == SENDER_UNIT]
        empty = [v for v in a["variants"] if not v["fields"]]
        if len(armed) == 1 and len(empty) == 1:
            return ("enum", ty, armed[0]["name"], empty[0]["name"])
    return None


def notify_slot(facts):
    """the Request's completion-notice slot, bound by what it can hold.  -> None or dict(path, owner, field, kind, dead (the term of its
    empty value), armed (variant name))"""
    if hasattr(facts, "_notify_slot"):
        return facts._notify_slot
    paths = find_slot_paths(facts, REQ, lambda ty: notify_kind(facts, ty) is not None)
    res = None
    if len(paths) == 1:
        owner, fld = owner_of_path(facts, REQ, paths[0])
        ty = [x["ty"] for x in facts.adt(owner)["variants"][0]["fields"] if x["name"] == fld][0]
        k = notify_kind(facts, ty)
        if k[0] == "option":
            res = {"path": paths[0], "owner": owner, "field": fld, "kind": k, "dead": ("none",), "empty": "None", "armed": "Some", "ty": ty}
        else:
            res = {"path": paths[0], "owner": owner, "field": fld, "kind": k, "dead": ("agg", k[1], k[3], {}), "empty": k[3], "armed": k[2], "ty": ty}
    elif len(paths) > 1:
        res = {"ambiguous": paths}
    facts._notify_slot = res
    return res


def notify_slot_dead(ctx):
    """The Request's completion-notice slot (HTTPS only) is never armed in this configuration: it is empty at construction and armed only by
    functions whose every call sits on the HTTPS-only branch (dead: Stream::secure() is constantly false).  -> (ok, slot path or None)"""
    facts = ctx.facts
    if hasattr(facts, "_notify_dead"):
        return facts._notify_dead
    ns = notify_slot(facts)
    if ns is None:
        facts._notify_dead = (True, None)
        return facts._notify_dead
    if "ambiguous" in ns:
        facts._notify_dead = (False, None)
        return facts._notify_dead
    owner, fld = ns["owner"], ns["field"]
    ok = tls_const_false(ctx)
    setters = set()
    for f, bb, kind, x in facts.field_writes(owner, fld):
        if kind == "construct":
            r = x["rhs"]
            o = f.origin(r["ops"][r["fields"].index(fld)])
            if not (o[0] == "agg" and o[4] == ns["empty"] and not o[2]):
                # not a literal empty value (`..Default::default()`, a helper's result): decided by evaluation -- every value of the owner
                # type the constructing function returns holds the empty value in the slot
                import absint as _ab, inline as _inl, symex as _sx
                import queue_rules as _Q
                fi = _inl.inlined(facts, f.id, stop=helper_stop(facts, f.file), extern_ok=_Q.std_small)
                found, bad_v = 0, 0
                for p_ in _ab.explore(fi, 0, None, max_paths=2000):
                    if p_.end[0] != "return":
                        continue
                    for x_ in _ab.walk_terms(_ab.deep(p_.state, p_.ret())):
                        if x_ and x_[0] == "agg" and x_[1] == owner and isinstance(x_[3], dict) and fld in x_[3]:
                            found += 1
                            if x_[3][fld] != ns["dead"]:
                                bad_v += 1
                if not found or bad_v:
                    ok = False
        elif kind in ("assign", "calldest"):
            setters.add(f.id)
        elif kind == "mutref":
            # &mut slot handed to a function of the slot's own type (`self.slot.disarm()`): fine when that function only ever stores the
            # empty value; handed to anything else than take / replace-with-empty: treated as a setter
            pass
    # functions of the slot's own type that store into *self
    if ns["kind"][0] == "enum":
        for k2, g in sorted(facts.local_fns.items()):
            if g.rec.get("impl_self_adt") == ns["ty"]:
                for b2, i2, s2 in g.assigns():
                    r = s2["rhs"]
                    if s2["lhs"]["p"] == ["*"] and r["rv"] == "agg" and r.get("adt") == ns["ty"] and r.get("variant") == ns["armed"]:
                        setters.add(g.id)
    work = list(setters)
    seen = set()
    while work:
        sid = work.pop()
        if sid in seen:
            continue
        seen.add(sid)
        for g, bb, t in facts.callers_of(sid):
            if g.rec.get("impl_self_adt") in (REQ, owner) and not g.rec.get("vis_pub") or (g.rec.get("impl_self_adt") == owner and owner != REQ):
                work.append(g.id)        # a private forwarding helper: look at its callers
                continue
            import server_rules as S
            try:
                tk = S.smodel(facts).tk
            except CheckerError:
                ok = False
                continue
            bs = [b2 for b2 in range(tk.n) if tk.src_of(b2) == g.id and tk.blocks[b2].get("obb") == bb and not tk.blocks[b2].get("synthetic")]
            if not bs or not all(tls_branch_dead(ctx, tk, b2) for b2 in bs):
                ok = False
    facts._notify_dead = (ok, ns["path"])
    return facts._notify_dead


def server_drop_own_sites(facts):
    """(function, block) pairs of call sites that belong to Server::drop: sites in its own body, its closures, and private helpers that are
    called from nowhere else; for each, the site's block inside drop's body with everything spliced in.  -> {(fn id, bb): (inlined Fn, block)}"""
    if hasattr(facts, "_server_drop_sites"):
        return facts._server_drop_sites
    import inline
    import queue_rules as Q
    d0 = method(facts, T_DROP, SERVER, "drop")
    f = inline.inlined(facts, d0.id, extern_ok=Q.std_small)
    members = {d for dep, d in f.inlined} | {d0.id}
    def private_to_drop(fid, seen=()):
        if fid == d0.id or fid.startswith(d0.id + "::{closure"):
            return True
        if fid in seen:
            return False
        g = facts.fns.get(fid)
        if g is None or g.rec.get("vis_pub") and g.rec.get("impl_trait") is None and False:
            return False
        if "{closure" in fid:
            return private_to_drop(re.sub(r"::\{closure#\d+\}$", "", fid), seen + (fid,))
        callers = facts.callers_of(fid)
        return bool(callers) and all(private_to_drop(h.id, seen + (fid,)) for h, b2, t2 in callers)
    out = {}
    for b in range(f.n):
        blk = f.blocks[b]
        if blk.get("synthetic") or not (blk["term"]["t"] == "call" or blk.get("inl_call")):
            continue
        src = f.src_of(b)
        if src in members and private_to_drop(src):
            out[(src, blk.get("obb", b))] = (f, b)
    facts._server_drop_sites = out
    return out


def chunked_reader_adt(facts):
    """the body reader that decodes the chunked transfer coding, bound by role: the struct of the crate that holds a chunked_transfer
    Decoder and implements Read"""
    if hasattr(facts, "_chunked_reader_adt"):
        return facts._chunked_reader_adt
    out = []
    for aid, a in sorted(facts.adts.items()):
        if a["kind"] == "Struct" and facts.trait_method(T_READ, aid, "read") is not None and find_slot_paths(facts, aid, r"chunked_transfer::(decoder::)?Decoder<"):
            out.append(aid)
    facts._chunked_reader_adt = out[0] if len(out) == 1 else None
    return facts._chunked_reader_adt


def boxed_body_readers(facts):
    """concrete types turned into the Request's `Box<dyn Read + Send>` body reader: the unsizing coercions in the connection instance of
    new_request and in the instances of the private helpers of its file that it calls.  -> list of (fn, block, concrete type)"""
    if hasattr(facts, "_boxed_readers"):
        return facts._boxed_readers
    nr = facts.fn("request::new_request")
    insts = [i for i in facts.instances_of(nr.id) if not i["generic"] and "SequentialReader<" in i["name"]]
    if len(insts) != 1:
        raise CheckerError("connection instance of new_request not found (%d)" % len(insts))
    want = norm_dyn("dyn std::io::Read + std::marker::Send")
    out, seen, work = [], set(), [insts[0]]
    while work:
        inst = work.pop()
        if inst["id"] in seen:
            continue
        seen.add(inst["id"])
        g = facts.fns.get(inst.get("def"))
        for e in inst.get("edges", []):
            if e["k"] == "unsize" and e["info"].get("vtable") and norm_dyn(e["info"]["dyn"]) == want and g is not None:
                out.append((g, e["bb"], e["info"]["vtable"]))
            if e["k"] == "call" and e.get("to") is not None:
                to = facts.instances[e["to"]]
                h = facts.fns.get(to.get("def")) if to.get("kind") == "item" else None
                if h is not None and h.rec.get("local") and h.file == nr.file and h.rec.get("impl_self_adt") != REQ:
                    work.append(to)
    facts._boxed_readers = out
    return out


def printers(facts):
    """the functions that print a Response: the methods of Response that consume it and reach the head writer (the public `raw_print` and any
    crate-internal entry it delegates to or is reached through)"""
    if hasattr(facts, "_printers"):
        return facts._printers
    import response_rules as RSP
    M = RSP.resp_model(facts)
    hw = M.head_writer.id
    memo = {}
    def reaches(fid, seen=()):
        if fid == hw:
            return True
        if fid in memo:
            return memo[fid]
        if fid in seen:
            return False
        g = facts.fns.get(fid)
        r = False
        if g is not None and g.rec.get("local") and g.file == M.file:
            for bb, t in g.calls():
                c = call_name(t)
                if c in facts.local_fns and reaches(c, seen + (fid,)):
                    r = True
                    break
        memo[fid] = r
        return r
    out = sorted(k for k, g in facts.local_fns.items() if g.rec.get("impl_self_adt") == RESP and g.rec.get("impl_trait") is None and "{closure" not in k
                 and g.argc >= 2 and g.local_ty(1).startswith(RESP) and reaches(k))
    facts._printers = out
    return out


FLUSH_RX = r"std::io::Write::flush$| as std::io::Write>::flush$"


def flushing_printers(facts):
    """the printing entry points that also flush: on every path on which they return after having printed (successfully), they have called
    Write::flush on the writer they were given"""
    if hasattr(facts, "_flushing_printers"):
        return facts._flushing_printers
    import absint, inline, symex
    import queue_rules as Q
    ps = printers(facts)
    W = ("sym", "the-writer-given")
    out = set()
    for k in ps:
        g = facts.fns[k]
        inner = [d for d in ps if d != k]
        if not any(call_name(t) in inner for bb, t in g.calls()):
            continue
        f = inline.inlined(facts, k, stop=lambda d: facts.fns[d].rec.get("local") and (facts.fns[d].file != g.file or d in inner), extern_ok=Q.std_small)
        st = symex.Sym(f)
        wi = [i for i in range(2, f.argc + 1) if re.search(r"^(&('\w+ )?mut )?W$|dyn std::io::Write", f.local_ty(i))]
        if not wi:
            continue
        st.write_key((wi[0], "*") if f.local_ty(wi[0]).startswith("&") else (wi[0],), W)
        ok, n = True, 0
        for p in absint.explore(f, 0, st, on_call=absint.io_model, max_paths=400):
            if p.end[0] != "return":
                continue
            evs = p.events
            pr = [i for i, e in enumerate(evs) if e[1] == "call" and e[2] in inner]
            if not pr:
                continue
            failed = any(c and c[0] == "variant" and c[2] in ("Err", "Break") and absint.mentions_call(c[3], evs[pr[0]][4]) for bb, c in p.conds)
            if failed:
                continue
            n += 1
            fl = [i for i, e in enumerate(evs) if i > pr[0] and e[1] == "call" and ((e[6] or "") == "std::io::Write::flush" or re.search(FLUSH_RX, e[2]))
                  and any(absint.contains(absint.deep(p.state, a), W) for a in e[3])]
            if not fl:
                ok = False
        if ok and n:
            out.add(k)
    facts._flushing_printers = out
    return out


def printer_rx(facts):
    ps = printers(facts)
    return "(" + "|".join(re.escape(p) for p in ps) + ")$" if ps else r"response::Response::<R>::raw_print$"


def eval_constructor(facts, call):
    """the aggregate a small constructor function of the crate returns for these arguments (`Context::bare(version, flag)`), when it
    returns the same shape on every path; None otherwise"""
    import absint, inline, symex
    import queue_rules as Q
    g = facts.fns.get(call[4] if len(call) > 4 and call[4] in facts.fns else call[1])
    if g is None or not g.rec.get("local") or len(g.blocks) > 12:
        return None
    try:
        f = inline.inlined(facts, g.id, stop=lambda d: facts.fns[d].rec.get("local") and facts.fns[d].file != g.file, extern_ok=Q.std_small)
    except Exception:
        return None
    st = symex.Sym(f)
    for i, a in enumerate(call[2]):
        if i + 1 > f.argc:
            break
        st.write_key((i + 1,), ("constref", a[1]) if a and a[0] == "ref*" else a)
    rets = [absint.deep(p.state, p.ret()) for p in absint.explore(f, 0, st, max_paths=20) if p.end[0] == "return"]
    if len(rets) == 1 and rets[0] and rets[0][0] == "agg":
        return rets[0]
    return None


def print_call_args(facts, state, e):
    """the arguments of a print event by role, whatever entry point was called and however they are bundled:
    {'writer': term, 'version': term, 'headers': term, 'suppress': term (the do-not-send-body flag), 'upgrade': term}"""
    import absint
    callee = facts.fns.get(e[2])
    args = [absint.deep(state, a) for a in e[3]]
    out = {}
    if callee is None:
        return out
    def put(ty, v):
        if ty == "bool":
            out.setdefault("suppress", v)
        elif HV in ty:
            out.setdefault("version", v)
        elif "common::Header" in ty:
            out.setdefault("headers", v)
        elif ty.startswith("std::option::Option<&") or "Option<&str>" in ty:
            out.setdefault("upgrade", v)
        elif ty == "W" or "dyn std::io::Write" in ty:
            out.setdefault("writer", v)
    for i, v in enumerate(args):
        if i == 0:
            continue
        ty = callee.local_ty(i + 1)
        a = facts.adts.get(re.sub(r"<.*$", "", re.sub(r"^&('\w+ )?(mut )?", "", ty)))
        if a is not None and a["kind"] == "Struct" and not ty.startswith("std::"):
            while v and v[0] == "ref*":
                v = v[1]
            if v and v[0] == "call":
                v = eval_constructor(facts, v) or v
        if a is not None and a["kind"] == "Struct" and not ty.startswith("std::") and v and v[0] == "agg":
            for fl in a["variants"][0]["fields"]:
                put(fl["ty"], v[3].get(fl["name"], ("unknown",)))
        elif a is not None and a["kind"] == "Struct" and not ty.startswith("std::") and v and v[0] == "call":
            # the bundle was built by a constructor function of another module (`PrintContext::bare(version)`): what can still be told
            # is which version went in
            for x in absint.walk_terms(v):
                if x and x[0] == "agg" and x[1] == HV:
                    out.setdefault("version", x)
                elif x and x[0] == "init" and False:
                    pass
            if "version" not in out:
                for x in v[2]:
                    out.setdefault("version", x)
                    break
        else:
            put(ty, v)
    return out


def private_to(facts, root_id, fid, seen=()):
    """is `fid` the function `root_id` itself, one of its closures, or a helper that is called from nowhere else (transitively)?"""
    if fid == root_id or fid.startswith(root_id + "::{closure"):
        return True
    if fid in seen:
        return False
    if "{closure" in fid:
        return private_to(facts, root_id, re.sub(r"::\{closure#\d+\}$", "", fid), seen + (fid,))
    callers = facts.callers_of(fid)
    return bool(callers) and all(private_to(facts, root_id, h.id, seen + (fid,)) for h, b2, t2 in callers)


def header_lookup_atom(facts, c):
    """Is the path condition c the outcome of looking a header up by name?  -> (name, found: bool) or None.
    Recognised: `iter().any(|h| h.field.equiv(NAME))` and friends; `iter().find / position / find_map / filter+next` with NAME in the closure;
    and a call of a function of the crate that takes the header list and the NAME and returns an Option / a bool (a shared lookup helper,
    whatever it is called and wherever it lives)."""
    import absint, framing_rules as FRM
    if not c:
        return None
    def helper_lookup(call):
        g = facts.fns.get(call[1])
        if g is None or not g.rec.get("local") or "{closure" in call[1]:
            return None
        ptys = [g.local_ty(i) for i in range(1, g.argc + 1)]
        if not any("common::Header" in t for t in ptys) or not any(re.search(r"&('\w+ )?str\b", t) for t in ptys):
            return None
        lits = [x for a in call[2] for x in absint.str_consts(a)]
        return lits[0] if len(set(lits)) == 1 else None
    def pure_name_tests(term):
        """every closure in the term decides on the header's NAME alone: each of its branches is taken on the answer of the name comparison
        (a closure that also looks at the value -- `equiv("Date") && parses(value)` -- finds something else than "the header of that name")"""
        for x in absint.walk_terms(term):
            if x and x[0] == "closure":
                g = facts.fns.get(x[1])
                if g is None:
                    return False
                for b in range(g.n):
                    t = g.term(b)
                    if g.blocks[b]["cleanup"] or t["t"] != "switch":
                        continue
                    o = g.origin(t["discr"])
                    while o[0] == "unop" and o[1] == "Not":
                        o = o[2]
                    if o[0] == "discr":
                        continue          # a match on an Option / enum inside the closure (e.g. on the item itself): not a second test
                    if not (o[0] == "call" and re.search(r"HeaderField::equiv$|eq_ignore_ascii_case$|PartialEq.*::eq$", o[1])):
                        return False
                if g.local_ty(0) == "bool":
                    # what a predicate answers is the name comparison itself or a constant (`a && b` answers b on one branch)
                    for d in g.defs().get(0, []):
                        if d[0] == "call":
                            if not re.search(r"HeaderField::equiv$|eq_ignore_ascii_case$|PartialEq.*::eq$", call_name(d[2])):
                                return False
                        elif d[0] == "assign":
                            o = g.origin_local(0) if False else (g.origin(d[3]["op"]) if d[3]["rv"] == "use" else ("unknown",))
                            while o[0] == "unop" and o[1] == "Not":
                                o = o[2]
                            if not (o[0] == "const" or (o[0] == "call" and re.search(r"HeaderField::equiv$|eq_ignore_ascii_case$|PartialEq.*::eq$", o[1]))):
                                return False
        return True
    if c[0] == "variant" and c[2] in ("Some", "None") and c[3]:
        h = absint.head_call(c[3])
        if h is not None:
            name = helper_lookup(h)
            if name is not None:
                return (name, c[2] == "Some")
            if re.search(r"Iterator>::(find|next|find_map|position)$", h[1]):
                lits = set(FRM.term_lits(facts, h))
                if len(lits) == 1 and pure_name_tests(h):
                    return (lits.pop(), c[2] == "Some")
    if c[0] == "scalar" and isinstance(c[2], bool):
        v, val = c[1], c[2]
        while v and v[0] == "unop" and v[1] == "Not":
            v, val = v[2], not val
        if v and v[0] == "call":
            name = helper_lookup(v)
            if name is not None and facts.fns[v[1]].local_ty(0) == "bool":
                return (name, val)
            if re.search(r"Iterator>::any$|Iterator>?::any(::<|$)", v[1]):
                lits = set(FRM.term_lits(facts, v))
                if len(lits) == 1 and pure_name_tests(v):
                    return (lits.pop(), val)
    return None
