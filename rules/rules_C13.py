"""C13 — behaviour depends on the bytes sent, not on how they were segmented."""
import re
from core import *  # noqa
from roles import *  # noqa
import roles, shared, symex

EXPLANATION = (
    "Short-read discipline decided by classifying every Read::read / read_vectored call site of the crate by what happens to the returned count "
    "(necessary conditions of segmentation independence, not the metamorphic equality itself): PASS-THROUGH (a Read impl returning the inner count), "
    "ACCUMULATE-LOOP (count added to an offset / subtracted from a remainder that controls the loop, zero leaves through an EOF/error edge), "
    "DRAIN-LOOP (a destructor looping until 0 or error), BYTE-ITER (bytes().next() with loop-carried parser state); any other use — count ignored, "
    "compared once with the wanted length, buffer assumed full — is a violation. Plus: one BufReader per connection travelling through the reader "
    "chain, read buffers are returned whole / moved into the Request / discarded only by design, and the line parser's state is initialised outside its loop.")
TRUSTED = ["rustc MIR", "BufReader keeps unread bytes for the next reader of the chain"]


def classify(facts, g, bb, t):
    """-> (class, detail) for a Read::read / read_vectored call"""
    dl = t["dest"]["l"] if not t["dest"]["p"] else None
    is_read_impl = g.rec.get("impl_trait") == T_READ and g.rec["name"] in ("read", "read_vectored")
    # values derived from the returned count
    def derived_from_count(o):
        return any(x[0] == "call" and x[3] == bb for x in origin_walk(o))
    if is_read_impl:
        # path-wise: on every path through this site that returns Ok(v), v is the count some inner read returned on that path;
        # paths that touch no inner reader may only return Ok(0) (the end-of-stream stub) or an error
        import absint
        INNER = ("std::io::Read::read", "std::io::Read::read_vectored")
        ps = [p for p in absint.explore(g, 0, None, max_paths=2000) if p.end[0] == "return"]
        mine = other = 0
        why = None
        for p in ps:
            r = absint.deep(p.state, p.ret())
            inner = [e for e in p.calls() if e[6] in INNER]
            here = [e for e in inner if e[0] == bb]
            if r and r[0] == "agg" and r[2] == "Err":
                continue
            if r and r[0] == "call" and re.search(r"FromResidual<.*>>::from_residual$|::from_residual$", r[1]):
                continue        # `?` in a body whose std combinators are not spliced in: an error return
            if inner and any(absint.mentions_call(r, e[4]) for e in inner):
                mine += 1 if here else 0
            elif not inner and r and r[0] == "agg" and r[2] == "Ok" and absint.const_of(r[3]["0"]) == 0:
                pass
            else:
                other += 1; why = "returns %s, not a count an inner read returned on that path" % symex_str(r)
        if mine and not other and not any(p.end[0] == "cut" for p in ps):
            return "PASS-THROUGH", "returns the inner reader's count"
        return None, "a Read impl whose result does not derive from the inner count (%d derived, %d other%s)" % (mine, other, "; " + why if why else "")
    if g.in_loop(bb) and dl is not None:
        # the count flows into + / - on a loop-controlling variable, or is only tested for 0/Err
        uses = []
        sl = {dl}
        work = [dl]
        arith = False
        zero_test = False
        while work:
            l = work.pop()
            for u in g.uses().get(l, []):
                if u[0] == "stmt":
                    r = u[3]["rhs"]
                    if r["rv"] == "binop" and r["op"] in ("Add", "Sub", "AddWithOverflow", "SubWithOverflow"):
                        arith = True
                    if r["rv"] == "binop" and r["op"] in ("Eq", "Ne") and 0 in (op_const(r["a"]), op_const(r["b"])):
                        zero_test = True
                    tl = u[3]["lhs"]["l"]
                    if tl not in sl:
                        sl.add(tl); work.append(tl)
                elif u[0] == "term" and u[2]["t"] == "switch":
                    if u[2]["dty"] not in ("bool", "isize"):
                        zero_test = True    # `match n { 0 => .., _ => .. }`
                elif u[0] == "term" and u[2]["t"] == "call" and re.search(r"Try>?::branch$", call_name(u[2])):
                    tl = u[2]["dest"]["l"]
                    if tl not in sl:
                        sl.add(tl); work.append(tl)
        # loop guard mentions an accumulated local
        if arith and zero_test:
            return "ACCUMULATE-LOOP", "count accumulated into the loop-controlling offset/remainder; 0 leaves through EOF/error"
        in_destructor = g.rec.get("impl_trait") == T_DROP or only_from_destructors(facts, g.id)
        if zero_test and not arith and in_destructor:
            return "DRAIN-LOOP", "destructor loops until 0 or error"
        if in_destructor and not arith:
            # `while !self.finished { let _ = self.read(&mut scratch); }`: the type's own read keeps the end-of-body latch the loop tests
            recv = g.origin(t["args"][0])
            own = any(x == ("arg", 1) for x in origin_walk(recv)) and not origin_fields(recv)
            dom = g.dominators(False)
            guarded = False
            for b2 in dom[bb]:
                bs = bool_switch(g, b2)
                if bs and g.in_loop(b2) and origin_fields(g.origin(bs[0])) and any(x == ("arg", 1) for x in origin_walk(g.origin(bs[0]))):
                    guarded = True
            if own and guarded:
                return "DRAIN-LOOP", "destructor drains through the type's own read until its end-of-body flag is set"
        if arith and not zero_test:
            return None, "count accumulated but a zero-length read (EOF) is not handled: the loop cannot end on a closed connection"
        return None, "count neither accumulated nor tested"
    return None, "single read whose count does not become this function's own Read result: a short read would be treated as a full one"


from shared import lift_site  # noqa


def symex_str(v):
    import symex
    return symex.sym_str(v)[:60]



def only_from_destructors(facts, fid, seen=()):
    """is the function a helper that nothing but destructors (and helpers of that kind) can call?  (it is not nameable from outside the crate)"""
    g = facts.fns.get(re.sub(r"(::\{closure#\d+\})+$", "", fid))
    if g is None or fid in seen or g.rec.get("exported", g.rec.get("vis_pub")) or g.rec.get("impl_trait") is not None:
        return False
    callers = facts.callers_of(g.id)
    return bool(callers) and all(h.rec.get("impl_trait") == T_DROP or only_from_destructors(facts, h.id, seen + (fid,)) for h, b2, t2 in callers)


def run(ctx):
    facts = ctx.facts
    roles.bind(facts)
    raw_sites = [(g, bb, t) for g, bb, t in facts.all_calls(lambda t: t.get("callee") in ("std::io::Read::read", "std::io::Read::read_vectored"))]
    sites = []
    for g, bb, t in raw_sites:
        for R, b in shared.lift_sites(facts, g, bb, std=True):
            sites.append((R, b, R.term(b)))
    # reads of the APPLICATION's response body (the reader stored in a Response) are not reads of client bytes: how that reader
    # segments its data is the application's business, not this property's
    import response_rules as RSP
    RMOD = RSP.resp_model(facts)
    def app_body_read(g, bb, t):
        o = g.origin(t["args"][0])
        root = facts.fns.get(g.id)
        return RMOD.reader_f in origin_fields(o) and any(x == ("arg", 1) for x in origin_walk(o)) and root is not None and root.rec.get("impl_self_adt") == RESP
    skipped = [(g, bb) for g, bb, t in sites if app_body_read(g, bb, t)]
    sites = [(g, bb, t) for g, bb, t in sites if not app_body_read(g, bb, t)]
    ctx.counts["C13.1 reads of the application's response body (not client bytes, not judged)"] = len(skipped)
    ctx.floor("C13.1 Read::read call sites", len(sites), 6)
    classes = collections.Counter()
    for g, bb, t in sites:
        ctx.touch(g, calls=1)
        c, why = classify(facts, g, bb, t)
        classes[c or "UNCLASSIFIED"] += 1
        k = sum(1 for g2, b2, t2 in sites if g2.id == g.id and b2 < bb)
        ctx.ob("C13.1", "%s|read|%d" % (g.id, k), "every short read is handled: the count returned by Read::read is passed through, accumulated in a loop, or drives a drain loop",
               c is not None, g.loc(bb), "%s: %s" % (c, why) if c else why)
    ctx.counts["C13.1 classes"] = dict(classes)
    # byte iterators
    bsites = [(g, bb, t) for g, bb, t in facts.all_calls(lambda t: t.get("callee") == "std::io::Read::bytes")]
    import parser_rules as PRS
    rnl = PRS.pmodel(facts).line_reader()
    for g, bb, t in bsites:
        ok = g.id == rnl.id and bytes_next_in_loop(g)
        ctx.ob("C13.1", "%s|bytes" % g.id, "byte-wise reading happens only in the line reader's loop", ok, g.loc(bb))
    # exact / to_end readers are segmentation-independent by contract; list them
    for g, bb, t in facts.all_calls(lambda t: t.get("callee") in ("std::io::Read::read_exact", "std::io::Read::read_to_end", "std::io::Read::read_to_string")):
        ctx.ob("C13.1", "%s|%s" % (g.id, t["name"]), "read_exact / read_to_end loop internally (segmentation independent)", True, g.loc(bb), nontrivial=False)

    # ---- C13.2 buffers
    cc_ctor = sorted({g_.id for g_, b_, s_ in facts.constructions(CC)})
    brs = [(g, bb) for g, bb, t in facts.all_calls(lambda t: call_matches(t, r"^std::io::BufReader::<R>::(new|with_capacity)$"))]
    ctx.ob("C13.2", "one-bufreader", "one BufReader per connection, created where the ClientConnection is built", len(brs) == 1 and (brs[0][0].id in cc_ctor or any(shared.private_to(facts, c_, brs[0][0].id) for c_ in cc_ctor)), facts.adt(CC)["file"])
    if brs:
        g, bb = brs[0]
        t = g.term(bb)
        # it is what the reader chain carries
        srb_new = [(b2, t2) for b2, t2 in g.calls() if call_matches(t2, r"SequentialReaderBuilder::<R>::new$")]
        ok = bool(srb_new) and any(x[0] == "call" and x[3] == bb for x in origin_walk(g.origin(srb_new[0][1]["args"][0])))
        ctx.ob("C13.2", "%s|chain-carries-bufreader" % g.id, "the buffered reader itself is what the per-request readers hand to each other (bytes read ahead are never lost with a request)", ok, g.loc(bb))
    for g, bb, t in sites:
        if g.rec.get("impl_trait") == T_READ:
            continue
        o = g.origin(t["args"][1])
        fe = [x for x in origin_calls(o) if re.search(r"vec::from_elem|Vec::<T>::(new|with_capacity)$", x[1])] or [x for x in origin_walk(o) if x[0] == "repeat"]
        if g.rec.get("impl_trait") == T_DROP or only_from_destructors(facts, g.id):
            ok, what = True, "discarded by design (destructor of a body reader, or a helper only destructors call)"
        elif g.id == "request::new_request":
            # decided on the framing model: on every path that builds a buffered body, the buffer the reads filled is the one the body reader wraps
            import framing_rules as FRM, absint
            FM = FRM.fmodel(facts)
            rows = [r for r in FM.rows if r["kind"] == "ok" and r["reads"] > 0]
            ok = bool(rows)
            what = "moved into the request's body reader"
            for r in rows:
                p = r["path"]
                allocs = [e for e in p.calls() if re.search(r"vec::from_elem|Vec::<T>::with_capacity$|Vec::<T>::new$", e[2])]
                reads = [e for e in p.calls() if (e[6] or "").startswith("std::io::Read::read")]
                cur = [e for e in p.calls() if re.search(r"std::io::Cursor::<T>::new$", e[2])]
                good = False
                for a in allocs:
                    if all(any(absint.mentions_call(absint.deep(p.state, x), a[4]) or (d is not None and absint.mentions_call(d, a[4])) for x, d in zip(e[3], e[5])) for e in reads) and \
                            any(absint.mentions_call(absint.deep(p.state, x), a[4]) for e in cur for x in e[3]):
                        good = True
                if not good or r["reader"] != "buffer":
                    ok, what = False, "a locally filled buffer is not what the body reader wraps"
        else:
            # the buffer must be moved into the value handed on (Cursor -> Request)
            bl = shared.backward_slice_locals(g, [op_local(t["args"][1])])
            vecs = [l for l in bl if g.local_ty(l) == "std::vec::Vec<u8>"]
            moved = False
            for l in vecs:
                for u in g.uses().get(l, []):
                    if u[0] == "term" and u[2]["t"] == "call" and call_matches(u[2], r"std::io::Cursor::<T>::new$"):
                        moved = True
                    if u[0] == "stmt" and u[4] == "move":
                        l2 = u[3]["lhs"]["l"]
                        for u2 in g.uses().get(l2, []):
                            if u2[0] == "term" and u2[2]["t"] == "call" and call_matches(u2[2], r"std::io::Cursor::<T>::new$"):
                                moved = True
            ok, what = moved, "moved into the request's body reader" if moved else "a locally filled buffer is not handed on"
        ctx.ob("C13.2", "%s|buffer" % g.id, "bytes read from the socket into a local buffer are handed on whole (or discarded only by a draining destructor)", ok, g.loc(bb), what)

    # a discarding loop must not take bytes beyond the body it discards: whether it would depends on how much of the
    # following message has already arrived, i.e. on segmentation
    import drain_rules as DR
    sz = shared.size_init(facts, ER)
    ctx.require(sz is not None, "C13.2: remaining-size field of the length-limited reader")
    # ... and must take all of it however it arrives: a drain that gives up after a number of reads, or on a short read, ends in the
    # middle of the body when the client's bytes come in small pieces
    DR.owed_rules(ctx, "C13.2", ER, sz, rules={"bounded": ["C13.2"], "complete": ["C13.2"]})

    # ---- C13.3 loop-carried parser state in the line reader
    line_reader_rules(ctx, facts, "C13.3")

    # ---- C13.5 nothing is decided on how much of the stream happens to be buffered already: outside the line reader (whose reading style is
    # judged on its own) the crate never inspects a read buffer (`BufReader::buffer`, `fill_buf`, `consume`, `capacity`)
    import parser_rules as PRS_
    lr_ = PRS_.pmodel(facts).line_reader()
    lr_fns = {lr_.id} | {k for k in facts.local_fns if k.startswith(lr_.id + "::{closure")}
    peeks = [(g, bb, t) for g, bb, t in facts.all_calls(lambda t: bool(re.search(r"^std::io::BufReader::<R>::(buffer|capacity)$", call_name(t))) or t.get("callee") in ("std::io::BufRead::fill_buf", "std::io::BufRead::consume", "std::io::BufRead::has_data_left"))
             if g.id not in lr_fns and not g.id.startswith("test")]
    for g, bb, t in peeks:
        ctx.ob("C13.5", "buffer-inspected|%s" % g.id, "no code outside the line reader looks at what is already buffered", False, g.loc(bb), short(call_name(t)))
    ctx.ob("C13.5", "no-buffer-inspection", "nothing outside the line reader inspects a read buffer's fill state", not peeks, "crate", nontrivial=True)

    # ---- C13.4 pauses between the client's writes change nothing: no read on a client socket can give up because time passed.  The sockets
    # are never given a timeout and never switched to non-blocking mode (a timed-out read surfaces as an I/O error that ends the request
    # or the connection, so how the bytes are spaced in time would decide what the application sees)
    tm = [(g, bb, t) for g, bb, t in facts.all_calls(lambda t: bool(re.search(r"^std::(net::(TcpStream|TcpListener)|os::unix::net::(UnixStream|UnixListener))::(set_read_timeout|set_write_timeout|set_nonblocking)$", call_name(t))))]
    for g, bb, t in tm:
        a = t["args"][1] if len(t["args"]) > 1 else None
        o = g.origin(a) if a is not None else ("unknown",)
        harmless = (o[0] == "agg" and o[4] == "None") or (o[0] == "const" and o[1] is False)
        ctx.ob("C13.4", "socket-timeout|%s" % g.id, "no timeout is armed on a socket and none is made non-blocking", harmless, g.loc(bb), short(call_name(t)))
    ctx.ob("C13.4", "no-socket-timeouts", "the crate never arms a read/write timeout on a socket and never makes one non-blocking", not [x for x in tm if True] or all(o.ok for o in ctx.obs if o.key.startswith("C13.4|socket-timeout|")), "crate", nontrivial=True)
    ctx.counts["C13.4 call sites scanned"] = sum(1 for _ in facts.all_calls())
    # ---- C13.6 the parse-time read of a small body is segmentation independent: it is repeated until the declared length has arrived,
    # and nothing is read when nothing is owed (a read "to see" blocks until the client's next segment) -- the pre-read rule of C03.3, taken over
    import rules_C03
    try:
        rules_C03.preread_rules(ctx, "C13.6")
    except CheckerError as e:
        raise CheckerError("C13.6 (the parse-time read of small bodies could not be evaluated): %s" % e)
    return {}


def bytes_next_in_loop(f):
    """the byte iterator is advanced inside a loop (whether it is created once before the loop or anew in every round makes no difference:
    std::io::Bytes holds no buffer, each `next` is one read of one byte)"""
    return any(f.in_loop(bb) for bb, t in f.calls() if t.get("callee") == "std::iter::Iterator::next" and re.search(r"^<std::io::Bytes<", call_name(t)))


def line_reader_rules(ctx, facts, RULE):
    """the line reader assembles a line byte by byte: one buffer created before the loop, the `previous byte was CR`
    state carried across iterations, every byte kept until the terminator"""
    import parser_rules as PRS
    rnl = PRS.pmodel(facts).line_reader()
    f = rnl
    ctx.touch(f)
    bsites = [(bb, t) for bb, t in f.calls() if t.get("callee") == "std::io::Read::bytes"]
    std_lines = [bb for bb, t in f.calls() if t.get("callee") in ("std::io::BufRead::read_until", "std::io::BufRead::read_line")]
    hand_rolled = [bb for bb, t in f.calls() if t.get("callee") in ("std::io::Read::read", "std::io::BufRead::fill_buf", "std::io::BufRead::consume")]
    ok_bytes = len(bsites) == 1 and bytes_next_in_loop(f) and not hand_rolled
    ok_std = bool(std_lines) and not hand_rolled and not bsites
    ctx.ob(RULE, "%s|byte-wise" % f.id, "the line reader takes its input one byte at a time, or through std's read_until (it can neither split a line at a buffer edge nor swallow the start of the next one)",
           ok_bytes or ok_std, "%s:%d" % (f.file, f.line), None if (ok_bytes or ok_std) else "hand-written scanning of buffered chunks: a CR LF pair straddling two buffer fills cannot be shown to be handled")
    if ok_std:
        return
    vnew = [bb for bb, t in f.calls() if call_matches(t, r"^std::vec::Vec::<T>::(new|with_capacity)$")]
    ok = bool(vnew) and all(not f.in_loop(b) for b in vnew)
    ctx.ob(RULE, "%s|line-buffer-outside-loop" % f.id, "the line buffer is created once, before the byte loop (a line split across reads is not lost)", ok, "%s:%d" % (f.file, f.line))
    # the CR flag: a bool local with one constant definition outside the loop and one computed definition inside it
    okf = False
    for i, l in enumerate(f.locals):
        if l["ty"] != "bool" or i in f.flag_locals() or i <= f.argc:
            continue
        defs = [d for d in f.defs().get(i, []) if d[0] == "assign"]
        outside = [d for d in defs if not f.in_loop(d[1]) and d[3]["rv"] == "use" and op_const(d[3]["op"]) is False]
        inside = [d for d in defs if f.in_loop(d[1]) and d[3]["rv"] == "binop" and d[3]["op"] == "Eq" and 13 in (op_const(d[3]["a"]), op_const(d[3]["b"]))]
        const_inside = [d for d in defs if f.in_loop(d[1]) and d[3]["rv"] == "use" and isinstance(op_const(d[3]["op"]), bool)]
        if outside and inside and not const_inside:
            okf = True
    ctx.ob(RULE, "%s|cr-state-loop-carried" % f.id, "`previous byte was CR` is carried across iterations (initialised before the loop, updated from each byte, never reset inside)", okf, "%s:%d" % (f.file, f.line))
    pushes = [bb for bb, t in f.calls() if call_matches(t, r"Vec::<T(, A)?>::push$")]
    ok = bool(pushes) and all(f.in_loop(b) for b in pushes)
    ctx.ob(RULE, "%s|every-byte-kept" % f.id, "every byte read is appended to the line buffer until the terminator", ok, "%s:%d" % (f.file, f.line))
    # ... and nothing but the CR of the terminator is taken out again: one single-byte removal per line, not a loop that strips further bytes
    # (whitespace at the end of a line is part of the line: ` CRLF` is a malformed header line, not the empty line that ends the head)
    nexts = {bb for bb, t in f.calls() if t.get("callee") == "std::iter::Iterator::next" and re.search(r"^<std::io::Bytes<", call_name(t))}
    removers = [(bb, t) for bb, t in f.calls() if call_matches(t, r"Vec::<T(, A)?>::(pop|truncate|retain|drain|remove|swap_remove|clear|split_off|dedup\w*)$|String::(pop|truncate|retain|drain|remove|clear)$|<impl str>::trim\w*$|<impl \[T\]>::trim_ascii\w*$")]
    bad = []
    for bb, t in removers:
        nm = short(call_name(t))
        if not re.search(r"::pop$", call_name(t)):
            bad.append("%s on the line buffer" % nm)
        elif bb in f.reach([f.normal_target(bb)], blocked=nexts, unwind=False):
            bad.append("pop repeated without reading another byte (strips more than the CR)")
    if len([1 for bb, t in removers if re.search(r"::pop$", call_name(t))]) > 1:
        bad.append("more than one removal site")
    ctx.ob(RULE, "%s|only-cr-removed" % f.id, "the line handed on is the line as received: only the CR of the terminating CRLF is removed from it", not bad, "%s:%d" % (f.file, f.line), None if not bad else str(bad[:3]))
    return {}


def run_thorough(ctx):
    """the same short-read classification inside chunked_transfer::Decoder (generic MIR of the dependency)"""
    facts = ctx.facts
    n = 0
    for k, g in sorted(facts.fns.items()):
        if g.rec.get("local") or not re.search(r"chunked_transfer::(decoder::)?Decoder", k):
            continue
        sites = [(bb, t) for bb, t in g.calls() if t.get("callee") in ("std::io::Read::read", "std::io::Read::read_vectored")]
        for i, (bb, t) in enumerate(sites):
            n += 1
            ctx.touch(g, calls=1)
            # generic extern bodies carry no impl metadata: recognise `<.. as Read>::read` by name
            rec = dict(g.rec)
            if re.search(r" as std::io::Read>::read$", k):
                g.rec["impl_trait"] = T_READ
                g.rec["name"] = "read"
            c, why = classify(facts, g, bb, t)
            g.rec.clear(); g.rec.update(rec)
            ctx.ob("C13.1", "[dep]%s|read|%d" % (k, i), "every short read inside the chunk decoder is handled (count passed through)", c is not None, g.loc(bb), "%s: %s" % (c, why) if c else why)
    ctx.floor("C13.1(thorough) reads inside the chunk decoder", n, 2)
    return {"decoder_reads_classified": n}
