"""The Request's public API evaluated by abstract path exploration (each method with the private helpers of its file and the small
std combinators spliced in), started with the response slot / the body-reader slot / the 100-continue flag bound to the values the
question is about.  Nothing depends on how the methods are split into helpers or on how the slots are grouped into sub-structs."""
import re
from core import *  # noqa
from roles import *  # noqa
import roles, shared, symex, inline, absint
import queue_rules as Q

WRITER = ("sym", "the-response-writer")
READER = ("sym", "the-body-reader")
RESPONSE = ("sym", "the-application's-response")
DEAD = ("diverge", "resume", "terminate", "unreachable")
RAW_PRINT = r"response::Response::<R>::raw_print$"


class RequestModel:
    def __init__(self, facts):
        self.facts = facts
        a = facts.adt(REQ)
        self.file = a["file"]
        same = lambda d: facts.fns[d].rec.get("local") and facts.fns[d].file == self.file
        self.same = same
        w = shared.find_slot_paths(facts, REQ, r"Option<std::boxed::Box<.?dyn std::io::Write")
        r = shared.find_slot_paths(facts, REQ, r"Option<std::boxed::Box<.?dyn std::io::Read")
        if len(w) != 1 or len(r) != 1:
            raise CheckerError("request rules: writer / reader slots of Request not found (%s / %s)" % (w, r))
        self.wslot, self.rslot = w[0], r[0]
        self.methods = {f.rec["name"]: f for k, f in facts.local_fns.items() if f.rec.get("impl_self_adt") == REQ and f.rec.get("impl_trait") is None}
        self.drop = method(facts, T_DROP, REQ, "drop")
        self._inl = {}
        # what counts as printing a response: any of the Response's printing entry points
        global RAW_PRINT
        RAW_PRINT = shared.printer_rx(facts)

    def key(self, base, path):
        return tuple(base) + tuple("." + x for x in path)

    def fn(self, f):
        if f.id not in self._inl:
            facts = self.facts
            self._inl[f.id] = inline.inlined(facts, f.id, stop=lambda d: facts.fns[d].rec.get("local") and not self.same(d), extern_ok=Q.std_small)
        return self._inl[f.id]

    def self_base(self, f):
        """place key of `self` as the method sees it: (1,) for by-value self, (1, '*') for &self / &mut self"""
        return (1, "*") if f.locals[1]["ty"].startswith("&") else (1,)

    def run(self, f0, writer="some", reader="some", extra=None, max_paths=6000, on_call=None):
        f = self.fn(f0)
        st = symex.Sym(f)
        base = self.self_base(f0)
        if writer is not None:
            st.write_key(self.key(base, self.wslot), ("some", WRITER) if writer == "some" else ("none",))
        if reader is not None:
            st.write_key(self.key(base, self.rslot), ("some", READER) if reader == "some" else ("none",))
        for k, v in (extra or {}).items():
            st.write_key(k, v)
        def on_drop(bb, t, st2):
            # for a whole Request that is being destroyed: what its response slot holds at that moment
            if t.get("ty") == REQ:
                k = st2.resolve_key(pl_key(t["pl"]))
                return absint.deep(st2, st2.read_key(self.key(k, self.wslot)))
            return None
        return f, [p for p in absint.explore(f, 0, st, max_paths=max_paths, on_drop=on_drop, deep_events=True, on_call=on_call) if p.end[0] not in DEAD]

    def slot_at_end(self, f0, p, path):
        return absint.deep(p.state, p.state.read_key(self.key(self.self_base(f0), path)))

    @staticmethod
    def prints(p):
        return [(i, e) for i, e in enumerate(p.events) if e[1] == "call" and re.search(RAW_PRINT, e[2])]

    @classmethod
    def final_prints(cls, p):
        """the prints of a FINAL response: an interim one (a library-built response whose status is a 1xx constant, `100 Continue`) is not an answer"""
        out = []
        for i, e in cls.prints(p):
            sc = cls.status_consts(p, e)
            if sc and all(100 <= c <= 199 for c in sc) and not cls.arg_mentions(p, e, 0, RESPONSE):
                continue
            out.append((i, e))
        return out

    @staticmethod
    def arg_mentions(p, e, k, needle):
        a = e[3][k] if len(e[3]) > k else None
        d = e[5][k] if len(e[5]) > k else None
        x = e[8][k] if len(e) > 8 and e[8] and len(e[8]) > k else None
        return (a is not None and absint.contains(absint.deep(p.state, a), needle)) or (d is not None and absint.contains(d, needle)) or (x is not None and absint.contains(x, needle))

    @staticmethod
    def status_consts(p, e):
        """integer constants in 100..599 inside the response argument of a raw_print event"""
        out = set()
        for v in (e[3][0] if e[3] else None, e[5][0] if e[5] else None):
            if v is None:
                continue
            for x in absint.walk_terms(absint.deep(p.state, v)):
                c = absint.const_of(x) if x and x[0] == "const" else None
                if isinstance(c, int) and not isinstance(c, bool) and 100 <= c <= 599:
                    out.add(c)
        return out


def rmodel(facts):
    if not hasattr(facts, "_request_model"):
        facts._request_model = RequestModel(facts)
    return facts._request_model


def request_drops(p):
    """drop events of a whole Request value on the path: [(index, value at that time)]"""
    return [(i, e[5]) for i, e in enumerate(p.events) if e[1] == "drop" and e[2] == REQ]
