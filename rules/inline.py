"""Virtual inlining: build, for a root function, ONE body in which the bodies of its crate-local callees (helpers,
private methods, directly called closures) are spliced in at their call sites, recursively.

Why: the rules ask questions about paths ("every path from the wake-up to the return pops the queue", "the 505 arm
answers through the request's own writer").  Where the code of such a path lives -- in one function or spread over
helpers a maintainer extracted -- is not part of any property.  All per-function machinery (CFG, dominators, origin trees,
PathSim, symex, ownership dataflow) then works across the helper boundary unchanged.

The result is an ordinary `Fn` whose blocks carry where they came from:
    block["src"]  = def path of the function the block was copied from
    block["inst"] = instance id of that copy (None when the callee was resolved syntactically)
    block["obb"]  = block index in the original body
    block["file"] = source file of the original body
    a call block that was inlined keeps its original terminator under block["inl_call"] (already renumbered)
Resolution of callees uses the monomorphic call graph (edges of the *instance* at that block), so calls through
type parameters (`R::read`) inside generic helpers resolve to what they are for this root.

Not inlined: recursion, functions without MIR, anything the `stop` predicate names, anything beyond `max_depth`,
non-local callees unless `extern_ok` says so.  A callee that is not inlined stays an ordinary call.
"""
import copy, re
from core import Fn, CheckerError

MAX_BLOCKS = 20000


def _ren_place(p, lb):
    q = {"l": p["l"] + lb, "p": p["p"]}
    if any(isinstance(e, dict) and "i" in e for e in p["p"]):
        q["p"] = [dict(e, i=e["i"] + lb) if isinstance(e, dict) and "i" in e else e for e in p["p"]]
    return q


def _ren_op(o, lb, pb):
    if not isinstance(o, dict):
        return o
    k = o.get("k")
    if k in ("copy", "move"):
        return dict(o, pl=_ren_place(o["pl"], lb))
    if k == "const" and "promoted" in o:
        return dict(o, promoted=o["promoted"] + pb)
    return o


def _ren_rv(r, lb, pb):
    r = dict(r)
    if "pl" in r:
        r["pl"] = _ren_place(r["pl"], lb)
    if r["rv"] in ("use", "repeat", "cast"):
        r["op"] = _ren_op(r["op"], lb, pb)
    elif r["rv"] in ("binop", "unop"):
        # NB: for binop/unop "op" is the operator name (a string)
        if "a" in r:
            r["a"] = _ren_op(r["a"], lb, pb)
        if "b" in r:
            r["b"] = _ren_op(r["b"], lb, pb)
    elif r["rv"] == "agg":
        r["ops"] = [_ren_op(o, lb, pb) for o in r["ops"]]
    return r


def _ren_stmt(s, lb, pb):
    k = s["s"]
    if k == "assign":
        return dict(s, lhs=_ren_place(s["lhs"], lb), rhs=_ren_rv(s["rhs"], lb, pb))
    if k == "setdiscr":
        return dict(s, lhs=_ren_place(s["lhs"], lb))
    if k in ("live", "dead"):
        return dict(s, l=s["l"] + lb)
    return s


def _ren_term(t, lb, bb0, pb, unwind_to):
    t = dict(t)
    k = t["t"]
    def B(x):
        return x + bb0
    def U(u):
        if isinstance(u, int):
            return u + bb0
        if u == "continue" and unwind_to is not None:
            return unwind_to
        return u
    if k == "goto":
        t["target"] = B(t["target"])
    elif k == "switch":
        t["discr"] = _ren_op(t["discr"], lb, pb)
        t["targets"] = [[v, B(b)] for v, b in t["targets"]]
        t["otherwise"] = B(t["otherwise"])
    elif k == "drop":
        t["pl"] = _ren_place(t["pl"], lb)
        t["target"] = B(t["target"])
        t["unwind"] = U(t["unwind"])
    elif k == "call":
        t["args"] = [_ren_op(a, lb, pb) for a in t["args"]]
        if "fnop" in t:
            t["fnop"] = _ren_op(t["fnop"], lb, pb)
        t["dest"] = _ren_place(t["dest"], lb)
        if t.get("target") is not None:
            t["target"] = B(t["target"])
        t["unwind"] = U(t["unwind"])
    elif k == "assert":
        t["cond"] = _ren_op(t["cond"], lb, pb)
        t["target"] = B(t["target"])
        t["unwind"] = U(t["unwind"])
    return t


class Inliner:
    def __init__(self, facts, stop=None, max_depth=8, extern_ok=None, closures=True):
        self.facts = facts
        self.stop = stop            # predicate(def_path) -> True: keep as a call
        self.max_depth = max_depth
        self.extern_ok = extern_ok  # predicate(def_path) for non-local callees that may be inlined
        self.closures = closures
        self.locals = []
        self.blocks = []
        self.promoted = []
        self.inlined = []           # (depth, def path) in splice order
        self.skipped = {}           # def path -> reason (callees left as calls)
        self.shim_mode = None

    def may_inline(self, d, depth, stack):
        g = self.facts.fns.get(d)
        if g is None:
            return "no MIR"
        if d in stack:
            return "recursive"
        if depth > self.max_depth:
            return "depth"
        if self.stop and self.stop(d):
            return "stop"
        if not g.rec.get("local") and not (self.extern_ok and self.extern_ok(d)):
            return "extern"
        if "{closure#" in d and not self.closures:
            return "closure"
        return None

    def resolve(self, inst, obb, t):
        """(def path, instance or None) of the callee of call terminator t at original block obb"""
        if inst is not None:
            for e in inst.get("edges", []):
                if e["bb"] == obb and e["k"] == "call" and e.get("to") is not None:
                    ci = self.facts.instances[e["to"]]
                    if ci and ci.get("kind") == "item":
                        return ci["def"], ci
                    if ci and ci.get("kind") in ("fnptr_shim", "closure_once_shim", "reify_shim"):
                        # `<fn item as FnOnce>::call_once`, a by-value call of a by-ref closure, ...: a shim around exactly one callee
                        tos = [e2["to"] for e2 in ci.get("edges", []) if e2["k"] == "call" and e2.get("to") is not None and not e2.get("cleanup")]
                        if len(tos) == 1:
                            c2 = self.facts.instances[tos[0]]
                            if c2 and c2.get("kind") == "item":
                                self.shim_mode = "spread_ref" if ci["kind"] == "closure_once_shim" else ("spread" if ci["kind"] == "fnptr_shim" else None)
                                return c2["def"], c2
                    return None, None
            # the instance has no resolved edge here (virtual, fn pointer, intrinsic): leave as a call
            return None, None
        d = t.get("res") or t.get("callee")
        if d and (t.get("res_kind") in (None, "item")):
            return d, None
        return None, None

    def splice(self, d, inst, depth, stack, unwind_to, site_stack=()):
        g = self.facts.fns[d]
        raw = g.mir
        rblocks = raw["blocks"]
        lb = len(self.locals)
        for l in raw["locals"]:
            self.locals.append(dict(l, src=d) if depth else l)
        bb0 = len(self.blocks)
        pb = len(self.promoted)
        self.promoted.extend(g.promoted)
        if len(self.blocks) + len(rblocks) > MAX_BLOCKS:
            raise CheckerError("inlined body too large at %s" % d)
        iid = inst["id"] if inst else None
        for i, b in enumerate(rblocks):
            nb = {"cleanup": b["cleanup"], "stmts": [_ren_stmt(s, lb, pb) for s in b["stmts"]],
                  "term": _ren_term(b["term"], lb, bb0, pb, unwind_to), "src": d, "inst": iid, "obb": i, "file": raw["file"], "depth": depth, "sites": site_stack}
            self.blocks.append(nb)
        self.inlined.append((depth, d))
        for i, b in enumerate(rblocks):
            t = b["term"]
            if t["t"] != "call" or t.get("target") is None:
                continue
            self.shim_mode = None
            cd, ci = self.resolve(inst, i, t)
            shim_mode = self.shim_mode
            if cd is None:
                continue
            if shim_mode is None and ci is not None and (t.get("res") != cd):
                # a call the generic body could not name (through a type parameter): record what it is for this instantiation
                nb0 = self.blocks[bb0 + i]
                nb0["term"] = dict(nb0["term"], res=cd, res_name=ci.get("name"))
            why = self.may_inline(cd, depth + 1, stack + [d])
            if why:
                if why != "no MIR":
                    self.skipped[cd] = why
                if shim_mode is not None:
                    # `<fn item as FnOnce>::call_once(f, (args,))` of a callee that stays a call: show the real callee
                    nb = self.blocks[bb0 + i]
                    nb["term"] = dict(nb["term"], res=cd, callee=cd, name=cd.rsplit("::", 1)[-1], via_shim=True)
                continue
            cg = self.facts.fns[cd]
            craw = cg.mir
            nb = self.blocks[bb0 + i]
            nt = nb["term"]
            args = nt["args"]
            argc = craw["argc"]
            clb_next = len(self.locals)
            # argument passing
            pre = []
            line = nt.get("line", 0)
            def asg(dst, op):
                pre.append({"s": "assign", "line": line, "exp": bool(nt.get("exp")), "lhs": {"l": dst, "p": []}, "rhs": {"rv": "use", "op": op}, "inl_arg": True})
            rust_call = t.get("callee") in ("std::ops::FnOnce::call_once", "std::ops::FnMut::call_mut", "std::ops::Fn::call")
            if shim_mode == "spread" and len(args) == 2:
                # fn item called through FnOnce/FnMut/Fn: (f, (a, b, ..)) -> f(a, b, ..)
                tup = args[1]
                for k in range(argc):
                    if tup.get("k") in ("copy", "move"):
                        pl = tup["pl"]
                        asg(clb_next + 1 + k, {"k": tup["k"], "pl": {"l": pl["l"], "p": pl["p"] + [{"f": k, "n": str(k), "ty": "?"}]}})
                    else:
                        asg(clb_next + 1 + k, {"k": "other"})
            elif len(args) == argc and shim_mode is None and not (rust_call and "{closure#" in cd and len(args) == 2):
                for k, a in enumerate(args):
                    asg(clb_next + 1 + k, a)
            elif "{closure#" in cd and len(args) == 2 and argc >= 1:
                # rust-call ABI: (closure, (a, b, ..)) is spread into the closure body's parameters
                if shim_mode == "spread_ref" and args[0].get("k") in ("copy", "move"):
                    # the closure body takes `&mut self` / `&self`, the shim is called with the closure by value
                    pre.append({"s": "assign", "line": line, "exp": True, "lhs": {"l": clb_next + 1, "p": []}, "rhs": {"rv": "ref", "mut": True, "pl": args[0]["pl"]}, "inl_arg": True})
                else:
                    asg(clb_next + 1, args[0])
                tup = args[1]
                for k in range(argc - 1):
                    if tup.get("k") in ("copy", "move"):
                        pl = tup["pl"]
                        asg(clb_next + 2 + k, {"k": tup["k"], "pl": {"l": pl["l"], "p": pl["p"] + [{"f": k, "n": str(k), "ty": "?"}]}})
                    else:
                        asg(clb_next + 2 + k, {"k": "other"})
            else:
                self.skipped[cd] = "argument count mismatch"
                continue
            uw = nt["unwind"] if isinstance(nt.get("unwind"), int) else None
            cbb0, clb = self.splice(cd, ci, depth + 1, stack + [d], uw, tuple(site_stack) + ((d, i),))
            assert clb == clb_next
            nb["stmts"] = nb["stmts"] + pre
            nb["inl_call"] = nt
            nb["term"] = {"t": "goto", "target": cbb0, "line": line, "exp": bool(nt.get("exp")), "inl_enter": cd}
            # returns of the callee copy: hand the value over and continue in the caller
            ncallee = len(craw["blocks"])
            for j in range(cbb0, cbb0 + ncallee):
                cb = self.blocks[j]
                ct = cb["term"]
                if ct["t"] == "return":
                    cb["stmts"] = cb["stmts"] + [{"s": "assign", "line": ct.get("line", line), "exp": False, "lhs": nt["dest"],
                                                  "rhs": {"rv": "use", "op": {"k": "move", "pl": {"l": clb, "p": []}}}, "inl_ret": cd}]
                    cb["term"] = {"t": "goto", "target": nt["target"], "line": ct.get("line", line), "exp": False, "inl_leave": cd}
                elif ct["t"] == "resume" and uw is not None:
                    cb["term"] = {"t": "goto", "target": uw, "line": ct.get("line", line), "exp": False, "inl_leave": cd}
        return bb0, lb


def inlined(facts, root, inst="auto", stop=None, max_depth=8, extern_ok=None, closures=True):
    """Fn for `root` (def path) with callees spliced in.  inst: "auto" = the unique monomorphic instance if there is exactly
    one, else the generic root instance; or an instance record; or None (syntactic resolution only)."""
    # only predicate-free requests are memoised (a predicate's identity is not a stable key)
    key = ("inl", root, inst["id"] if isinstance(inst, dict) else inst, max_depth, closures) if stop is None and extern_ok is None else None
    cache = facts.__dict__.setdefault("_inl_cache", {})
    if key is not None and key in cache:
        return cache[key]
    g = facts.fn(root)
    if inst == "auto":
        xs = [i for i in facts.instances_of(root) if i["kind"] == "item"]
        mono = [i for i in xs if not i.get("generic")]
        inst = mono[0] if len(mono) == 1 else (xs[0] if len(xs) == 1 else ([i for i in xs if i.get("root")] or [None])[0])
    il = Inliner(facts, stop, max_depth, extern_ok, closures)
    il.splice(root, inst, 0, [], None)
    raw = g.mir
    mir = {"blocks": il.blocks, "locals": il.locals, "argc": raw["argc"], "file": raw["file"], "line": raw["line"]}
    rec = dict(g.rec)
    rec["promoted"] = []
    f = Fn(facts, rec, mir)
    f.promoted = il.promoted
    f.inlined = il.inlined
    f.skipped = il.skipped
    f.root_inst = inst
    f.is_inlined = True
    if key is not None:
        cache[key] = f
    return f
