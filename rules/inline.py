"""Virtual inlining: build, for a root function, ONE body in which the bodies of its crate-local callees (helpers,
private methods, directly called closures) are spliced in at their call sites, recursively.

Why: the rules ask questions about paths ("every path from the wake-up to the return pops the queue", "the 505 arm
answers through the request's own writer").  Where the code of such a path lives -- in one function or spread over
helpers a maintainer extracted -- is not part of any property.  All per-function machinery (CFG, dominators, origin trees,
PathSim, symex, ownership dataflow) then works across the helper boundary unchanged.

The result is an ordinary `Fn` whose blocks carry where they came from:
    block["src"]  = def path of the function the block was copied from
    block["inst"] = instance id of that copy (None when the callee was resolved syntactically)
    block["obb"]  = block index in the original body
    block["file"] = source file of the original body
    a call block that was inlined keeps its original terminator under block["inl_call"] (already renumbered)
Resolution of callees uses the monomorphic call graph (edges of the *instance* at that block), so calls through
type parameters (`R::read`) inside generic helpers resolve to what they are for this root.

Not inlined: recursion, functions without MIR, anything the `stop` predicate names, anything beyond `max_depth`,
non-local callees unless `extern_ok` says so.  A callee that is not inlined stays an ordinary call.
"""
import copy, re
from core import Fn, CheckerError

MAX_BLOCKS = 20000


def _ren_place(p, lb):
    q = {"l": p["l"] + lb, "p": p["p"]}
    if any(isinstance(e, dict) and "i" in e for e in p["p"]):
        q["p"] = [dict(e, i=e["i"] + lb) if isinstance(e, dict) and "i" in e else e for e in p["p"]]
    return q


def _ren_op(o, lb, pb):
    if not isinstance(o, dict):
        return o
    k = o.get("k")
    if k in ("copy", "move"):
        return dict(o, pl=_ren_place(o["pl"], lb))
    if k == "const" and "promoted" in o:
        return dict(o, promoted=o["promoted"] + pb)
    return o


def _ren_rv(r, lb, pb):
    r = dict(r)
    if "pl" in r:
        r["pl"] = _ren_place(r["pl"], lb)
    if r["rv"] in ("use", "repeat", "cast", "tyid"):
        r["op"] = _ren_op(r["op"], lb, pb)
    elif r["rv"] in ("binop", "unop"):
        # NB: for binop/unop "op" is the operator name (a string)
        if "a" in r:
            r["a"] = _ren_op(r["a"], lb, pb)
        if "b" in r:
            r["b"] = _ren_op(r["b"], lb, pb)
    elif r["rv"] == "agg":
        r["ops"] = [_ren_op(o, lb, pb) for o in r["ops"]]
    return r


def _ren_stmt(s, lb, pb):
    k = s["s"]
    if k == "assign":
        return dict(s, lhs=_ren_place(s["lhs"], lb), rhs=_ren_rv(s["rhs"], lb, pb))
    if k == "setdiscr":
        return dict(s, lhs=_ren_place(s["lhs"], lb))
    if k in ("live", "dead"):
        return dict(s, l=s["l"] + lb)
    return s


def _ren_term(t, lb, bb0, pb, unwind_to):
    t = dict(t)
    k = t["t"]
    def B(x):
        return x + bb0
    def U(u):
        if isinstance(u, int):
            return u + bb0
        if u == "continue" and unwind_to is not None:
            return unwind_to
        return u
    if k == "goto":
        t["target"] = B(t["target"])
    elif k == "switch":
        t["discr"] = _ren_op(t["discr"], lb, pb)
        t["targets"] = [[v, B(b)] for v, b in t["targets"]]
        t["otherwise"] = B(t["otherwise"])
    elif k == "drop":
        t["pl"] = _ren_place(t["pl"], lb)
        t["target"] = B(t["target"])
        t["unwind"] = U(t["unwind"])
    elif k == "call":
        t["args"] = [_ren_op(a, lb, pb) for a in t["args"]]
        if "fnop" in t:
            t["fnop"] = _ren_op(t["fnop"], lb, pb)
        t["dest"] = _ren_place(t["dest"], lb)
        if t.get("target") is not None:
            t["target"] = B(t["target"])
        t["unwind"] = U(t["unwind"])
    elif k == "assert":
        t["cond"] = _ren_op(t["cond"], lb, pb)
        t["target"] = B(t["target"])
        t["unwind"] = U(t["unwind"])
    return t


class Inliner:
    def __init__(self, facts, stop=None, max_depth=8, extern_ok=None, closures=True):
        self.facts = facts
        self.stop = stop            # predicate(def_path) -> True: keep as a call
        self.max_depth = max_depth
        self.extern_ok = extern_ok  # predicate(def_path) for non-local callees that may be inlined
        self.closures = closures
        self.locals = []
        self.blocks = []
        self.promoted = []
        self.inlined = []           # (depth, def path) in splice order
        self.skipped = {}           # def path -> reason (callees left as calls)
        self.shim_mode = None

    def may_inline(self, d, depth, stack):
        g = self.facts.fns.get(d)
        if g is None:
            return "no MIR"
        if d in stack:
            return "recursive"
        if depth > self.max_depth:
            return "depth"
        if self.stop and self.stop(d):
            return "stop"
        if not g.rec.get("local") and not g.rec.get("synthetic") and not (self.extern_ok and self.extern_ok(d)):
            return "extern"
        if "{closure#" in d and not self.closures:
            return "closure"
        return None

    def resolve(self, inst, obb, t):
        """(def path, instance or None) of the callee of call terminator t at original block obb"""
        if inst is not None:
            for e in inst.get("edges", []):
                if e["bb"] == obb and e["k"] == "call" and e.get("to") is not None:
                    ci = self.facts.instances[e["to"]]
                    if ci and ci.get("kind") == "item":
                        return ci["def"], ci
                    if ci and ci.get("kind") in ("fnptr_shim", "closure_once_shim", "reify_shim"):
                        # `<fn item as FnOnce>::call_once`, a by-value call of a by-ref closure, ...: a shim around exactly one callee
                        tos = [e2["to"] for e2 in ci.get("edges", []) if e2["k"] == "call" and e2.get("to") is not None and not e2.get("cleanup")]
                        if len(tos) == 1:
                            c2 = self.facts.instances[tos[0]]
                            if c2 and c2.get("kind") == "item":
                                self.shim_mode = "spread_ref" if ci["kind"] == "closure_once_shim" else ("spread" if ci["kind"] == "fnptr_shim" else None)
                                return c2["def"], c2
                    return None, None
            # the instance has no resolved edge here (virtual, fn pointer, intrinsic): leave as a call
            return None, None
        if t.get("syn_to") is not None:
            ci = self.facts.instances[t["syn_to"]]
            return ci["def"], ci
        d = t.get("res") or t.get("callee")
        if d and (t.get("res_kind") in (None, "item")):
            return d, None
        return None, None

    # ---- iterator consumers as loops -----------------------------------------------------------------------------------------
    # `it.try_fold(init, f)`, `it.fold(init, f)`, `it.for_each(f)` and `it.try_for_each(f)` with a closure (or function) of the crate are the
    # loop `let mut acc = init; while let Some(x) = it.next() { acc = f(acc, x)<?> } acc` by definition of these methods; std's own bodies
    # (specialised per adaptor, written with raw pointers) are not what a rule wants to read.  The loop is built as a body of its own and
    # spliced in like any helper, so that a `for` loop turned into a combinator reads the same to every rule.
    LOOPS = {"try_fold": 3, "fold": 3, "for_each": 2, "try_for_each": 2}

    def synth_dispatch(self, d_caller, inst, raw, t):
        """a call through a trait object of a trait of this crate (`self.socket().peer()` with `socket() -> &dyn StreamSocket`), read as what it
        is: a choice, by the concrete type behind the reference, among the implementations the crate has.  Built as a body of its own:
        a switch on the type of the receiver (decided on a path when the receiver is known to point into a value of a concrete type, taken
        every way otherwise), one arm per implementation, and the original virtual call as the last arm."""
        facts = self.facts
        m = re.match(r"^dyn ([\w:]+)", t.get("self_ty") or "")
        if t.get("res_kind") != "virtual" or not m or not t["args"]:
            return None
        tr = m.group(1)
        # only traits declared in this crate (a `dyn Write` may be anything; the crate's own impls of std traits are not the candidates)
        roots = facts.__dict__.setdefault("_local_roots", None)
        if roots is None:
            roots = facts._local_roots = {a.split("::")[0] for a in facts.adts if facts.adts[a].get("file", "").startswith("src/")}
        if tr.split("::")[0] not in roots or tr.split("::")[0] in ("std", "core", "alloc"):
            return None
        impls = {}
        for k, g in facts.fns.items():
            mm = re.match(r"^<(.+) as %s>::(\w+)$" % re.escape(tr), k)
            if mm and g.rec.get("local"):
                impls.setdefault(mm.group(1), {})[mm.group(2)] = k
        if not impls:
            return None
        types = sorted(impls)
        name, trait = t.get("name"), t.get("trait")
        own = trait == tr
        provided = "%s::%s" % (tr, name)
        if own and any(name not in impls[T] and provided not in facts.fns for T in types):
            return None
        line = t.get("line", 0)
        argc = len(t["args"])
        arg_tys = t.get("arg_tys") or ["?"] * argc
        dl = t["dest"]["l"]
        rty = raw["locals"][dl]["ty"] if not t["dest"]["p"] and dl < len(raw["locals"]) else "?"
        L = lambda ty, nm=None: {"ty": ty, "adt": None, "name": nm, "mut": True}
        locs = [L(rty)] + [L(a) for a in arg_tys] + [L("isize")]
        D = argc + 1
        pl = lambda l, *proj: {"l": l, "p": list(proj)}
        mv = lambda l: {"k": "move", "pl": pl(l)}
        blocks = []
        def blk(stmts, term):
            blocks.append({"cleanup": False, "stmts": stmts, "term": dict(term, line=line, exp=False)})
            return len(blocks) - 1
        n = len(types)
        RET, FALL = n + 2, n + 1
        blk([{"s": "assign", "line": line, "exp": False, "lhs": pl(D), "rhs": {"rv": "tyid", "op": {"k": "copy", "pl": pl(1)}, "types": types}, "syn": True}],
            {"t": "switch", "discr": mv(D), "dty": "isize", "targets": [[k, 1 + k] for k in range(n)], "otherwise": FALL})
        for k, T in enumerate(types):
            if own:
                cdef = impls[T].get(name) or provided       # (an implementor that keeps the trait's default body)
                c = [x for x in facts.instances_of(cdef) if x["kind"] == "item" and (name in impls[T] or ("<%s as " % T) in (x.get("name") or ""))]
                call = {"t": "call", "callee": cdef, "callee_krate": "tiny_http", "gargs": [], "name": name, "res": cdef, "res_krate": "tiny_http", "res_kind": "item", "res_name": cdef}
                if len(c) == 1:
                    call["syn_to"] = c[0]["id"]
            else:
                cdef = "<%s as %s>::%s" % (T, trait, name)
                call = {"t": "call", "callee": t.get("callee"), "callee_krate": t.get("callee_krate"), "gargs": [T], "trait": trait, "self_ty": T, "name": name,
                        "res": cdef, "res_krate": t.get("callee_krate"), "res_kind": "item", "res_name": cdef}
            recv_ty = re.sub(r"dyn [\w:]+( \+ [\w:']+)*", T, arg_tys[0]) if arg_tys else "?"
            call.update(args=[mv(i) for i in range(1, argc + 1)], arg_tys=[recv_ty] + list(arg_tys[1:]), dest=pl(0), target=RET, unwind="continue", fn_exp=False, syn=True)
            blk([], call)
        orig = dict(t)
        orig.update(args=[mv(i) for i in range(1, argc + 1)], dest=pl(0), target=RET, unwind="continue", syn=True)
        blk([], orig)
        blk([], {"t": "return"})
        self.nsyn = getattr(self, "nsyn", 0) + 1
        sid = "<dispatch of %s>::%s#%d" % (tr, name, self.nsyn)
        mir = {"blocks": blocks, "locals": locs, "argc": argc, "file": raw["file"], "line": line}
        rec = {"id": sid, "local": False, "synthetic": True, "def_kind": "Fn", "promoted": [], "mir": mir, "vis_pub": False}
        facts.fns[sid] = Fn(facts, rec)
        return sid

    # ---- iterator pipelines as loops ------------------------------------------------------------------------------------------
    # `from_fn(g).take_while(p).map(f).collect::<Result<Vec<_>, _>>()` (any sequence of the lazy, stateless-per-item adaptors below, built
    # in the same function from closures or functions of the crate, ended by one of the consumers above or by `collect` into a Vec,
    # Result<Vec, E> or Option<Vec>) is, by the definition of these adaptors, the loop
    #     let mut v = Vec::new(); loop { let Some(x) = g() else break; if !p(&x) { break }; match f(x) { Ok(y) => v.push(y), Err(e) => return Err(e) } } Ok(v)
    # It is built as one body (the adaptor objects themselves stay opaque values nobody looks at) and spliced in like a helper.
    STAGES = {"map": 2, "take_while": 2, "filter": 2, "filter_map": 2, "map_while": 2, "inspect": 2, "skip_while": None}
    SEARCHES = ("find_map", "find", "any", "all", "position")

    def _fn_operand(self, d_caller, inst, raw, fop, any_fn=False):
        """-> (def path, instance id or None, is closure) of the crate function / closure an operand denotes"""
        facts = self.facts
        fdef = None
        if fop.get("k") == "const" and fop.get("fn"):
            fdef = fop["fn"]
        elif fop.get("k") in ("copy", "move") and not fop["pl"]["p"]:
            defs = [s_["rhs"] for b in raw["blocks"] for s_ in b["stmts"] if s_["s"] == "assign" and s_["lhs"] == {"l": fop["pl"]["l"], "p": []}]
            if len(defs) == 1 and defs[0]["rv"] == "agg" and defs[0].get("closure"):
                fdef = defs[0]["closure"]
        if fdef is None:
            return None
        if fdef not in facts.fns or not facts.fns[fdef].rec.get("local"):
            if any_fn and fop.get("k") == "const" and "{closure#" not in fdef:
                return fdef, None, False                    # a function item of another crate (`str::trim_start`): a plain call
            return None
        is_closure = "{closure#" in fdef
        finst = None
        if inst is not None and is_closure and fdef.startswith(d_caller + "::"):
            want = inst["name"] + fdef[len(d_caller):]
            c = [x for x in facts.instances_of(fdef) if x.get("name") == want]
            finst = c[0]["id"] if len(c) == 1 else None
        if finst is None:
            c = [x for x in facts.instances_of(fdef) if x["kind"] == "item"]
            finst = c[0]["id"] if len(c) == 1 else None
        return fdef, finst, is_closure

    def synth_chain(self, d_caller, inst, raw, t):
        facts = self.facts
        name = t.get("name")
        if t.get("trait") != "std::iter::Iterator" or not t["args"]:
            return None
        gargs = t.get("gargs") or []
        if name == "collect":
            if len(t["args"]) != 1 or len(gargs) < 2:
                return None
            cty = gargs[1]
            m = re.match(r"^std::result::Result<std::vec::Vec<(.+)>, (.+)>$", cty)
            if m:
                wrap, elem = ("std::result::Result", "Ok", "Err"), m.group(1)
            else:
                m = re.match(r"^std::option::Option<std::vec::Vec<(.+)>>$", cty)
                if m:
                    wrap, elem = ("std::option::Option", "Some", "None"), m.group(1)
                else:
                    m = re.match(r"^std::vec::Vec<(.+)>$", cty)
                    if not m:
                        return None
                    wrap, elem = None, m.group(1)
        elif name in self.LOOPS and len(t["args"]) == self.LOOPS[name]:
            pass
        elif name in self.SEARCHES and len(t["args"]) == 2:
            pass
        else:
            return None
        # the pipeline, from the consumer back to the source
        def def_call(op):
            if op.get("k") not in ("copy", "move") or op["pl"]["p"]:
                return None
            l = op["pl"]["l"]
            # (`find`, `any` .. take the pipeline by `&mut`: see through the borrow)
            for _ in range(3):
                rd_ = [s_["rhs"] for b in raw["blocks"] for s_ in b["stmts"] if s_["s"] == "assign" and s_["lhs"] == {"l": l, "p": []}]
                if len(rd_) == 1 and rd_[0]["rv"] == "ref" and not rd_[0]["pl"]["p"] and not any(b["term"]["t"] == "call" and b["term"]["dest"] == {"l": l, "p": []} for b in raw["blocks"]):
                    l = rd_[0]["pl"]["l"]
                else:
                    break
            ds = [b["term"] for b in raw["blocks"] if b["term"]["t"] == "call" and b["term"]["dest"] == {"l": l, "p": []}]
            if len(ds) != 1 or any(s_["s"] == "assign" and s_["lhs"]["l"] == l and not s_["lhs"]["p"] for b in raw["blocks"] for s_ in b["stmts"]):
                return None
            return ds[0]
        stages = []
        cur = t["args"][0]
        src = None
        while True:
            c = def_call(cur)
            if c is None:
                break
            if c.get("trait") == "std::iter::Iterator" and c.get("name") in self.STAGES and self.STAGES[c["name"]] == len(c["args"]):
                fo = self._fn_operand(d_caller, inst, raw, c["args"][1], any_fn=True)
                if fo is None:
                    return None
                stages.append((c["name"], c["args"][1], fo, c.get("gargs") or []))
                cur = c["args"][0]
                continue
            if (c.get("res") or c.get("callee")) == "std::iter::from_fn" and len(c["args"]) == 1:
                fo = self._fn_operand(d_caller, inst, raw, c["args"][0])
                if fo is None:
                    return None
                src = ("from_fn", c["args"][0], fo, c.get("gargs") or [])
            break
        stages.reverse()
        if not stages and src is None:
            return None                                     # (the plain consumers over an opaque iterator: the older builder; collecting or
                                                            # searching an iterator nobody built here: nothing to read)
        line = t.get("line", 0)
        L = lambda ty, nm=None: {"ty": ty, "adt": None, "name": nm, "mut": True}
        pl = lambda l, *proj: {"l": l, "p": list(proj)}
        mv = lambda l, *proj: {"k": "move", "pl": pl(l, *proj)}
        cp = lambda l, *proj: {"k": "copy", "pl": pl(l, *proj)}
        fld = lambda k: {"f": k, "n": str(k), "ty": "?"}
        asg = lambda lhs, rhs: {"s": "assign", "line": line, "exp": False, "lhs": lhs, "rhs": rhs, "syn": True}
        use = lambda op: {"rv": "use", "op": op}
        unit = {"k": "const", "ty": "()", "v": "()"}
        dty = raw["locals"][t["dest"]["l"]]["ty"] if not t["dest"]["p"] and t["dest"]["l"] < len(raw["locals"]) else "?"
        locs = [L(dty)]
        args = []                                           # operands of the caller handed to the body, in parameter order
        def param(ty, op, nm=None):
            locs.append(L(ty, nm)); args.append(op)
            return len(locs) - 1
        if src is not None:
            SRC = param(src[3][1] if len(src[3]) > 1 else "?", src[1], "source")
            item_ty = src[3][0] if src[3] else "?"
        else:
            self_ty = (stages[0][3][0] if stages and stages[0][3] else "?")
            SRC = param(self_ty, cur, "iter")
            item_ty = "?"
        FN = []
        for (sn, fop, fo, ga) in stages:
            FN.append(param(ga[-1] if ga else "?", fop, "f"))
        consumer_args = []
        if name in self.LOOPS:
            has_acc = name in ("try_fold", "fold")
            is_try = name in ("try_fold", "try_for_each")
            cfo = self._fn_operand(d_caller, inst, raw, t["args"][-1])
            if cfo is None:
                return None
            acc_ty = gargs[1] if has_acc and len(gargs) > 1 else "()"
            f_ty = gargs[2] if has_acc and len(gargs) > 2 else (gargs[1] if len(gargs) > 1 else "?")
            r_ty = (gargs[3] if name == "try_fold" and len(gargs) > 3 else (gargs[2] if name == "try_for_each" and len(gargs) > 2 else (acc_ty if has_acc else "()")))
            if is_try:
                if r_ty.startswith("std::result::Result<"):
                    radt, cont, brk = "std::result::Result", (0, "Ok"), (1, "Err")
                elif r_ty.startswith("std::option::Option<"):
                    radt, cont, brk = "std::option::Option", (1, "Some"), (0, "None")
                elif r_ty.startswith("std::ops::ControlFlow<"):
                    radt, cont, brk = "std::ops::ControlFlow", (0, "Continue"), (1, "Break")
                else:
                    return None
            INIT = param(acc_ty, t["args"][1], "init") if has_acc else None
            CF = param(f_ty, t["args"][-1], "f")
        if name in self.SEARCHES:
            cfo = self._fn_operand(d_caller, inst, raw, t["args"][1])
            if cfo is None:
                return None
            f_ty = gargs[-1] if gargs else "?"
            CF = param(f_ty, t["args"][1], "f")
        argc = len(locs) - 1
        def tmp(ty, nm=None):
            locs.append(L(ty, nm))
            return len(locs) - 1
        blocks = []
        def blk(stmts=None, term=None):
            blocks.append({"cleanup": False, "stmts": stmts or [], "term": dict(term or {"t": "unreachable"}, line=line, exp=False)})
            return len(blocks) - 1
        def setterm(b, term):
            blocks[b]["term"] = dict(term, line=line, exp=False)
        def call_fn(b, fo, floc, f_ty, ops, dest, target):
            """block b: dest = f(ops..)"""
            fdef, finst, is_closure = fo
            call = {"t": "call", "callee": "std::ops::FnMut::call_mut", "callee_krate": "core", "gargs": [f_ty], "trait": "std::ops::FnMut", "self_ty": f_ty, "name": "call_mut",
                    "res": fdef, "res_krate": "tiny_http", "res_kind": "item", "res_name": fdef, "dest": pl(dest), "target": target, "unwind": "continue", "fn_exp": False, "syn": True}
            if is_closure:
                TUP, FREF = tmp("(?,)"), tmp("&mut " + f_ty)
                blocks[b]["stmts"] += [asg(pl(TUP), {"rv": "agg", "agg": "tuple", "ops": ops}), asg(pl(FREF), {"rv": "ref", "mut": True, "pl": pl(floc)})]
                call.update(args=[mv(FREF), mv(TUP)], arg_tys=["&mut " + f_ty, "(?,)"])
            else:
                call.update(args=ops, arg_tys=["?"] * len(ops), callee=fdef, name=fdef.rsplit("::", 1)[-1])
                call.pop("trait")
                if fdef not in facts.fns or not facts.fns[fdef].rec.get("local"):
                    call.update(res_krate="core", callee_krate="core")
            if finst is not None:
                call["syn_to"] = finst
            setterm(b, call)
        OPT_V = [[0, "None"], [1, "Some"]]
        # fixed blocks
        ENTRY, HEAD, EXH, RET, DEAD = blk(), blk(), blk(), blk([], {"t": "return"}), blk([], {"t": "unreachable"})
        # entry: the accumulator
        if name == "collect":
            VEC = tmp("std::vec::Vec<%s>" % elem, "vec")
            setterm(ENTRY, {"t": "call", "callee": "std::vec::Vec::<T>::new", "callee_krate": "alloc", "gargs": [elem], "name": "new", "res": "std::vec::Vec::<T>::new", "res_krate": "alloc",
                            "res_kind": "item", "res_name": "std::vec::Vec::<%s>::new" % elem, "args": [], "arg_tys": [], "dest": pl(VEC), "target": HEAD, "unwind": "continue", "fn_exp": False, "syn": True})
        elif name in self.SEARCHES:
            if name == "position":
                IDX = tmp("usize", "i")
                blocks[ENTRY]["stmts"].append(asg(pl(IDX), use({"k": "const", "ty": "usize", "v": "0_usize"})))
            setterm(ENTRY, {"t": "goto", "target": HEAD})
        else:
            ACC = tmp(acc_ty, "acc")
            if has_acc:
                blocks[ENTRY]["stmts"].append(asg(pl(ACC), use(mv(INIT))))
            setterm(ENTRY, {"t": "goto", "target": HEAD})
        # head: the next item of the source
        OPT, D0 = tmp("std::option::Option<%s>" % item_ty, "item"), tmp("isize")
        SW = blk()
        if src is not None:
            call_fn(HEAD, src[2], SRC, locs[SRC]["ty"], [], OPT, SW)
        else:
            IREF = tmp("&mut " + locs[SRC]["ty"])
            nres = "<%s as std::iter::Iterator>::next" % locs[SRC]["ty"]
            blocks[HEAD]["stmts"].append(asg(pl(IREF), {"rv": "ref", "mut": True, "pl": pl(SRC)}))
            setterm(HEAD, {"t": "call", "callee": "std::iter::Iterator::next", "callee_krate": "core", "gargs": [locs[SRC]["ty"]], "trait": "std::iter::Iterator", "self_ty": locs[SRC]["ty"],
                           "name": "next", "res": nres, "res_krate": "core", "res_kind": "item", "res_name": nres, "args": [mv(IREF)], "arg_tys": ["&mut " + locs[SRC]["ty"]],
                           "dest": pl(OPT), "target": SW, "unwind": "continue", "fn_exp": False, "syn": True})
        first = blk()
        blocks[SW]["stmts"].append(asg(pl(D0), {"rv": "discr", "pl": pl(OPT), "ty": locs[OPT]["ty"], "adt": "std::option::Option", "variants": OPT_V}))
        setterm(SW, {"t": "switch", "discr": mv(D0), "dty": "isize", "targets": [[0, EXH], [1, first]], "otherwise": DEAD})
        V = tmp(item_ty, "x")
        blocks[first]["stmts"].append(asg(pl(V), use(mv(OPT, {"d": "Some"}, fld(0)))))
        curb = first
        for k, (sn, fop, fo, ga) in enumerate(stages):
            f_ty = locs[FN[k]]["ty"]
            nxt = blk()
            if sn == "map":
                V2 = tmp(ga[1] if len(ga) > 1 else "?", "y")
                call_fn(curb, fo, FN[k], f_ty, [mv(V)], V2, nxt)
                V = V2
            elif sn == "inspect":
                R, U = tmp("&?"), tmp("()")
                blocks[curb]["stmts"].append(asg(pl(R), {"rv": "ref", "mut": False, "pl": pl(V)}))
                call_fn(curb, fo, FN[k], f_ty, [mv(R)], U, nxt)
            elif sn in ("take_while", "filter"):
                R, B = tmp("&?"), tmp("bool")
                blocks[curb]["stmts"].append(asg(pl(R), {"rv": "ref", "mut": False, "pl": pl(V)}))
                tst = blk()
                call_fn(curb, fo, FN[k], f_ty, [mv(R)], B, tst)
                setterm(tst, {"t": "switch", "discr": mv(B), "dty": "bool", "targets": [[0, EXH if sn == "take_while" else HEAD]], "otherwise": nxt})
            elif sn in ("filter_map", "map_while"):
                oty = "std::option::Option<%s>" % (ga[1] if len(ga) > 1 else "?")
                O, D = tmp(oty), tmp("isize")
                tst = blk()
                call_fn(curb, fo, FN[k], f_ty, [mv(V)], O, tst)
                blocks[tst]["stmts"].append(asg(pl(D), {"rv": "discr", "pl": pl(O), "ty": oty, "adt": "std::option::Option", "variants": OPT_V}))
                setterm(tst, {"t": "switch", "discr": mv(D), "dty": "isize", "targets": [[0, EXH if sn == "map_while" else HEAD], [1, nxt]], "otherwise": DEAD})
                V2 = tmp(ga[1] if len(ga) > 1 else "?", "y")
                blocks[nxt]["stmts"].append(asg(pl(V2), use(mv(O, {"d": "Some"}, fld(0)))))
                V = V2
            else:
                return None
            curb = nxt
        # the consumer's step on the item V, in block curb
        if name == "collect":
            def push(b, op, target):
                VR, U = tmp("&mut std::vec::Vec<%s>" % elem), tmp("()")
                blocks[b]["stmts"].append(asg(pl(VR), {"rv": "ref", "mut": True, "pl": pl(VEC)}))
                setterm(b, {"t": "call", "callee": "std::vec::Vec::<T, A>::push", "callee_krate": "alloc", "gargs": [elem, "std::alloc::Global"], "name": "push",
                            "res": "std::vec::Vec::<T, A>::push", "res_krate": "alloc", "res_kind": "item", "res_name": "std::vec::Vec::<%s>::push" % elem,
                            "args": [mv(VR), op], "arg_tys": ["&mut std::vec::Vec<%s>" % elem, elem], "dest": pl(U), "target": target, "unwind": "continue", "fn_exp": False, "syn": True})
            if wrap is None:
                push(curb, mv(V), HEAD)
                blocks[EXH]["stmts"].append(asg(pl(0), use(mv(VEC))))
            else:
                adt, good, bad = wrap
                variants = [[0, "Ok"], [1, "Err"]] if adt.endswith("Result") else OPT_V
                gi = [i for i, n_ in variants if n_ == good][0]
                bi = [i for i, n_ in variants if n_ == bad][0]
                D = tmp("isize")
                okb, errb = blk(), blk()
                blocks[curb]["stmts"].append(asg(pl(D), {"rv": "discr", "pl": pl(V), "ty": locs[V]["ty"], "adt": adt, "variants": variants}))
                setterm(curb, {"t": "switch", "discr": mv(D), "dty": "isize", "targets": [[gi, okb], [bi, errb]], "otherwise": DEAD})
                push(okb, mv(V, {"d": good}, fld(0)), HEAD)
                if bad == "Err":
                    blocks[errb]["stmts"].append(asg(pl(0), {"rv": "agg", "agg": "adt", "adt": adt, "variant": "Err", "fields": ["0"], "ops": [mv(V, {"d": "Err"}, fld(0))]}))
                else:
                    blocks[errb]["stmts"].append(asg(pl(0), {"rv": "agg", "agg": "adt", "adt": adt, "variant": "None", "fields": [], "ops": []}))
                setterm(errb, {"t": "goto", "target": RET})
                blocks[EXH]["stmts"].append(asg(pl(0), {"rv": "agg", "agg": "adt", "adt": adt, "variant": good, "fields": ["0"], "ops": [mv(VEC)]}))
        elif name in self.SEARCHES:
            some = lambda op: {"rv": "agg", "agg": "adt", "adt": "std::option::Option", "variant": "Some", "fields": ["0"], "ops": [op]}
            none = {"rv": "agg", "agg": "adt", "adt": "std::option::Option", "variant": "None", "fields": [], "ops": []}
            cbool = lambda v: {"k": "const", "ty": "bool", "v": "true" if v else "false"}
            after, hit = blk(), blk()
            if name == "find_map":
                O, D = tmp(dty), tmp("isize")
                call_fn(curb, cfo, CF, f_ty, [mv(V)], O, after)
                blocks[after]["stmts"].append(asg(pl(D), {"rv": "discr", "pl": pl(O), "ty": dty, "adt": "std::option::Option", "variants": OPT_V}))
                setterm(after, {"t": "switch", "discr": mv(D), "dty": "isize", "targets": [[0, HEAD], [1, hit]], "otherwise": DEAD})
                blocks[hit]["stmts"].append(asg(pl(0), use(mv(O))))
                blocks[EXH]["stmts"].append(asg(pl(0), none))
            else:
                B = tmp("bool")
                if name in ("find",):
                    R = tmp("&?")
                    blocks[curb]["stmts"].append(asg(pl(R), {"rv": "ref", "mut": False, "pl": pl(V)}))
                    call_fn(curb, cfo, CF, f_ty, [mv(R)], B, after)
                else:
                    call_fn(curb, cfo, CF, f_ty, [mv(V)], B, after)
                if name == "all":
                    setterm(after, {"t": "switch", "discr": mv(B), "dty": "bool", "targets": [[0, hit]], "otherwise": HEAD})
                    blocks[hit]["stmts"].append(asg(pl(0), use(cbool(False))))
                    blocks[EXH]["stmts"].append(asg(pl(0), use(cbool(True))))
                else:
                    miss = blk()
                    setterm(after, {"t": "switch", "discr": mv(B), "dty": "bool", "targets": [[0, miss]], "otherwise": hit})
                    if name == "position":
                        T2 = tmp("usize")
                        blocks[miss]["stmts"] += [asg(pl(T2), {"rv": "binop", "op": "Add", "a": cp(IDX), "b": {"k": "const", "ty": "usize", "v": "1_usize"}}), asg(pl(IDX), use(mv(T2)))]
                        blocks[hit]["stmts"].append(asg(pl(0), some(cp(IDX))))
                        blocks[EXH]["stmts"].append(asg(pl(0), none))
                    elif name == "find":
                        blocks[hit]["stmts"].append(asg(pl(0), some(mv(V))))
                        blocks[EXH]["stmts"].append(asg(pl(0), none))
                    else:
                        blocks[hit]["stmts"].append(asg(pl(0), use(cbool(True))))
                        blocks[EXH]["stmts"].append(asg(pl(0), use(cbool(False))))
                    setterm(miss, {"t": "goto", "target": HEAD})
            setterm(hit, {"t": "goto", "target": RET})
        else:
            RES = tmp(r_ty if is_try else acc_ty)
            after = blk()
            call_fn(curb, cfo, CF, f_ty, ([mv(ACC)] if has_acc else []) + [mv(V)], RES, after)
            if is_try:
                D = tmp("isize")
                goon, stop = blk(), blk()
                blocks[after]["stmts"].append(asg(pl(D), {"rv": "discr", "pl": pl(RES), "ty": r_ty, "adt": radt, "variants": sorted([list(cont), list(brk)])}))
                setterm(after, {"t": "switch", "discr": mv(D), "dty": "isize", "targets": [[cont[0], goon], [brk[0], stop]], "otherwise": DEAD})
                if has_acc:
                    blocks[goon]["stmts"].append(asg(pl(ACC), use(mv(RES, {"d": cont[1]}, fld(0)))))
                setterm(goon, {"t": "goto", "target": HEAD})
                blocks[stop]["stmts"].append(asg(pl(0), use(mv(RES))))
                setterm(stop, {"t": "goto", "target": RET})
                blocks[EXH]["stmts"].append(asg(pl(0), {"rv": "agg", "agg": "adt", "adt": radt, "variant": cont[1], "fields": ["0"], "ops": [mv(ACC) if has_acc else unit]}))
            else:
                if has_acc:
                    blocks[after]["stmts"].append(asg(pl(ACC), use(mv(RES))))
                setterm(after, {"t": "goto", "target": HEAD})
                blocks[EXH]["stmts"].append(asg(pl(0), use(mv(ACC) if has_acc else unit)))
        setterm(EXH, {"t": "goto", "target": RET})
        self.nsyn = getattr(self, "nsyn", 0) + 1
        sid = "<loop of %s>::%s#%d" % (d_caller, name, self.nsyn)
        mir = {"blocks": blocks, "locals": locs, "argc": argc, "file": raw["file"], "line": line}
        rec = {"id": sid, "local": False, "synthetic": True, "def_kind": "Fn", "promoted": [], "mir": mir, "vis_pub": False}
        facts.fns[sid] = Fn(facts, rec)
        self._syn_args = args
        return sid

    def synthesize(self, d_caller, inst, raw, t):
        facts = self.facts
        name = t.get("name")
        self._syn_args = None
        if t.get("res_kind") == "virtual":
            return self.synth_dispatch(d_caller, inst, raw, t)
        ch = self.synth_chain(d_caller, inst, raw, t)
        if ch is not None:
            return ch
        if t.get("trait") != "std::iter::Iterator" or name not in self.LOOPS or len(t["args"]) != self.LOOPS[name]:
            return None
        fop = t["args"][-1]
        # the function: a closure built in the caller, or a function item
        fdef = None
        if fop.get("k") == "const" and fop.get("fn"):
            fdef = fop["fn"]
        elif fop.get("k") in ("copy", "move") and not fop["pl"]["p"]:
            defs = [s_["rhs"] for b in raw["blocks"] for s_ in b["stmts"] if s_["s"] == "assign" and s_["lhs"] == {"l": fop["pl"]["l"], "p": []}]
            if len(defs) == 1 and defs[0]["rv"] == "agg" and defs[0].get("closure"):
                fdef = defs[0]["closure"]
        if fdef is None or fdef not in facts.fns or not facts.fns[fdef].rec.get("local"):
            return None
        is_closure = "{closure#" in fdef
        finst = None
        if inst is not None and is_closure and fdef.startswith(d_caller + "::"):
            want = inst["name"] + fdef[len(d_caller):]
            c = [x for x in facts.instances_of(fdef) if x.get("name") == want]
            finst = c[0]["id"] if len(c) == 1 else None
        if finst is None:
            c = [x for x in facts.instances_of(fdef) if x["kind"] == "item"]
            finst = c[0]["id"] if len(c) == 1 else None
        gargs = t.get("gargs") or []
        self_ty = t.get("self_ty") or (gargs[0] if gargs else "?")
        by_ref = name == "try_fold"
        has_acc = name in ("try_fold", "fold")
        is_try = name in ("try_fold", "try_for_each")
        acc_ty = gargs[1] if has_acc and len(gargs) > 1 else "()"
        f_ty = gargs[2] if has_acc and len(gargs) > 2 else (gargs[1] if len(gargs) > 1 else "?")
        r_ty = (gargs[3] if name == "try_fold" and len(gargs) > 3 else (gargs[2] if name == "try_for_each" and len(gargs) > 2 else (acc_ty if has_acc else "()")))
        if is_try:
            if r_ty.startswith("std::result::Result<"):
                radt, cont, brk = "std::result::Result", (0, "Ok"), (1, "Err")
            elif r_ty.startswith("std::option::Option<"):
                radt, cont, brk = "std::option::Option", (1, "Some"), (0, "None")
            elif r_ty.startswith("std::ops::ControlFlow<"):
                radt, cont, brk = "std::ops::ControlFlow", (0, "Continue"), (1, "Break")
            else:
                return None
        line = t.get("line", 0)
        L = lambda ty, nm=None: {"ty": ty, "adt": None, "name": nm, "mut": True}
        argc = self.LOOPS[name]
        locs = [L(r_ty), L(("&mut " if by_ref else "") + self_ty, "iter")]
        if has_acc:
            locs.append(L(acc_ty, "init"))
        locs.append(L(f_ty, "f"))
        F = argc                                  # the function's local
        INIT = 2 if has_acc else None
        base = len(locs)
        OPT, RES, ACC, TUP, FREF, IREF, D1, D2 = range(base, base + 8)
        locs += [L("std::option::Option<?>", "item"), L(r_ty if is_try else acc_ty), L(acc_ty, "acc"), L("(?, ?)"), L("&mut " + f_ty), L("&mut " + self_ty), L("isize"), L("isize")]
        pl = lambda l, *proj: {"l": l, "p": list(proj)}
        mv = lambda l, *proj: {"k": "move", "pl": pl(l, *proj)}
        cp = lambda l, *proj: {"k": "copy", "pl": pl(l, *proj)}
        fld = lambda k: {"f": k, "n": str(k), "ty": "?"}
        asg = lambda lhs, rhs: {"s": "assign", "line": line, "exp": False, "lhs": lhs, "rhs": rhs, "syn": True}
        use = lambda op: {"rv": "use", "op": op}
        unit = {"k": "const", "ty": "()", "v": "()"}
        blocks = []
        def blk(stmts, term):
            blocks.append({"cleanup": False, "stmts": stmts, "term": dict(term, line=line, exp=False)})
            return len(blocks) - 1
        # bb0: acc = init
        blk([asg(pl(ACC), use(mv(INIT)))] if has_acc else [], {"t": "goto", "target": 1})
        # bb1: item = iter.next()
        nres = "<%s as std::iter::Iterator>::next" % self_ty
        res = t.get("res") or ""
        gen = re.sub(r"::%s$" % name, "::next", res) if res.startswith("<") and res.endswith("::" + name) else nres
        pre = [] if by_ref else [asg(pl(IREF), {"rv": "ref", "mut": True, "pl": pl(1)})]
        blk(pre, {"t": "call", "callee": "std::iter::Iterator::next", "callee_krate": "core", "gargs": [self_ty], "trait": "std::iter::Iterator", "self_ty": self_ty,
                  "self_adt": t.get("self_adt"), "name": "next", "res": gen, "res_krate": "core", "res_kind": "item", "res_name": nres,
                  "args": [cp(1) if by_ref else mv(IREF)], "arg_tys": ["&mut " + self_ty], "dest": pl(OPT), "target": 2, "unwind": "continue", "fn_exp": False, "syn": True})
        # bb2: match item
        blk([asg(pl(D1), {"rv": "discr", "pl": pl(OPT), "ty": "std::option::Option<?>", "adt": "std::option::Option", "variants": [[0, "None"], [1, "Some"]]})],
            {"t": "switch", "discr": mv(D1), "dty": "isize", "targets": [[0, 7], [1, 3]], "otherwise": 9})
        # bb3: r = f(acc, x)
        ops = ([mv(ACC)] if has_acc else []) + [mv(OPT, {"d": "Some"}, fld(0))]
        call = {"t": "call", "callee": "std::ops::FnMut::call_mut", "callee_krate": "core", "gargs": [f_ty], "trait": "std::ops::FnMut", "self_ty": f_ty, "name": "call_mut",
                "res": fdef, "res_krate": "tiny_http", "res_kind": "item", "res_name": fdef, "dest": pl(RES), "target": 4, "unwind": "continue", "fn_exp": False, "syn": True}
        if is_closure:
            stm = [asg(pl(TUP), {"rv": "agg", "agg": "tuple", "ops": ops}), asg(pl(FREF), {"rv": "ref", "mut": True, "pl": pl(F)})]
            call.update(args=[mv(FREF), mv(TUP)], arg_tys=["&mut " + f_ty, "(?, ?)"])
        else:
            stm = []
            call.update(args=ops, arg_tys=["?"] * len(ops), callee=fdef, name=fdef.rsplit("::", 1)[-1])
            call.pop("trait")
        if finst is not None:
            call["syn_to"] = finst
        blk(stm, call)
        # bb4: what the function answered
        if is_try:
            blk([asg(pl(D2), {"rv": "discr", "pl": pl(RES), "ty": r_ty, "adt": radt, "variants": sorted([list(cont), list(brk)])})],
                {"t": "switch", "discr": mv(D2), "dty": "isize", "targets": [[cont[0], 5], [brk[0], 6]], "otherwise": 9})
        else:
            blk([], {"t": "goto", "target": 5})
        # bb5: go on
        if has_acc:
            blk([asg(pl(ACC), use(mv(RES, {"d": cont[1]}, fld(0)) if is_try else mv(RES)))], {"t": "goto", "target": 1})
        else:
            blk([], {"t": "goto", "target": 1})
        # bb6: the function asked to stop: its answer is the result
        blk([asg(pl(0), use(mv(RES)))], {"t": "goto", "target": 8})
        # bb7: the iterator is exhausted
        if is_try:
            payload = mv(ACC) if has_acc else unit
            blk([asg(pl(0), {"rv": "agg", "agg": "adt", "adt": radt, "variant": cont[1], "fields": ["0"], "ops": [payload]})], {"t": "goto", "target": 8})
        else:
            blk([asg(pl(0), use(mv(ACC) if has_acc else unit))], {"t": "goto", "target": 8})
        blk([], {"t": "return"})                                   # bb8
        blk([], {"t": "unreachable"})                              # bb9
        self.nsyn = getattr(self, "nsyn", 0) + 1
        sid = "<loop of %s>::%s#%d" % (d_caller, name, self.nsyn)
        mir = {"blocks": blocks, "locals": locs, "argc": argc, "file": raw["file"], "line": line}
        rec = {"id": sid, "local": False, "synthetic": True, "def_kind": "Fn", "promoted": [], "mir": mir, "vis_pub": False}
        facts.fns[sid] = Fn(facts, rec)
        return sid

    def splice(self, d, inst, depth, stack, unwind_to, site_stack=(), eff_site=None):
        g = self.facts.fns[d]
        raw = g.mir
        rblocks = raw["blocks"]
        lb = len(self.locals)
        for l in raw["locals"]:
            self.locals.append(dict(l, src=d) if depth else l)
        bb0 = len(self.blocks)
        pb = len(self.promoted)
        self.promoted.extend(g.promoted)
        if len(self.blocks) + len(rblocks) > MAX_BLOCKS:
            raise CheckerError("inlined body too large at %s" % d)
        iid = inst["id"] if inst else None
        for i, b in enumerate(rblocks):
            nb = {"cleanup": b["cleanup"], "stmts": [_ren_stmt(s, lb, pb) for s in b["stmts"]],
                  "term": _ren_term(b["term"], lb, bb0, pb, unwind_to), "src": d, "inst": iid, "obb": i, "file": raw.get("real_file", raw["file"]), "depth": depth, "sites": site_stack}
            if iid is None and eff_site is not None:
                # a block of a body built here (or resolved below one): the call graph knows it only as part of the call it stands for
                nb["eff_site"] = eff_site
            self.blocks.append(nb)
        self.inlined.append((depth, d))
        for i, b in enumerate(rblocks):
            t = b["term"]
            if t["t"] != "call" or t.get("target") is None:
                continue
            self.shim_mode = None
            cd, ci = self.resolve(inst, i, t)
            shim_mode = self.shim_mode
            if cd is None and t.get("res_kind") == "virtual" and self.extern_ok is not None and not t.get("syn"):
                cd = "<virtual>"
            if cd is None:
                continue
            if shim_mode is None and ci is not None and (t.get("res") != cd):
                # a call the generic body could not name (through a type parameter): record what it is for this instantiation
                nb0 = self.blocks[bb0 + i]
                nb0["term"] = dict(nb0["term"], res=cd, res_name=ci.get("name"))
            syn = self.synthesize(d, inst, raw, t) if shim_mode is None and (self.extern_ok is not None) else None
            sub_eff = eff_site if inst is None else None
            if syn is not None:
                cd, ci = syn, None
                sub_eff = (inst["id"], i) if inst is not None else eff_site
            if cd == "<virtual>":
                continue
            why = self.may_inline(cd, depth + 1, stack + [d])
            if why:
                if why != "no MIR":
                    self.skipped[cd] = why
                if shim_mode is not None:
                    # `<fn item as FnOnce>::call_once(f, (args,))` of a callee that stays a call: show the real callee
                    nb = self.blocks[bb0 + i]
                    nb["term"] = dict(nb["term"], res=cd, callee=cd, name=cd.rsplit("::", 1)[-1], via_shim=True)
                continue
            cg = self.facts.fns[cd]
            craw = cg.mir
            nb = self.blocks[bb0 + i]
            nt = nb["term"]
            if syn is not None and getattr(self, "_syn_args", None) is not None:
                # a body built from a whole pipeline takes the pipeline's source and functions, not the adaptor object
                nt = nb["term"] = dict(nt, args=[_ren_op(a, lb, pb) for a in self._syn_args])
                self._syn_args = None
            args = nt["args"]
            argc = craw["argc"]
            clb_next = len(self.locals)
            # argument passing
            pre = []
            line = nt.get("line", 0)
            def asg(dst, op):
                pre.append({"s": "assign", "line": line, "exp": bool(nt.get("exp")), "lhs": {"l": dst, "p": []}, "rhs": {"rv": "use", "op": op}, "inl_arg": True})
            rust_call = t.get("callee") in ("std::ops::FnOnce::call_once", "std::ops::FnMut::call_mut", "std::ops::Fn::call")
            if shim_mode == "spread" and len(args) == 2:
                # fn item called through FnOnce/FnMut/Fn: (f, (a, b, ..)) -> f(a, b, ..)
                tup = args[1]
                for k in range(argc):
                    if tup.get("k") in ("copy", "move"):
                        pl = tup["pl"]
                        asg(clb_next + 1 + k, {"k": tup["k"], "pl": {"l": pl["l"], "p": pl["p"] + [{"f": k, "n": str(k), "ty": "?"}]}})
                    else:
                        asg(clb_next + 1 + k, {"k": "other"})
            elif len(args) == argc and shim_mode is None and not (rust_call and "{closure#" in cd and len(args) == 2):
                for k, a in enumerate(args):
                    asg(clb_next + 1 + k, a)
            elif "{closure#" in cd and len(args) == 2 and argc >= 1:
                # rust-call ABI: (closure, (a, b, ..)) is spread into the closure body's parameters
                if shim_mode == "spread_ref" and args[0].get("k") in ("copy", "move"):
                    # the closure body takes `&mut self` / `&self`, the shim is called with the closure by value
                    pre.append({"s": "assign", "line": line, "exp": True, "lhs": {"l": clb_next + 1, "p": []}, "rhs": {"rv": "ref", "mut": True, "pl": args[0]["pl"]}, "inl_arg": True})
                else:
                    asg(clb_next + 1, args[0])
                tup = args[1]
                for k in range(argc - 1):
                    if tup.get("k") in ("copy", "move"):
                        pl = tup["pl"]
                        asg(clb_next + 2 + k, {"k": tup["k"], "pl": {"l": pl["l"], "p": pl["p"] + [{"f": k, "n": str(k), "ty": "?"}]}})
                    else:
                        asg(clb_next + 2 + k, {"k": "other"})
            else:
                self.skipped[cd] = "argument count mismatch"
                continue
            uw = nt["unwind"] if isinstance(nt.get("unwind"), int) else None
            cbb0, clb = self.splice(cd, ci, depth + 1, stack + [d], uw, tuple(site_stack) + ((d, i),), eff_site=sub_eff if ci is None else None)
            assert clb == clb_next
            nb["stmts"] = nb["stmts"] + pre
            nb["inl_call"] = nt
            nb["term"] = {"t": "goto", "target": cbb0, "line": line, "exp": bool(nt.get("exp")), "inl_enter": cd}
            # returns of the callee copy: hand the value over and continue in the caller
            ncallee = len(craw["blocks"])
            for j in range(cbb0, cbb0 + ncallee):
                cb = self.blocks[j]
                ct = cb["term"]
                if ct["t"] == "return":
                    cb["stmts"] = cb["stmts"] + [{"s": "assign", "line": ct.get("line", line), "exp": False, "lhs": nt["dest"],
                                                  "rhs": {"rv": "use", "op": {"k": "move", "pl": {"l": clb, "p": []}}}, "inl_ret": cd}]
                    cb["term"] = {"t": "goto", "target": nt["target"], "line": ct.get("line", line), "exp": False, "inl_leave": cd}
                elif ct["t"] == "resume" and uw is not None:
                    cb["term"] = {"t": "goto", "target": uw, "line": ct.get("line", line), "exp": False, "inl_leave": cd}
        return bb0, lb


def inlined(facts, root, inst="auto", stop=None, max_depth=8, extern_ok=None, closures=True):
    """Fn for `root` (def path) with callees spliced in.  inst: "auto" = the unique monomorphic instance if there is exactly
    one, else the generic root instance; or an instance record; or None (syntactic resolution only)."""
    # only predicate-free requests are memoised (a predicate's identity is not a stable key)
    key = ("inl", root, inst["id"] if isinstance(inst, dict) else inst, max_depth, closures) if stop is None and extern_ok is None else None
    cache = facts.__dict__.setdefault("_inl_cache", {})
    if key is not None and key in cache:
        return cache[key]
    g = facts.fn(root)
    if inst == "auto":
        xs = [i for i in facts.instances_of(root) if i["kind"] == "item"]
        mono = [i for i in xs if not i.get("generic")]
        inst = mono[0] if len(mono) == 1 else (xs[0] if len(xs) == 1 else ([i for i in xs if i.get("root")] or [None])[0])
    il = Inliner(facts, stop, max_depth, extern_ok, closures)
    il.splice(root, inst, 0, [], None)
    raw = g.mir
    mir = {"blocks": il.blocks, "locals": il.locals, "argc": raw["argc"], "file": raw["file"], "line": raw["line"]}
    rec = dict(g.rec)
    rec["promoted"] = []
    f = Fn(facts, rec, mir)
    f.promoted = il.promoted
    f.inlined = il.inlined
    f.skipped = il.skipped
    f.root_inst = inst
    f.is_inlined = True
    if key is not None:
        cache[key] = f
    return f
