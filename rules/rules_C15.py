"""C15 — a client vanishing at any point is contained."""
import re
from core import *  # noqa
from roles import *  # noqa
import inline, roles, shared, symex
import rules_C14

EXPLANATION = (
    "Error-path structure decided on MIR (kernel behaviour is not): an incomplete head or an incomplete pre-read body can only end in an Err "
    "return — the EOF and I/O-error edges of the line reader and of the pre-read loop never reach the construction of a Request; both fallible "
    "steps of answering (print, flush) pass through the filter that turns BrokenPipe / ConnectionAborted / ConnectionReset (/Refused) into Ok, and "
    "Drop discards the result; no panic-capable construct is undischarged on any I/O-error path of the client-reachable region (same census as "
    "C14.B); the draining destructors stop at EOF and at the first error, and the framed readers propagate errors instead of retrying.")
TRUSTED = ["rustc MIR", "the kernel reports a vanished peer as EOF or one of the listed error kinds", "std effect table"]


def run(ctx):
    facts = ctx.facts
    roles.bind(facts)
    import rules_C12, rules_C03, request_rules as RR, parser_rules as PRS, framing_rules as FRM, absint
    import queue_rules as Q
    nr = FRM.fmodel(facts).nr0

    # ---- C15.1 incomplete head: end of stream / an I/O error in a head line is an error; no request is built; next() then stops silently
    rules_C12.eof_rules(ctx, "C15.1")
    PRS.trace_and_judge(ctx, "C15.1", "C15.1", only=lambda label: label in ("end of stream in the head", "I/O error while buffering the body"))

    # ---- C15.2 incomplete buffered body
    rules_C03.preread_rules(ctx, "C15.2")
    FM = FRM.fmodel(facts)
    bad = []
    n = 0
    for r in FM.rows:
        p = r["path"]
        for bb, c in p.conds:
            if c and c[0] == "variant" and c[2] in ("Err", "Break") and c[3] and absint.head_call(c[3]) is not None and re.search(r"std::io::Read::read$| as std::io::Read>::read$", absint.head_call(c[3])[1]):
                n += 1
                if r["kind"] != "err":
                    bad.append(Q._ret_str(p)[:80])
    ctx.ob("C15.2", "%s|read-error-builds-no-request" % nr.id, "an I/O error while pre-reading the body yields an error, not a Request", n > 0 and not bad, "%s:%d" % (nr.file, nr.line), None if not bad else str(bad[:3]))
    return c15_rest(ctx, facts, nr)


def io_error(kind):
    return ("call", "std::io::Error::new", [("agg", "std::io::ErrorKind", kind, {}), ("const", "x", '"x"', None)], -1, "")


def c15_rest(ctx, facts, nr):
    # ---- C15.3 answering a vanished client succeeds
    import request_rules as RR, absint
    import queue_rules as Q
    RM = RR.rmodel(facts)
    respond = RM.methods["respond"]
    where = "%s:%d" % (respond.file, respond.line)
    closing = ("BrokenPipe", "ConnectionAborted", "ConnectionReset")
    other = ("PermissionDenied", "Other", "InvalidData")
    for step, rx in (("print", RR.RAW_PRINT), ("flush", r"std::io::Write::flush$| as std::io::Write>::flush$|impl std::io::Write for .*>::flush$")):
        for kind in closing + other:
            def on_call(bb, t, args, st, _rx=rx, _kind=kind):
                n = call_name(t)
                if re.search(_rx, n) or (step == "flush" and t.get("callee") == "std::io::Write::flush"):
                    return ("agg", "std::result::Result", "Err", {"0": io_error(_kind)})
                if step == "flush" and re.search(RR.RAW_PRINT, n):
                    return ("agg", "std::result::Result", "Ok", {"0": ("unit",)})
                if step == "print" and (t.get("callee") == "std::io::Write::flush" or re.search(r" as std::io::Write>::flush$", n)):
                    return ("agg", "std::result::Result", "Ok", {"0": ("unit",)})
                return absint.io_model(bb, t, args, st)
            f, ps = RM.run(respond, extra={(2,): RR.RESPONSE}, on_call=on_call)
            ctx.paths += len(ps)
            rets = [p.ret() for p in ps if p.end[0] == "return"]
            if kind in closing:
                ok = bool(rets) and all(r[0] == "agg" and r[2] == "Ok" for r in rets)
                txt = "a client that has gone away while the response is %s (%s) makes respond() return success" % ("printed" if step == "print" else "flushed", kind)
            else:
                ok = bool(rets) and all(r[0] == "agg" and r[2] == "Err" for r in rets)
                txt = "any other error while the response is %s (%s) is still reported" % ("printed" if step == "print" else "flushed", kind)
            ctx.ob("C15.3", "%s|%s-fails-%s" % (respond.id, step, kind), txt, ok, where, None if ok else str([symex.sym_str(r)[:60] for r in rets][:3]))
    # the destructor's automatic answer ignores any I/O error (no panic, no propagation possible)
    g = RM.drop
    def on_call2(bb, t, args, st):
        if re.search(RR.RAW_PRINT, call_name(t)):
            return ("agg", "std::result::Result", "Err", {"0": io_error("PermissionDenied")})
        return absint.io_model(bb, t, args, st)
    f = RM.fn(g)
    st = symex.Sym(f)
    st.write_key(RM.key(RM.self_base(g), RM.wslot), ("some", RR.WRITER))
    allp = absint.explore(f, 0, st, on_call=on_call2, max_paths=4000)
    panics = [p for p in allp if p.end[0] == "diverge" and any(re.search(r"unwrap_failed|expect_failed|panic", e[2]) for e in p.calls()[-1:]) and
              any(c and c[0] == "variant" and c[2] == "Err" and absint.head_call(c[3]) is None for bb, c in p.conds)]
    ctx.ob("C15.3", "%s|drop-ignores-result" % g.id, "the automatic answer of a dropped Request ignores any I/O error (it is neither unwrapped nor propagated)", bool(allp) and not panics, "%s:%d" % (g.file, g.line))

    # ---- C15.4 no panic on the I/O-error paths (same census as C14.B)
    res = rules_C14.panic_census(ctx, "C15.4")

    # ---- C15.5 drains stop at EOF and at the first error; framed readers propagate errors
    import drain_rules as DR
    for adt, what in ((ER, "the length-limited body reader"), (shared.chunked_reader_adt(facts), "the chunked body reader")):
        if adt is None or facts.drop_fn(adt) is None:
            ctx.ob("C15.5", "%s|has-drain" % adt, "the body reader has a draining destructor", False, adt)
            continue
        DR.stops_rule(ctx, "C15.5", adt, what, emit=("stops",))
    import fused_rules
    for adt in (ER, FR):
        # at most one read of the inner reader on any path through the wrapper's read (helpers and closures of its file spliced in),
        # and a failed inner read comes back to the caller as an error
        M = fused_rules.FusedModel(facts, adt) if adt == FR else None
        rd = method(facts, T_READ, adt, "read")
        f2 = M.f if M else inline.inlined(facts, rd.id, stop=lambda d: facts.fns[d].rec.get("local") and facts.fns[d].file != rd.file, extern_ok=Q.std_small)
        def on_call(bb, t, args, s2):
            return fused_rules.ERR if t.get("callee") in fused_rules.READS else None
        ps = [p for p in absint.explore(f2, 0, None, on_call=on_call, max_paths=2000) if p.end[0] not in fused_rules.DEAD]
        bad = []
        for p in ps:
            n = len([e for e in p.calls() if e[6] in fused_rules.READS])
            r = absint.deep(p.state, p.ret()) if p.end[0] == "return" else None
            if n > 1:
                bad.append("%d inner reads on one path" % n)
            elif n == 1 and not (r is not None and r[0] == "agg" and r[2] == "Err"):
                bad.append("a failed inner read ends in %s" % (symex.sym_str(r)[:50] if r else p.end[0]))
            elif p.end[0] == "cut":
                bad.append("path not followed to its end")
        ok = bool(ps) and not bad and any(len([e for e in p.calls() if e[6] in fused_rules.READS]) == 1 for p in ps)
        ctx.ob("C15.5", "%s|no-retry" % rd.id, "a failing inner read is reported to the caller, not retried in a loop", ok, "%s:%d" % (rd.file, rd.line), None if ok else str(bad[:3]))

    # ---- C15.7 the accept thread ends only on the close flag or on an error of accept() itself: nothing that can fail because of what ONE
    # client does (setting up its connection object, asking the socket for the peer's address, a TLS handshake) may end the loop and with
    # it the serving of everybody else
    import server_rules as S
    a = S.smodel(facts).a
    accepts = set(a.call_blocks(lambda t: call_matches(t, r"connection::Listener::accept$")))
    bad7, n7 = [], 0
    for p in absint.explore(a, 0, None, max_visits=2, max_paths=20000):
        if p.end[0] != "return":
            continue
        n7 += 1
        for bb_, c_ in p.conds:
            if c_ and c_[0] == "variant" and c_[2] == "Err" and c_[3]:
                h_ = absint.head_call(c_[3])
                if h_ is not None and h_[3] not in accepts and not re.search(r"(Mutex::<T>::lock|Condvar::wait\w*|thread::Builder::spawn\w*)$", h_[1]):
                    bad7.append("the thread ends after %s failed" % short(h_[1]))
    ctx.ob("C15.7", "accept-thread|ends-only-on-accept-error", "the accept thread returns only when the close flag is set or accept() itself failed; a failure while setting up one client's connection does not end it",
           n7 > 0 and not bad7, "%s:%d" % (a.file, a.line), None if not bad7 else sorted(set(bad7))[0])

    # ---- C15.6 observation (not armed): the accept loop leaves on any accept() error
    # ---- C15.8 the requests that were complete when the client closed are delivered: every queued request wakes a receiver (C07's rule)
    import queue_rules as QR_
    QR_.rule_notify_after_push(ctx, "C15.8")
    ctx.note("observation (not a violation): the accept thread `break`s on any Listener::accept error; on Linux a reset connection in the backlog is still returned successfully, so no vanishing-client input is known to trigger it")
    return res
