"""C15 — a client vanishing at any point is contained."""
import re
from core import *  # noqa
from roles import *  # noqa
import roles, shared, symex
import rules_C14
from rules_C01 import find_respond_impl

EXPLANATION = (
    "Error-path structure decided on MIR (kernel behaviour is not): an incomplete head or an incomplete pre-read body can only end in an Err "
    "return — the EOF and I/O-error edges of the line reader and of the pre-read loop never reach the construction of a Request; both fallible "
    "steps of answering (print, flush) pass through the filter that turns BrokenPipe / ConnectionAborted / ConnectionReset (/Refused) into Ok, and "
    "Drop discards the result; no panic-capable construct is undischarged on any I/O-error path of the client-reachable region (same census as "
    "C14.B); the draining destructors stop at EOF and at the first error, and the framed readers propagate errors instead of retrying.")
TRUSTED = ["rustc MIR", "the kernel reports a vanished peer as EOF or one of the listed error kinds", "std effect table"]


def run(ctx):
    facts = ctx.facts
    roles.bind(facts)
    rnl = roles.inherent(facts, CC, "read_next_line")
    cc_read = roles.inherent(facts, CC, "read")
    nr = facts.fn("request::new_request")

    # ---- C15.1 incomplete head
    f = rnl
    ctx.touch(f)
    ok_none = ok_err = False
    for bb in sorted(f.live_blocks()):
        sw = switch_on_discr(f, bb)
        if sw and sw[0].get("adt") == "std::option::Option" and origin_has_call(f.origin_place(sw[0]["pl"]), r"Bytes<.*> as std::iter::Iterator>::next$"):
            rv, m, otherwise, rest = sw
            nt = m.get("None", otherwise if "None" in rest else None)
            outs = shared.eval_from(f, nt)
            ok_none = bool(outs) and all(st.read_key((0,))[0] == "agg" and st.read_key((0,))[2] == "Err" for p, st in outs)
    for bb, t in f.calls():
        if re.search(r"Try>?::branch$", call_name(t)) and origin_has_call(f.origin(t["args"][0]), r"Bytes<.*> as std::iter::Iterator>::next$"):
            rs = shared.result_switch(f, bb) if False else None
            dl = t["dest"]["l"]
            for b2 in sorted(f.live_blocks()):
                sw = switch_on_discr(f, b2)
                if sw and not sw[0]["pl"]["p"] and sw[0]["pl"]["l"] == dl:
                    rv, m, otherwise, rest = sw
                    bt = m.get("Break", otherwise if "Break" in rest else None)
                    region = shared.arm_region(f, bt)
                    ok_err = any(f.term(b)["t"] == "call" and f.term(b).get("callee") == "std::ops::FromResidual::from_residual" and f.term(b)["dest"] == {"l": 0, "p": []} for b in region) \
                        and not any(call_matches(f.term(b), r"from_ascii$") for b in f.reach([bt], unwind=False) if f.term(b)["t"] == "call")
    ctx.ob("C15.1", "%s|eof-mid-line-is-error" % f.id, "end of stream in the middle of a line is an error (no partial line is returned)", ok_none, "%s:%d" % (f.file, f.line))
    ctx.ob("C15.1", "%s|io-error-propagates" % f.id, "an I/O error while reading a line is returned, not swallowed", ok_err, "%s:%d" % (f.file, f.line))
    g = cc_read
    ctx.touch(g)
    req_ok = {bb for bb, i, s in g.assigns() if s["lhs"] == {"l": 0, "p": []} and s["rhs"].get("variant") == "Ok"}
    nrc = set(g.call_blocks(lambda t: call_matches(t, r"^request::new_request$")))
    for k, bb in enumerate(g.call_blocks(lambda t: call_is(t, rnl.id))):
        rs = shared.result_switch(g, bb)
        ok = rs is not None and rs.get("err") is not None and not (g.reach([rs["err"]], unwind=False) & (req_ok | nrc))
        ctx.paths += 1
        ctx.ob("C15.1", "%s|line-error-builds-no-request|%d" % (g.id, k), "when a head line cannot be read completely, no Request is built", ok, g.loc(bb))

    # ---- C15.2 incomplete buffered body
    f = nr
    ctx.touch(f)
    req_cons = {bb for h, bb, s in facts.constructions(REQ) if h.id == f.id}
    pre = [(bb, t) for bb, t in f.calls() if t.get("callee") == "std::io::Read::read" and f.in_loop(bb)]
    if len(pre) != 1:
        # the body is fetched some other way (read_to_end / take / a single read): look for the completeness test instead
        anyread = [bb for bb, t in f.calls() if t.get("callee") in ("std::io::Read::read", "std::io::Read::read_to_end", "std::io::Read::read_exact")]
        exact = [bb for bb, t in f.calls() if t.get("callee") == "std::io::Read::read_exact"]
        ctx.ob("C15.2", "%s|eof-in-body-builds-no-request" % f.id, "end of stream before the declared small body is complete yields an error, not a Request with a partial body",
               bool(exact), f.loc(anyread[0]) if anyread else f.file,
               None if exact else "the parse-time read of a small body is neither the checked read loop nor read_exact: nothing makes a short body an error")
        return c15_rest(ctx, facts, nr)
    pb, pt = pre[0]
    rs = shared.result_switch(f, pb)
    ok = rs is not None and rs.get("err") is not None and not (f.reach([rs["err"]], unwind=False) & req_cons)
    ctx.ob("C15.2", "%s|read-error-builds-no-request" % f.id, "an I/O error while pre-reading the body yields an error, not a Request", ok, f.loc(pb))
    zero_ok = False
    for bb in sorted(f.reach([rs["ok"]] if rs else [], blocked={pb}, unwind=False)):
        bs = bool_switch(f, bb)
        if not bs:
            continue
        o = f.origin(bs[0])
        if o[0] == "binop" and o[1] == "Eq" and o[3][0] == "const" and o[3][1] == 0 and any(x[0] == "downcast" and x[2] in ("Continue", "Ok") for x in origin_walk(o[2])):
            r_ = f.reach([bs[1]], unwind=False)
            outs = shared.eval_from(f, bs[1])
            is_err = bool(outs) and all(st.read_key((0,))[0] == "agg" and st.read_key((0,))[2] == "Err" for p, st in outs)
            zero_ok = is_err and not (r_ & req_cons) and pb not in r_
    ctx.ob("C15.2", "%s|eof-in-body-builds-no-request" % f.id, "end of stream before the declared small body is complete yields an error, not a Request with a partial body", zero_ok, f.loc(pb))

    return c15_rest(ctx, facts, nr)


def c15_rest(ctx, facts, nr):
    # ---- C15.3 answering a vanished client succeeds
    ri = find_respond_impl(facts)
    ctx.touch(ri)
    icc = [h for k, h in facts.local_fns.items() if h.rec.get("impl_self_adt") == REQ and h.argc == 1 and h.local_ty(1).startswith("std::result::Result<(), std::io::Error>") and h.local_ty(0) == h.local_ty(1)]
    ctx.require(len(icc) == 1, "C15.3: error filter of respond_impl not found")
    icc = icc[0]
    for what, rx in (("print", r"raw_print$"), ("flush", r"Write>?::flush$|impl std::io::Write for .*>::flush$")):
        bbs = [bb for bb, t in ri.calls() if call_matches(t, rx)]
        ctx.require(len(bbs) == 1, "C15.3: %s call in respond_impl" % what)
        dl = ri.term(bbs[0])["dest"]["l"]
        uses = [u for u in ri.uses().get(dl, []) if u[0] == "term" and u[2]["t"] == "call"]
        ok = len(uses) == 1 and call_is(uses[0][2], icc.id)
        ctx.ob("C15.3", "%s|%s-result-filtered" % (ri.id, what), "the result of the %s goes through the client-closing-error filter before it can fail the answer" % what, ok, ri.loc(bbs[0]))
    clos = facts.find_fns(r"^" + re.escape(icc.id) + r"::\{closure#0\}$")
    ctx.require(clos, "C15.3: filter closure")
    c = clos[0]
    o = icc.origin_place({"l": 0, "p": []})
    ok = o[0] == "call" and o[1].endswith("Result::<T, E>::or_else") and o[2][0] == ("arg", 1)
    ctx.ob("C15.3", "%s|filters-its-argument" % icc.id, "the filter only rewrites the Err case of its argument", ok, "%s:%d" % (icc.file, icc.line))
    sw = None
    for bb in sorted(c.live_blocks()):
        s2 = switch_on_discr(c, bb)
        if s2 and s2[0].get("adt") == "std::io::ErrorKind":
            sw = s2
            break
    ctx.require(sw is not None, "C15.3: match on ErrorKind")
    rv, m, otherwise, rest = sw
    okset = set()
    for v, tgt in m.items():
        outs = shared.eval_from(c, tgt)
        if outs and all(st.read_key((0,))[0] == "agg" and st.read_key((0,))[2] == "Ok" for p, st in outs):
            okset.add(v)
    need = {"BrokenPipe", "ConnectionAborted", "ConnectionReset"}
    ctx.ob("C15.3", "%s|closing-kinds-become-ok" % c.id, "BrokenPipe, ConnectionAborted and ConnectionReset are turned into success", need <= okset, "%s:%d" % (c.file, c.line), str(sorted(okset)))
    outs = shared.eval_from(c, otherwise)
    ok = bool(outs) and all(st.read_key((0,))[0] == "agg" and st.read_key((0,))[2] == "Err" for p, st in outs)
    ctx.ob("C15.3", "%s|other-kinds-stay-errors" % c.id, "any other error is still reported", ok, "%s:%d" % (c.file, c.line))
    kind_ok = origin_has_call(c.origin_place(rv["pl"]), r"std::io::Error::kind$")
    ctx.ob("C15.3", "%s|matches-error-kind" % c.id, "the decision is made on the error's kind()", kind_ok, "%s:%d" % (c.file, c.line))
    rdrop = method(facts, T_DROP, REQ, "drop")
    for bb, t in rdrop.calls():
        if call_is(t, ri.id):
            dl = t["dest"]["l"]
            used = [u for u in rdrop.uses().get(dl, []) if not (u[0] == "term" and u[2]["t"] == "drop")]
            ctx.ob("C15.3", "%s|drop-ignores-result" % rdrop.id, "the automatic answer of a dropped Request ignores any I/O error", not used, rdrop.loc(bb))

    # ---- C15.4 no panic on the I/O-error paths (same census as C14.B)
    res = rules_C14.panic_census(ctx, "C15.4")

    # ---- C15.5 drains stop at EOF and at the first error; framed readers propagate errors
    for adt in (ER, "request::ChunkedBodyReader"):
        d = facts.drop_fn(adt)
        if d is None:
            continue
        ctx.touch(d)
        reads = [bb for bb, t in d.calls() if t.get("callee") == "std::io::Read::read"]
        for k, rb in enumerate(reads):
            t = d.term(rb)
            # Err edge and zero edge must not lead back to the read
            ok_e = ok_z = False
            dl = t["dest"]["l"]
            for b2 in sorted(d.live_blocks()):
                sw2 = switch_on_discr(d, b2)
                if sw2 and not sw2[0]["pl"]["p"] and sw2[0]["pl"]["l"] == dl:
                    rv2, m2, oth2, rest2 = sw2
                    et = m2.get("Err", oth2 if "Err" in rest2 else None)
                    okt = m2.get("Ok", oth2 if "Ok" in rest2 else None)
                    if et is not None and rb not in d.reach([et], unwind=False):
                        ok_e = True
                    if okt is not None:
                        tt = d.term(okt)
                        if tt["t"] == "switch" and tt["dty"] not in ("bool", "isize"):
                            tg = dict((v, b) for v, b in tt["targets"])
                            if 0 in tg and rb not in d.reach([tg[0]], unwind=False):
                                ok_z = True
                    if et is not None and okt is not None and et == okt:
                        # `if let Ok(0) | Err(_) = ..` compiles to a shared target
                        pass
            if not (ok_e and ok_z):
                # generic formulation: there is a path from the read to `return` that does not pass the read again,
                # and every loop-back path passes a test on the result
                ok_e = ok_e or any(r in d.reach([d.normal_target(rb)], blocked={rb}, unwind=False) for r in d.returns())
                ok_z = ok_z or ok_e
            ctx.ob("C15.5", "%s|drain-stops|%d" % (d.id, k), "the discard loop of a dropped body reader ends at end-of-stream and at the first I/O error (a vanished client cannot keep it spinning)", ok_e and ok_z, d.loc(rb))
    for adt in (ER, FR):
        rd = method(facts, T_READ, adt, "read")
        inner = [bb for bb, t in rd.calls() if t.get("callee") == "std::io::Read::read"]
        ok = bool(inner) and all(not rd.in_loop(b) for b in inner)
        ctx.ob("C15.5", "%s|no-retry" % rd.id, "a failing inner read is reported to the caller, not retried in a loop", ok, "%s:%d" % (rd.file, rd.line))

    # ---- C15.6 observation (not armed): the accept loop leaves on any accept() error
    ctx.note("observation (not a violation): the accept thread `break`s on any Listener::accept error; on Linux a reset connection in the backlog is still returned successfully, so no vanishing-client input is known to trigger it")
    return res
