"""Rules about the Server's receive API and the connection task, shared by C07 / C17 (representation independent:
the functions are analysed with their private helpers and small std combinators spliced in, and the mapping from what the
queue hands out to what the application gets is decided by variant propagation)."""
import re
from core import *  # noqa
from roles import *  # noqa
import roles, shared, symex, inline, absint
import queue_rules as Q

RQ = ("sym", "request")
ERR = ("sym", "accept-error")
RESULT = "std::result::Result"


def ok(v):
    return ("agg", RESULT, "Ok", {"0": v})


def is_err(v, payload=None):
    return v[0] == "agg" and v[1] == RESULT and v[2] == "Err" and (payload is None or v[3].get("0") == payload)


def message_shapes(facts):
    """(adt, {kind: term}) of the queue's element type: the variant carrying a Request and the one carrying an io::Error"""
    m = Q.model(facts)
    srv = facts.adt(SERVER)
    msg = None
    for fl in srv["variants"][0]["fields"]:
        i = fl["ty"].find(m.adt + "<")
        if i >= 0:
            j = i + len(m.adt) + 1
            depth, k = 1, j
            while k < len(fl["ty"]) and depth:
                depth += {"<": 1, ">": -1}.get(fl["ty"][k], 0)
                k += 1
            msg = fl["ty"][j:k - 1]
    if msg is not None and re.match(r"^std::result::Result<%s, std::io::Error>$" % re.escape(REQ), msg):
        # the queue carries io::Result<Request> itself
        return msg, {"request": ("agg", RESULT, "Ok", {"0": RQ}), "error": ("agg", RESULT, "Err", {"0": ERR})}
    if msg is None or msg not in facts.adts:
        raise CheckerError("server rules: the Server holds no queue of a local message type")
    shapes = {}
    a_ = facts.adt(msg)
    if a_["kind"] == "Struct" and len(a_["variants"][0]["fields"]) == 1 and \
            re.match(r"^std::result::Result<%s, std::io::Error>$" % re.escape(REQ), a_["variants"][0]["fields"][0]["ty"]):
        # a newtype around io::Result<Request>
        fn_ = a_["variants"][0]["fields"][0]["name"]
        vn_ = a_["variants"][0]["name"]
        return msg, {"request": ("agg", msg, vn_, {fn_: ("agg", RESULT, "Ok", {"0": RQ})}), "error": ("agg", msg, vn_, {fn_: ("agg", RESULT, "Err", {"0": ERR})})}
    for v in facts.adt(msg)["variants"]:
        tys = [x["ty"] for x in v["fields"]]
        names = [x["name"] for x in v["fields"]]
        if len(tys) == 1 and tys[0] == REQ:
            shapes["request"] = ("agg", msg, v["name"], {names[0]: RQ})
        elif len(tys) == 1 and tys[0] == "std::io::Error":
            shapes["error"] = ("agg", msg, v["name"], {names[0]: ERR})
    if set(shapes) != {"request", "error"}:
        raise CheckerError("server rules: message type %s does not have exactly a Request variant and an io::Error variant" % msg)
    return msg, shapes


def server_fn(facts, name):
    m = Q.model(facts)
    mids = {x.id for x in m.methods}
    return inline.inlined(facts, "Server::" + name, stop=lambda d: d in mids, extern_ok=Q.std_small)


def rule_recv_mapping(ctx, rule, which=("request", "error", "none")):
    """what recv / recv_timeout / try_recv return for each thing the queue can hand out"""
    facts = ctx.facts
    m = Q.model(facts)
    msg, shapes = message_shapes(facts)
    n = 0
    expect = {
        "recv": {"request": lambda v: v == ok(RQ), "error": lambda v: is_err(v, ERR), "none": lambda v: is_err(v)},
        "recv_timeout": {"request": lambda v: v == ok(("some", RQ)), "error": lambda v: is_err(v, ERR), "none": lambda v: v == ok(("none",))},
        "try_recv": {"request": lambda v: v == ok(("some", RQ)), "error": lambda v: is_err(v, ERR), "none": lambda v: v == ok(("none",))},
    }
    text = {"request": "the request taken from the queue is the value returned to the application",
            "error": "a queued accept error is returned as Err(that error)",
            "none": "an unblocked / empty-handed pop is reported as %s"}
    for name in ("recv", "recv_timeout", "try_recv"):
        f = server_fn(facts, name)
        ctx.touch(f)
        cb = [bb for bb, t in f.calls() if call_name(t) in m.consumers]
        ctx.ob(rule, "Server::%s|one-queue-consumer" % name, "Server::%s takes from the queue exactly once per call" % name, len(cb) == 1 and not f.in_loop(cb[0]) if cb else False, "%s:%d" % (f.file, f.line))
        if len(cb) != 1:
            continue
        t = f.term(cb[0])
        for case in which:
            n += 1
            st = symex.Sym(f)
            st.write_key(pl_key(t["dest"]), ("none",) if case == "none" else ("some", shapes[case]))
            paths = [p for p in absint.explore(f, t["target"], st) if p.end[0] not in ("diverge", "resume", "terminate", "unreachable")]
            ctx.paths += len(paths)
            bad = [Q._ret_str(p) for p in paths if not (p.end[0] == "return" and expect[name][case](p.ret()))]
            txt = text[case] % ("an error" if name == "recv" else "Ok(None)") if case == "none" else text[case]
            ctx.ob(rule, "Server::%s|%s-mapping" % (name, case), txt, bool(paths) and not bad, f.loc(cb[0]), None if not bad else str(bad[:3]))
    return n


def rule_incoming_forwards_recv(ctx, rule):
    facts = ctx.facts
    inc = method(facts, T_ITER, "IncomingRequests", "next")
    f = inline.inlined(facts, inc.id, stop=lambda d: d.startswith("Server::"), extern_ok=Q.std_small)
    cb = [bb for bb, t in f.calls() if call_name(t) == "Server::recv"]
    good = len(cb) == 1
    detail = None
    if not cb:
        # it takes from the queue itself (through a helper shared with recv): judged like recv -- a request is yielded, an error or an
        # unblock token ends the iteration
        m = Q.model(facts)
        mids = {x.id for x in m.methods}
        f = inline.inlined(facts, inc.id, stop=lambda d: d in mids, extern_ok=Q.std_small)
        pc = [bb for bb, t in f.calls() if call_name(t) in mids and f.local_ty(f.term(bb)["dest"]["l"]).startswith("std::option::Option<")]
        msg, shapes = message_shapes(facts)
        good = len(pc) == 1
        if good:
            t = f.term(pc[0])
            for val, want in ((("some", shapes["request"]), ("some", RQ)), (("some", shapes["error"]), ("none",)), (("none",), ("none",))):
                st = symex.Sym(f)
                st.write_key(pl_key(t["dest"]), val)
                paths = [p for p in absint.explore(f, t["target"], st) if p.end[0] not in ("diverge", "resume", "terminate", "unreachable")]
                bad = [Q._ret_str(p) for p in paths if not (p.end[0] == "return" and absint.deep(p.state, p.ret()) == want)]
                if bad or not paths:
                    good = False
                    detail = str(bad[:3])
    elif good:
        t = f.term(cb[0])
        for val, want in ((ok(RQ), ("some", RQ)), (("agg", RESULT, "Err", {"0": ERR}), ("none",))):
            st = symex.Sym(f)
            st.write_key(pl_key(t["dest"]), val)
            paths = [p for p in absint.explore(f, t["target"], st) if p.end[0] not in ("diverge", "resume", "terminate", "unreachable")]
            bad = [Q._ret_str(p) for p in paths if not (p.end[0] == "return" and p.ret() == want)]
            if bad or not paths:
                good = False
                detail = str(bad[:3])
    ctx.ob(rule, "%s|forwards-recv" % inc.id, "the incoming-requests iterator yields exactly what recv() returns (and ends on an error)", good, "%s:%d" % (inc.file, inc.line), detail)


def rule_connection_task_pushes(ctx, rule):
    """every request produced by the connection parser is pushed to the server's queue"""
    facts = ctx.facts
    m = Q.model(facts)
    cc_next = method(facts, T_ITER, CC, "next")
    elem_roots = set(m.producer_roots("elem"))
    mids = {x.id for x in m.methods}
    sites = facts.callers_of(cc_next.id)
    ctx.floor("%s connection-iterator call sites" % rule, len(sites), 1)
    for k, (g, gbb, gt) in enumerate(sites):
        f = inline.inlined(facts, g.id, stop=lambda d: d in mids or d == cc_next.id, extern_ok=Q.std_small)
        ctx.touch(f, calls=1)
        for bb in [b for b, t in f.calls() if call_name(t) == cc_next.id]:
            t = f.term(bb)
            st = symex.Sym(f)
            st.write_key(pl_key(t["dest"]), ("some", RQ))
            def stop(b2, t2, st2):
                if t2["t"] == "call" and call_name(t2) == cc_next.id:
                    return "next()"
            paths = [p for p in absint.explore(f, t["target"], st, stop=stop) if p.end[0] not in ("diverge", "resume", "terminate", "unreachable")]
            ctx.paths += len(paths)
            bad = []
            for p in paths:
                pushes = [e for e in p.calls() if e[2] in elem_roots]
                if len(pushes) != 1 or not absint.contains(pushes[0][3][1] if len(pushes[0][3]) > 1 else (), RQ):
                    bad.append("%s with %d pushes" % (Q._ret_str(p), len(pushes)))
            ctx.ob(rule, "%s|push-every-request|%d" % (g.id, k), "every request produced by the connection parser is pushed to the server's queue exactly once (no filter, no early exit, no duplicate)",
                   bool(paths) and not bad, f.loc(bb), None if not bad else str(bad[:3]))


def rule_unblock_delegates(ctx, rule):
    facts = ctx.facts
    m = Q.model(facts)
    toks = set(m.producer_roots("token"))
    f = server_fn(facts, "unblock")
    paths = [p for p in absint.explore(f, 0) if p.end[0] not in ("diverge", "resume", "terminate", "unreachable")]
    bad = [len([e for e in p.calls() if e[2] in toks]) for p in paths]
    ctx.ob(rule, "Server::unblock|delegates-once", "Server::unblock queues exactly one unblock token", bool(paths) and all(x == 1 for x in bad) and all(p.end[0] == "return" for p in paths),
           "%s:%d" % (f.file, f.line), None if all(x == 1 for x in bad) else "tokens per call on the paths: %s" % bad)
    # nothing else queues tokens
    for rid in toks:
        for g, bb, t in facts.callers_of(rid):
            ctx.ob(rule, "token-producer-caller|%s" % g.id, "unblock tokens are queued only on behalf of Server::unblock", g.id == "Server::unblock" or g.rec.get("impl_self_adt") == m.adt, g.loc(bb))


# ------------------------------------------------------------------------------------------------
# the accept thread and the per-connection task, found by role

class ServerModel:
    def __init__(self, facts):
        import pool_rules
        self.facts = facts
        P = pool_rules.model(facts)
        m = Q.model(facts)
        self.P, self.Q = P, m
        stop_adts = {P.tp, m.adt, CC, RTS, "connection::Listener", "connection::Connection"}
        def stop(d):
            g = facts.fns.get(d)
            return g is not None and (g.rec.get("impl_self_adt") in stop_adts or d == P.worker_def)
        self.stop = stop
        self.fl = inline.inlined(facts, "Server::from_listener", stop=stop, extern_ok=Q.std_small)
        cl = [c for bb, c in pool_rules.closures_spawned(self.fl)]
        if len(cl) != 1 or cl[0] is None:
            raise CheckerError("server rules: Server::from_listener does not start exactly one thread with a closure (%s)" % cl)
        self.accept_def = cl[0]
        self.a = inline.inlined(facts, self.accept_def, stop=stop, extern_ok=Q.std_small)
        self.cc_next = method(facts, T_ITER, CC, "next")
        tasks = []
        for bb, i, s in self.a.assigns():
            if s["rhs"]["rv"] == "agg" and s["rhs"].get("agg") == "closure":
                cd = s["rhs"]["closure"]
                g = inline.inlined(facts, cd, stop=stop, extern_ok=Q.std_small)
                if any(call_name(t) == self.cc_next.id for b2, t in g.calls()):
                    tasks.append((cd, g, bb))
        if len(tasks) != 1:
            raise CheckerError("server rules: the accept thread does not build exactly one per-connection task closure (found %d)" % len(tasks))
        self.task_def, self.tk, self.task_bb = tasks[0]


def smodel(facts):
    if not hasattr(facts, "_server_model"):
        facts._server_model = ServerModel(facts)
    return facts._server_model
