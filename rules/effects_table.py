"""Effect table for std / dependency functions (DESIGN Appendix B).

`body_override(inst)`: for these callees the walk does not descend into std internals; the
effects listed are reviewed facts about the std API.  `leaf_effects(inst)`: functions without
MIR (non-generic, non-inline std functions, libc).

Tags:
  BLOCK-IO    may block on a socket / file (read, write, flush, accept, connect)
  CHAN-RECV   blocks until a message arrives on an mpsc channel
  CV-WAIT     blocks on a condition variable (releases the paired mutex meanwhile)
  CV-WAIT-T   same, with a timeout
  LOCK        acquires a std Mutex (bounded by the holder's critical section)
  SLEEP, JOIN thread::sleep / JoinHandle::join / park
  SPAWN       creates a thread
  NOTIFY      condvar notify;  SEND  mpsc send (never blocks on an unbounded channel)
  NET-CTL     non-blocking socket control syscalls (shutdown, peer_addr, try_clone ...)
"""
import re

_OVERRIDES = [
    # (regex on instance def path, regex on method name or None, effects)
    (r"^std::sync::mpsc::Receiver::<T>::(recv|recv_timeout|recv_deadline)$", {"CHAN-RECV"}),
    (r"^<std::sync::mpsc::(Iter|IntoIter)<.*> as std::iter::Iterator>::next$", {"CHAN-RECV"}),
    (r"^std::sync::mpsc::Receiver::<T>::try_recv$", set()),
    (r"^std::sync::mpsc::Receiver::<T>::(iter|try_iter)$", set()),
    (r"^std::sync::mpsc::Sender::<T>::send$", {"SEND"}),
    (r"^std::sync::mpsc::SyncSender::<T>::send$", {"SEND", "CHAN-RECV"}),
    (r"^std::sync::mpsc::channel$", set()),
    (r"^std::sync::Condvar::wait$", {"CV-WAIT"}),
    (r"^std::sync::Condvar::wait_while$", {"CV-WAIT"}),
    (r"^std::sync::Condvar::(wait_timeout|wait_timeout_ms|wait_timeout_while)$", {"CV-WAIT-T"}),
    (r"^std::sync::Condvar::(notify_one|notify_all)$", {"NOTIFY"}),
    (r"^std::sync::Condvar::new$", set()),
    (r"^std::sync::Mutex::<T>::lock$", {"LOCK"}),
    (r"^std::sync::Mutex::<T>::(new|try_lock|get_mut|into_inner|is_poisoned)$", set()),
    (r"^<std::sync::MutexGuard<'_, T> as std::ops::Drop>::drop$", {"UNLOCK"}),
    (r"^std::sync::RwLock::<T>::(read|write)$", {"LOCK"}),
    (r"^std::thread::sleep(_ms|_until)?$", {"SLEEP"}),
    (r"^std::thread::park(_timeout|_timeout_ms)?$", {"SLEEP"}),
    (r"^std::thread::JoinHandle::<T>::join$", {"JOIN"}),
    (r"^std::thread::(spawn|Builder::spawn|Builder::spawn_unchecked|scope)$", {"SPAWN"}),
    (r"^std::thread::yield_now$", set()),
    (r"^std::time::(Instant|SystemTime)::(now|elapsed|duration_since)$", set()),
    # sockets and files
    (r"^<&?(std::net::TcpStream|std::os::unix::net::UnixStream|std::fs::File) as std::io::(Read|Write)>::\w+$", {"BLOCK-IO"}),
    (r"^std::net::(TcpListener|TcpStream)::(accept|connect|connect_timeout|incoming|bind)$", {"BLOCK-IO"}),
    (r"^std::os::unix::net::(UnixListener|UnixStream)::(accept|connect|connect_addr|incoming|bind|bind_addr)$", {"BLOCK-IO"}),
    (r"^std::net::(TcpListener|TcpStream)::\w+$", {"NET-CTL"}),
    (r"^std::os::unix::net::(UnixListener|UnixStream)::\w+$", {"NET-CTL"}),
    (r"^std::fs::(File::\w+|remove_file|metadata|read|write|read_to_string)$", {"FS"}),
    (r"^std::io::(stdin|stdout|stderr)$", set()),
    (r"^<std::io::(Stdout|Stderr|StdoutLock<'_>|StderrLock<'_>) as std::io::Write>::\w+$", {"BLOCK-IO"}),
    # formatting machinery never blocks by itself; it calls back through `dyn fmt::Write`
    # (handled by the dyn-argument fan-out of the mono graph)
    # atomics, arcs
    (r"^std::sync::atomic::Atomic\w+::\w+$", set()),
    (r"^core::sync::atomic::Atomic\w+::\w+$", set()),
    # panics are not tracked as effects (C14 does a site census instead)
    (r"^(core|std)::panicking::\w+", {"PANIC"}),
    (r"^core::(option|result)::(unwrap_failed|expect_failed)$", {"PANIC"}),
    (r"^std::rt::\w+", set()),
    (r"^std::process::(abort|exit)$", {"ABORT"}),
    (r"^std::alloc::(handle_alloc_error|rust_oom)$", {"ABORT"}),
    (r"^alloc::alloc::handle_alloc_error$", {"ABORT"}),
    (r"^alloc::raw_vec::(capacity_overflow|handle_error)$", {"ABORT"}),
    # logging facade: `log::__private_api::log` dispatches to a user-installed `dyn Log`;
    # tiny-http's own code path is unaffected by it
    (r"^log::", {"LOG"}),
]
_OVR = [(re.compile(a), b) for a, b in _OVERRIDES]

_cache = {}


def body_override(inst):
    d = inst["def"]
    if d in _cache:
        return _cache[d]
    res = None
    for r, eff in _OVR:
        if r.search(d):
            res = set(eff)
            break
    _cache[d] = res
    return res


_LEAF_IO = re.compile(r"^libc::.*::(read|write|recv|send|accept|accept4|connect|poll|readv|writev)$")


def leaf_effects(inst):
    d = inst["def"]
    if _LEAF_IO.search(d):
        return {"BLOCK-IO"}
    return set()


def is_known_leaf(inst):
    return body_override(inst) is not None
