#!/usr/bin/env python3
"""Pretty-print bodies from a fact file: show.py <facts.json> <substring> [--inst]"""
import json, sys

def pl(p):
    s = "_%d" % p["l"]
    for e in p["p"]:
        if e == "*": s = "(*%s)" % s
        elif isinstance(e, dict) and "n" in e: s += "." + e["n"]
        elif isinstance(e, dict) and "d" in e: s = "(%s as %s)" % (s, e["d"])
        elif isinstance(e, dict) and "i" in e: s += "[_%d]" % e["i"]
        else: s += "[%s]" % json.dumps(e)
    return s

def op(o):
    if o["k"] in ("copy", "move"): return o["k"] + " " + pl(o["pl"])
    if o["k"] == "const":
        x = o["v"]
        if "promoted" in o: x += " <promoted %d>" % o["promoted"]
        return x
    return "?"

def rv(r):
    k = r["rv"]
    if k == "use": return op(r["op"])
    if k == "ref": return ("&mut " if r["mut"] else "&") + pl(r["pl"])
    if k == "rawptr": return "&raw " + pl(r["pl"])
    if k == "cast": return "%s as %s (%s)" % (op(r["op"]), r["to"], r["kind"])
    if k == "binop": return "%s(%s, %s)" % (r["op"], op(r["a"]), op(r["b"]))
    if k == "unop": return "%s(%s)" % (r["op"], op(r["a"]))
    if k == "discr": return "discriminant(%s)" % pl(r["pl"])
    if k == "agg":
        head = r.get("adt", r.get("closure", r["agg"]))
        if "variant" in r: head += "::" + r["variant"]
        names = r.get("fields")
        ops = [op(o) for o in r["ops"]]
        if names and len(names) == len(ops): ops = ["%s: %s" % (n, o) for n, o in zip(names, ops)]
        return "%s{%s}" % (head, ", ".join(ops))
    if k == "repeat": return "[%s; %s]" % (op(r["op"]), r["n"])
    return k + ":" + r.get("dbg", "")

def show_body(b, m=None):
    m = m or b["mir"]
    print("fn %s   [%s:%d]" % (b["id"], m["file"], m["line"]))
    for i, l in enumerate(m["locals"]):
        print("    let _%d: %s%s" % (i, l["ty"], ("  // " + l["name"]) if l["name"] else ""))
    for i, blk in enumerate(m["blocks"]):
        print("  bb%d%s:" % (i, " (cleanup)" if blk["cleanup"] else ""))
        for s in blk["stmts"]:
            if s["s"] == "assign": print("      %s = %s    // L%d" % (pl(s["lhs"]), rv(s["rhs"]), s["line"]))
            elif s["s"] == "setdiscr": print("      discriminant(%s) = %s" % (pl(s["lhs"]), s["variant"]))
        t = blk["term"]; k = t["t"]
        if k == "call":
            name = t.get("res_name") or t.get("callee") or ("fnptr " + op(t["fnop"]))
            print("      %s = %s(%s) -> bb%s unwind %s    // L%d%s" % (pl(t["dest"]), name, ", ".join(op(a) for a in t["args"]), t["target"], t["unwind"], t["line"], " [exp]" if t["exp"] else ""))
        elif k == "switch":
            print("      switchInt(%s) -> %s otherwise bb%d    // L%d" % (op(t["discr"]), ", ".join("%d:bb%d" % (v, bb) for v, bb in t["targets"]), t["otherwise"], t["line"]))
        elif k == "drop":
            print("      drop(%s: %s) -> bb%d unwind %s    // L%d" % (pl(t["pl"]), t["ty"], t["target"], t["unwind"], t["line"]))
        elif k == "assert":
            print("      assert(%s == %s, %s) -> bb%d unwind %s    // L%d" % (op(t["cond"]), t["expected"], t["kind"], t["target"], t["unwind"], t["line"]))
        elif k == "goto": print("      goto bb%d" % t["target"])
        else: print("      %s" % k)

if __name__ == "__main__":
    d = json.load(open(sys.argv[1]))
    pat = sys.argv[2]
    if "--inst" in sys.argv:
        for i in d["instances"]:
            if pat in i["name"]:
                print(i["id"], i["name"], i["kind"], "body" if i["has_body"] else "leaf")
                for e in i.get("edges", []):
                    to = e.get("to")
                    print("    bb%d %s -> %s" % (e["bb"], e["k"], d["instances"][to]["name"] if to is not None else json.dumps({k: v for k, v in e.items() if k not in ("bb", "k", "to")})))
    else:
        for b in d["bodies"]:
            if pat in b["id"]:
                show_body(b)
                for i, p in enumerate(b.get("promoted", [])):
                    print("  -- promoted[%d]" % i); show_body(b, p)
