"""C12 — connection persistence is decided correctly and the connection closes in order."""
import re, itertools
from core import *  # noqa
from roles import *  # noqa
import roles, shared, symex

EXPLANATION = (
    "Decision-table extraction and census on MIR: the keep-alive decision of ClientConnection::next is walked for every assignment of the "
    "atoms {Connection header present, contains close / upgrade / keep-alive, version == 1.0} and compared with the table of the property "
    "(DESIGN A.5); the haystack is the ASCII-lowercased Connection value; the last-request flag gates every read and is never reset; the two "
    "halves of the socket are built with (close_read, close_write) = (true,false)/(false,true) and the destructor shuts down exactly the "
    "flagged direction; shutdown/leak census: the write half dies (flush + shutdown(Write)) exactly when the builder and every handed-out "
    "writer are gone; a clean EOF between requests ends the parser silently.")
TRUSTED = ["rustc MIR", "str::contains / to_ascii_lowercase semantics", "BufWriter flushes in its Drop", "the peer's TCP stack shows FIN as end-of-stream"]


def run(ctx):
    facts = ctx.facts
    roles.bind(facts)
    f = cc_next = method(facts, T_ITER, CC, "next")
    cc_read = roles.inherent(facts, CC, "read")
    cc_new = roles.inherent(facts, CC, "new")
    ctx.touch(f)
    FLAG = "no_more_requests"

    # ---- C12.1 keep-alive decision table
    some_bbs = {bb for bb, i, s in f.assigns() if s["lhs"] == {"l": 0, "p": []} and s["rhs"]["rv"] == "agg" and s["rhs"].get("variant") == "Some"}
    ctx.require(len(some_bbs) == 1, "C12.1: expected one `return Some(rq)` site")
    atoms = {}
    lower_local = None
    for bb, t in f.calls():
        if call_matches(t, r"<impl str>::contains") and t.get("target") is not None:
            lits = [c for c in arg_consts(f, t) if isinstance(c, str)]
            bs = bool_switch(f, t["target"])
            if lits and bs and op_local(bs[0]) == t["dest"]["l"]:
                recv = f.origin(t["args"][0])
                atoms[t["target"]] = ("contains:" + lits[0], {True: bs[1], False: bs[2]}, recv, bb)
        if call_matches(t, r"<common::HTTPVersion as std::cmp::PartialEq(<\(u8, u8\)>)?>::(eq|ne)$") and t.get("target") is not None:
            bs = bool_switch(f, t["target"])
            if bs and op_local(bs[0]) == t["dest"]["l"]:
                c = [shared.const_of_origin(f, f.origin(a)) for a in t["args"]]
                consts = [shared.sym_const(x[1]) for x in c if x and x[0] == "promoted"]
                isv = any(origin_has_call(f.origin(a), r"Request::http_version$") for a in t["args"])
                if isv and consts:
                    val = consts[0]
                    tup = val[2] if isinstance(val, tuple) and len(val) == 3 and val[0] == HV else val
                    neg = t["name"] == "ne"
                    atoms[t["target"]] = ("version==%s" % (tup,), {(not neg): bs[1], neg: bs[2]}, None, bb)
    opt_sw = None
    for bb in sorted(f.live_blocks()):
        sw = switch_on_discr(f, bb)
        if sw and sw[0].get("adt") == "std::option::Option" and not f.blocks[bb]["cleanup"]:
            o = f.origin_place(sw[0]["pl"])
            if origin_has_call(o, r"to_ascii_lowercase|to_lowercase") or any(x[0] == "agg" and "next::{closure" in str(x[1]) for x in origin_walk(o)):
                rv, m, otherwise, rest = sw
                if any(sb in f.reach([bb], unwind=False) for sb in some_bbs):
                    opt_sw = (bb, m, otherwise, rest, o)
                    break
    ctx.require(opt_sw is not None, "C12.1: the match on the lowercased Connection header was not found")
    obb, m, otherwise, rest, oorigin = opt_sw
    atoms[obb] = ("present", {True: m.get("Some", otherwise if "Some" in rest else None), False: m.get("None", otherwise if "None" in rest else None)}, None, obb)
    names = sorted({a[0] for a in atoms.values()})
    ctx.counts["C12.1 atoms"] = names
    need = {"present", "contains:close", "contains:upgrade", "contains:keep-alive", "version==(1, 0)"}
    ctx.ob("C12.1", "%s|atoms" % f.id, "the decision consults exactly: header present, close, upgrade, keep-alive, version 1.0", set(names) == need, f.loc(obb), str(names))
    # provenance of the haystack: lowercased value of the header named Connection
    lower_ok = True
    for k, a in atoms.items():
        if a[2] is not None:
            if not origin_has_call(a[2], r"Option::<T>::map") and not any(x[0] == "downcast" for x in origin_walk(a[2])):
                lower_ok = False
    cl = [g for g in facts.find_fns(r"ClientConnection as std::iter::Iterator>::next::\{closure") if g.call_blocks(lambda t: call_matches(t, r"to_ascii_lowercase$"))]
    eqv = []
    for g in facts.find_fns(r"ClientConnection as std::iter::Iterator>::next::\{closure"):
        for bb, t in g.calls():
            if call_matches(t, r"HeaderField::equiv$"):
                eqv += [c for c in arg_consts(g, t) if isinstance(c, str)]
    ctx.ob("C12.1", "%s|haystack" % f.id, "the tokens are searched in the ASCII-lowercased value of the `Connection` header", lower_ok and bool(cl) and eqv == ["Connection"], f.loc(obb), "lookup=%s" % eqv)
    if set(names) == need:
        def atom_of(bb):
            a = atoms.get(bb)
            return (a[0], a[1]) if a else None
        bad = []
        rows = 0
        for vals in itertools.product([False, True], repeat=5):
            asg = dict(zip(["present", "contains:close", "contains:upgrade", "contains:keep-alive", "version==(1, 0)"], vals))
            setflag = []
            def on_block(bb):
                for s in f.stmts(bb):
                    if s["s"] == "assign" and pl_fields(s["lhs"]) == [FLAG]:
                        setflag.append(op_const(s["rhs"]["op"]) if s["rhs"]["rv"] == "use" else "?")
            end, visited = shared.walk_decision(f, obb, atom_of, asg, some_bbs, on_block)
            rows += 1
            ctx.paths += 1
            got = (setflag == [True]) if setflag else False
            if setflag and setflag != [True]:
                got = "?"
            p, c, u, k, v10 = vals
            want = (c or u or ((not k) and v10)) if p else v10
            if end is None or got != want:
                bad.append((asg, got, want))
        ctx.ob("C12.1", "%s|table" % f.id, "for all 32 combinations of the atoms the request is marked last exactly when: close; upgrade; HTTP/1.0 without keep-alive; HTTP/1.0 without a Connection header",
               not bad, f.loc(obb), None if not bad else "first mismatches: %s" % bad[:3])
        ctx.counts["C12.1 table rows"] = rows

    # ---- C12.2 the flag gates every read and is never reset
    n = 0
    for g, bb, kind, x in facts.field_writes(CC, FLAG):
        n += 1
        if kind == "construct":
            r = x["rhs"]
            c = op_const(r["ops"][r["fields"].index(FLAG)])
            ctx.ob("C12.2", "flag-init|%s" % g.id, "a new connection starts with the flag clear", g.id == cc_new.id and c is False, g.loc(bb))
        else:
            c = op_const(x["rhs"]["op"]) if kind == "assign" and x["rhs"]["rv"] == "use" else None
            ctx.ob("C12.2", "flag-write|%s" % g.id, "the flag is only ever set (never reset), and only by the persistence decision", g.id == f.id and c is True, g.loc(bb))
    ctx.floor("C12.2 flag writes", n, 3)
    gates = []
    for bb in sorted(f.live_blocks()):
        bs = bool_switch(f, bb)
        if bs and FLAG in origin_fields(f.origin(bs[0])):
            gates.append((bb, bs))
    ctx.require(gates, "C12.2: next() does not test the flag")
    reads = f.call_blocks(lambda t: call_is(t, cc_read.id))
    gb, gbs = gates[0]
    ok = all(f.dominates(gbs[2], r, unwind=False) for r in reads) and gbs[1] != gbs[2]
    ctx.ob("C12.2", "%s|gate-dominates-read" % f.id, "no request is read once the flag is set", ok, f.loc(gb))
    outs = shared.eval_from(f, gbs[1])
    ok = bool(outs) and all(st.read_key((0,)) == ("none",) for p, st in outs) and not (f.reach([gbs[1]], unwind=False) & set(reads))
    ctx.ob("C12.2", "%s|flag-set-returns-none" % f.id, "with the flag set, next() returns None without touching the socket", ok, f.loc(gbs[1]))
    ctx.ob("C12.2", "%s|gate-at-entry" % f.id, "the flag test is the first thing next() does (every call is gated)", f.dominates(gb, reads[0], unwind=False) and gb in f.reach([0], blocked=set(reads), unwind=False), f.loc(gb))

    # ---- C12.3 half-close flags
    rnew = roles.inherent(facts, RTS, "new")
    rdrop = method(facts, T_DROP, RTS, "drop")
    ctx.touch(rnew); ctx.touch(rdrop)
    cons = [(bb, s) for g, bb, s in facts.constructions(RTS) if g.id == rnew.id]
    others = [(g, bb) for g, bb, s in facts.constructions(RTS) if g.id != rnew.id]
    for g, bb in others:
        ctx.ob("C12.3", "rts-construct|%s" % g.id, "socket halves are built only by RefinedTcpStream::new", False, g.loc(bb))
    flags = []
    for bb, s in cons:
        r = s["rhs"]
        flags.append((op_const(r["ops"][r["fields"].index("close_read")]), op_const(r["ops"][r["fields"].index("close_write")]), s["lhs"]["l"]))
    ctx.ob("C12.3", "%s|two-halves" % rnew.id, "one half closes reading only, the other writing only", sorted((a, b) for a, b, _ in flags) == [(False, True), (True, False)], "%s:%d" % (rnew.file, rnew.line), str(flags))
    # which one is returned first (read half) / second (write half)
    paths = symex.enumerate_paths(rnew)
    if len(paths) == 1:
        st = symex.run_path(rnew, paths[0])
        ret = st.read_key((0,))
        ok = ret[0] == "tuple" and len(ret[1]) == 2 and all(x[0] == "agg" for x in ret[1])
        if ok:
            a, b = ret[1]
            ok = a[3]["close_read"][1] is True and a[3]["close_write"][1] is False and b[3]["close_read"][1] is False and b[3]["close_write"][1] is True
        ctx.ob("C12.3", "%s|order" % rnew.id, "new() returns (read half, write half)", ok, "%s:%d" % (rnew.file, rnew.line))
    # ClientConnection::new(write, read): the write half goes into the BufWriter/sink, the read half into the BufReader/source
    acc = facts.find_fns(r"^Server::from_listener::\{closure#0\}$")[0]
    for bb, t in acc.calls():
        if call_is(t, cc_new.id):
            o0, o1 = acc.origin(t["args"][0]), acc.origin(t["args"][1])
            s0, s1 = origin_str(o0), origin_str(o1)
            ok = (".1" in s0 and ".0" in s1) or (origin_fields(o0) == {"1"} and origin_fields(o1) == {"0"})
            ctx.ob("C12.3", "%s|halves-to-connection" % acc.id, "the connection gets the write half as its writer and the read half as its reader", ok, acc.loc(bb), "%s / %s" % (s0, s1))
    bw = [(bb, t) for bb, t in cc_new.calls() if call_matches(t, r"BufWriter::<W>::with_capacity$|BufWriter::<W>::new$")]
    br = [(bb, t) for bb, t in cc_new.calls() if call_matches(t, r"BufReader::<R>::with_capacity$|BufReader::<R>::new$")]
    ok = len(bw) == 1 and len(br) == 1 and any(x == ("arg", 1) for x in origin_walk(cc_new.origin(bw[0][1]["args"][-1]))) and any(x == ("arg", 2) for x in origin_walk(cc_new.origin(br[0][1]["args"][-1])))
    ctx.ob("C12.3", "%s|writer-is-first-arg" % cc_new.id, "ClientConnection::new wraps its first argument as the writer and its second as the reader", ok, "%s:%d" % (cc_new.file, cc_new.line))
    # Drop: shutdown(Read) iff close_read, shutdown(Write) iff close_write
    g = rdrop
    sd = [(bb, t) for bb, t in g.calls() if call_matches(t, r"Stream::shutdown$")]
    ctx.floor("C12.3 shutdown calls in RefinedTcpStream::drop", len(sd), 2)
    seen = {}
    for bb, t in sd:
        how = g.origin(t["args"][1])
        hv = how[4] if how[0] == "agg" else None
        dom = g.dominators(False)
        guard = None
        for b in sorted(dom[bb], key=lambda b: -len(dom[b])):
            bs = bool_switch(g, b)
            if bs and g.dominates(bs[1], bb, unwind=False) and bs[1] != bs[2]:
                fl = origin_fields(g.origin(bs[0]))
                guard = sorted(fl)
                break
        seen[hv] = guard
    ok = seen.get("Read") == ["close_read"] and seen.get("Write") == ["close_write"] and "Both" not in seen
    ctx.ob("C12.3", "%s|shutdown-matches-flags" % g.id, "the destructor shuts down reading iff close_read and writing iff close_write", ok, "%s:%d" % (g.file, g.line), str(seen))
    # shutdown census
    allowed = {rdrop.id, roles.inherent(facts, STREAM, "shutdown").id, "connection::Connection::shutdown", method(facts, T_DROP, SERVER, "drop").id}
    n = 0
    for h, bb, t in facts.all_calls(lambda t: t.get("name") == "shutdown"):
        n += 1
        ctx.ob("C12.3", "shutdown-site|%s" % h.id, "sockets are shut down only by the halves' destructor (and Server::drop's throw-away self-connection)", h.id in allowed, h.loc(bb))
    ctx.floor("C12.3 shutdown call sites", n, 4)

    # ---- C12.4 nothing is leaked
    leak = re.compile(r"^(std::mem::forget|std::mem::ManuallyDrop::<T>::new|std::boxed::Box::<T(, A)?>::(leak|into_raw)|std::sync::Arc::<T(, A)?>::(into_raw|increment_strong_count)|std::rc::Rc::<T(, A)?>::into_raw|std::vec::Vec::<T(, A)?>::leak)$")
    leaks = [(h, bb, t) for h, bb, t in facts.all_calls(lambda t: leak.search(call_name(t)))]
    for h, bb, t in leaks:
        ctx.ob("C12.4", "leak|%s|%s" % (h.id, short(call_name(t))), "no value is leaked (a leaked writer or stream half would keep the connection open for ever)", False, h.loc(bb))
    ctx.ob("C12.4", "no-leak-calls", "the crate never calls mem::forget / ManuallyDrop::new / Box::leak / into_raw", not leaks, "crate", nontrivial=True)
    ctx.counts["C12.4 local call sites scanned"] = sum(1 for _ in facts.all_calls())
    mdtypes = [aid for aid, a in facts.adts.items() for v in a["variants"] for fl in v["fields"] if "ManuallyDrop" in fl["ty"]]
    ctx.ob("C12.4", "no-manuallydrop-fields", "no type stores a ManuallyDrop", not mdtypes, "crate")

    # ---- C12.5 clean EOF ends the parser silently
    rnl = roles.inherent(facts, CC, "read_next_line")
    ok = False
    for bb in sorted(rnl.live_blocks()):
        sw = switch_on_discr(rnl, bb)
        if sw and sw[0].get("adt") == "std::option::Option" and origin_has_call(rnl.origin_place(sw[0]["pl"]), r"Bytes<.*> as std::iter::Iterator>::next$"):
            rv, m, otherwise, rest = sw
            nt = m.get("None", otherwise if "None" in rest else None)
            outs = shared.eval_from(rnl, nt)
            ok = bool(outs) and all(st.read_key((0,))[0] == "agg" and st.read_key((0,))[2] == "Err" for p, st in outs)
    ctx.ob("C12.5", "%s|eof-is-error" % rnl.id, "end of stream while reading a line is reported as an error (no partial line is returned)", ok, "%s:%d" % (rnl.file, rnl.line))
    return {}
