"""C12 — connection persistence is decided correctly and the connection closes in order."""
import re, itertools
from core import *  # noqa
from roles import *  # noqa
import roles, shared, symex, inline, absint
import queue_rules as Q
import parser_rules as PR
import server_rules as S

EXPLANATION = (
    "Decision-table extraction by abstract path exploration, and census, on MIR (functions analysed with the helpers of their file and small std "
    "combinators spliced in, so the spelling of the code does not matter): for every assignment of {Connection header present, contains close / upgrade / "
    "keep-alive, version 0.9 / 1.0 / 1.1} the paths of ClientConnection::next from `read returned a request` to `return Some(request)` that are compatible "
    "with the assignment all set the last-request flag exactly as the property's table says (DESIGN A.5); the haystack is the ASCII-lowercased Connection "
    "value; with the flag set next() returns None without touching the socket, and the flag is never reset; the two halves of the socket shut down reading "
    "resp. writing in their destructor (symbolic evaluation of the constructor's result through the destructor, independent of how the halves remember their "
    "direction); shutdown/leak census; end of stream while reading a head makes the parser stop silently.")
TRUSTED = ["rustc MIR", "str::contains / to_ascii_lowercase semantics", "BufWriter flushes in its Drop", "the peer's TCP stack shows FIN as end-of-stream",
           "HTTPVersion ordering is lexicographic (C05.2)"]

VERSIONS = [(0, 9), (1, 0), (1, 1)]
TOKENS = ["close", "upgrade", "keep-alive"]


def run(ctx):
    facts = ctx.facts
    roles.bind(facts)
    PM = PR.pmodel(facts)
    f = PM.nxt
    ctx.touch(f)
    FLAG = PM.flag
    keepalive_table(ctx)
    return run_rest(ctx, PM, f, FLAG)


def keepalive_table(ctx):
    facts = ctx.facts
    roles.bind(facts)
    PM = PR.pmodel(facts)
    f = PM.nxt
    # ---- C12.1 keep-alive decision table
    paths = [p for p in PM.after_read(PR.Ok_(PR.RQ)) if p.end[0] not in ("diverge", "resume", "terminate", "unreachable")]
    ctx.paths += len(paths)
    delivered = [p for p in paths if p.end[0] == "return" and p.ret() == ("some", PR.RQ)]
    ctx.ob("C12.1", "%s|delivers" % PM.cc_next.id, "a request that was read can be returned to the caller", bool(delivered), "%s:%d" % (f.file, f.line))
    atoms_seen = set()
    hay_ok = True
    lookup_ok = True
    pconds = []
    for p in paths:
        cs = []
        for bb, c in p.conds:
            a = PR.atom_of_cond(c)
            if a is None:
                continue
            (atom, val) = a
            if atom[0] == "contains":
                atoms_seen.add(("contains", atom[1]))
                hay = atom[2][2][0]
                calls = absint.calls_in(hay)
                if not any(re.search(r"to_ascii_lowercase$|to_lowercase$", x[1]) for x in calls):
                    hay_ok = False
                cs.append((("contains", atom[1]), val))
            elif atom[0] == "version":
                atoms_seen.add(("version",) + atom[1:3])
                cs.append((atom[:4], val))
            elif atom[0] == "lookup":
                if "Connection" in atom[1]:
                    atoms_seen.add(("present",))
                    cs.append((("present",), val))
                    if [x for x in atom[1] if x.lower() != "connection"]:
                        lookup_ok = False
        fs = PM.flag_set(p)
        if fs == "?" and ("b", True) in PM.flag_closed | PM.flag_open:
            # the gate is assigned a computed boolean (`self.done = ends_connection(&rq)`): when that boolean is itself one of the decision's
            # atoms, the path stands for two -- one per outcome
            v = absint.deep(p.state, p.state.read_key((1, "*", "." + PM.flag)))
            a = PR.atom_of_cond(("scalar", v, True))
            if a is not None and a[0][0] in ("contains", "version"):
                atom, t_is = a            # the term is true  <=>  atom == t_is
                if atom[0] == "contains":
                    atoms_seen.add(("contains", atom[1]))
                    if not any(re.search(r"to_ascii_lowercase$|to_lowercase$", x[1]) for x in absint.calls_in(atom[2][2][0])):
                        hay_ok = False
                    key = ("contains", atom[1])
                else:
                    atoms_seen.add(("version",) + atom[1:3])
                    key = atom[:4]
                for outcome in (True, False):
                    closed = ("b", outcome) in PM.flag_closed and ("b", outcome) not in PM.flag_open
                    pconds.append((p, cs + [(key, t_is == outcome)], closed))
                continue
        pconds.append((p, cs, fs))
    names = sorted(str(a) for a in atoms_seen)
    ctx.counts["C12.1 atoms"] = names
    need = {("present",)} | {("contains", t) for t in TOKENS}
    ctx.ob("C12.1", "%s|atoms" % PM.cc_next.id, "the decision consults: Connection header present, close, upgrade, keep-alive (and the version)", need <= atoms_seen and any(a[0] == "version" for a in atoms_seen),
           "%s:%d" % (f.file, f.line), str(names))
    extra = {a for a in atoms_seen if a[0] == "contains" and a[1] not in TOKENS}
    ctx.ob("C12.1", "%s|haystack" % PM.cc_next.id, "the tokens are searched in the ASCII-lowercased value of the `Connection` header, and only lower-case tokens are searched for",
           hay_ok and lookup_ok and not extra, "%s:%d" % (f.file, f.line), None if not extra else "unexpected tokens %s" % sorted(extra))

    def holds(atom, val, A):
        if atom[0] == "present":
            want = A["present"]
        elif atom[0] == "contains":
            if not A["present"] or atom[1] not in A:
                return None
            want = A[atom[1]]
        elif atom[0] == "version":
            op, k, const_lhs = atom[1], atom[2], atom[3]
            want = PR.CMP[op](k, A["version"]) if const_lhs else PR.CMP[op](A["version"], k)
        else:
            return None
        return want == val

    bad = []
    rows = 0
    for present in (False, True):
        for toks in itertools.product([False, True], repeat=3):
            if not present and any(toks):
                continue
            for ver in VERSIONS:
                A = {"present": present, "version": ver}
                A.update(dict(zip(TOKENS, toks)))
                rows += 1
                comp = [(p, fs) for p, cs, fs in pconds if all(holds(a, v, A) is not False for a, v in cs)]
                c, u, k = toks
                v10 = ver == (1, 0)
                want = (c or u or ((not k) and v10)) if present else v10
                got = []
                for p, fs in comp:
                    if not (p.end[0] == "return" and p.ret() == ("some", PR.RQ)):
                        got.append("not delivered (%s)" % Q._ret_str(p))
                    else:
                        got.append(bool(fs) if fs in (True, False, None) else "?")
                if not comp or any(g != want for g in got):
                    bad.append((dict(A), got[:3], want))
    ctx.counts["C12.1 table rows"] = rows
    ctx.ob("C12.1", "%s|table" % PM.cc_next.id, "for every combination of the atoms and versions 0.9/1.0/1.1 the request is delivered and marked last exactly when: close; upgrade; HTTP/1.0 without keep-alive; HTTP/1.0 without a Connection header",
           not bad, "%s:%d" % (f.file, f.line), None if not bad else "first mismatches: %s" % bad[:3])



def run_rest(ctx, PM, f, FLAG):
    facts = ctx.facts
    # ---- C12.2 the flag gates every read and is never reset
    n = 0
    ctx.ob("C12.2", "flag-init|%s" % CC, "a new connection starts with the gate in one definite state (the open state)", len(PM.flag_open) == 1 and None not in PM.flag_open, PM.file, str(sorted(map(str, PM.flag_open))))
    # blocks of the parser's entry point (helpers spliced in) that write the gate
    wblocks = {}
    for g, bb, kind, v in PM.flag_writes:
        if kind != "construct":
            wblocks[(g.id, bb)] = [i for i, b in enumerate(f.blocks) if (b.get("src") or f.id) == g.id and b.get("obb", i) == bb]
    closed_entry_blocks = set()
    for nv in sorted(x for x in PM.flag_closed if x is not None):
        st = symex.Sym(f)
        st.write_key((1, "*", "." + FLAG), PM.flag_term(nv))
        for p in absint.explore(f, 0, st):
            closed_entry_blocks |= set(p.blocks)
    def reach(src):
        seen, work = set(), [x for x in f.succs(src)]
        while work:
            x = work.pop()
            if x in seen:
                continue
            seen.add(x)
            work += f.succs(x)
        return seen
    for g, bb, kind, v in PM.flag_writes:
        n += 1
        if kind != "construct":
            ok = g.file == PM.file and v is not None and v not in PM.flag_open
            detail = str(v)
            if g.file == PM.file and v is None and kind == "assign" and wblocks.get((g.id, bb)):
                # a computed value (`self.done = ends_connection(&rq)`): it may be the open value, which re-opens nothing as long as the gate is
                # open whenever this write is reached -- it is unreachable when the gate was closed on entry, and no write of the gate
                # (itself included, round a loop) can come before it in the same call
                mine = wblocks[(g.id, bb)]
                others = [b2 for k2, bs in wblocks.items() for b2 in bs]
                after_write = any(m in reach(o) for o in others for m in mine)
                ok = not (set(mine) & closed_entry_blocks) and not after_write
                detail = "computed value; reached with the gate closed: %s; reached after another write of the gate: %s" % (bool(set(mine) & closed_entry_blocks), after_write)
            ctx.ob("C12.2", "flag-write|%s" % g.id, "the flag is only ever set (never reset to its initial state), to a known value, and only by the connection parser",
                   ok, g.loc(bb), detail)
    ctx.floor("C12.2 flag writes", n, 2)
    for nv in sorted(x for x in PM.flag_closed if x is not None):
        st = symex.Sym(f)
        st.write_key((1, "*", "." + FLAG), PM.flag_term(nv))
        gp = [p for p in absint.explore(f, 0, st) if p.end[0] not in ("diverge", "resume", "terminate", "unreachable")]
        io = []
        for p in gp:
            for e in p.events:
                if e[1] == "call" and (e[2] in (PM.read_def, PM.read_p, PM.read_entry) or (facts.effects_at(f, e[0]) & {"BLOCK-IO", "WAIT-TURN-R", "WAIT-TURN-W", "CHAN-RECV"})):
                    io.append(short(e[2]))
        ok = bool(gp) and all(p.end[0] == "return" and p.ret() == ("none",) for p in gp) and not io
        ctx.ob("C12.2", "%s|flag-set-returns-none" % PM.cc_next.id, "with the flag set, next() returns None without touching the socket (every call is gated)", ok, "%s:%d" % (f.file, f.line),
               None if ok else "%s %s" % ([Q._ret_str(p) for p in gp][:3], io[:3]))
    for nv in sorted(x for x in PM.flag_open if x is not None):
        st = symex.Sym(f)
        st.write_key((1, "*", "." + FLAG), PM.flag_term(nv))
        gp = absint.explore(f, 0, st, stop=lambda bb, t, s: "read" if PM.is_read_entry(t) else None)
        ctx.ob("C12.2", "%s|flag-clear-reads" % PM.cc_next.id, "with the flag clear, next() goes on to read a request", any(p.end[0] == "stop" for p in gp), "%s:%d" % (f.file, f.line))

    # ---- C12.3 half-close
    half_rules(ctx)

    # ---- C12.4 nothing is leaked
    leak = re.compile(r"^(std::mem::forget|std::mem::ManuallyDrop::<T>::new|std::boxed::Box::<T(, A)?>::(leak|into_raw)|std::sync::Arc::<T(, A)?>::(into_raw|increment_strong_count)|std::rc::Rc::<T(, A)?>::into_raw|std::vec::Vec::<T(, A)?>::leak)$")
    leaks = [(h, bb, t) for h, bb, t in facts.all_calls(lambda t: leak.search(call_name(t)))]
    for h, bb, t in leaks:
        ctx.ob("C12.4", "leak|%s|%s" % (h.id, short(call_name(t))), "no value is leaked (a leaked writer or stream half would keep the connection open for ever)", False, h.loc(bb))
    ctx.ob("C12.4", "no-leak-calls", "the crate never calls mem::forget / ManuallyDrop::new / Box::leak / into_raw", not leaks, "crate", nontrivial=True)
    ctx.counts["C12.4 local call sites scanned"] = sum(1 for _ in facts.all_calls())
    mdtypes = [aid for aid, a in facts.adts.items() for v in a["variants"] for fl in v["fields"] if "ManuallyDrop" in fl["ty"]]
    ctx.ob("C12.4", "no-manuallydrop-fields", "no type stores a ManuallyDrop", not mdtypes, "crate")

    # ---- C12.5 end of stream ends the parser silently
    eof_rules(ctx, "C12.5")

    # ---- C12.6 a request refused for its version (505) is not one of the connection-ending cases: the parser goes on reading (taken from the
    # version-gate table of C10.3)
    import rules_C10, engine
    c2 = engine.Ctx("C12", "quick", facts, 0)
    try:
        rules_C10.version_gate(c2)
        n6 = engine.take_over(ctx, c2.obs, lambda o: o.rule == "C10.3" and o.key.endswith("|version-gate-table"), "C12.6")
        ctx.floor("C12.6 obligations taken from the version gate", n6, 1)
    except CheckerError as e:
        raise CheckerError("C12.6 (the version gate of the parser could not be evaluated): %s" % e)
    # ---- C12.8 a request that is refused ends the connection (its framing is unknown or it was not read to its end: what follows it
    # cannot be told from its remains): the parser's error table (C10.1), taken over
    import parser_rules as PR_
    c8 = engine.Ctx("C12", "quick", facts, 0)
    try:
        PR_.trace_and_judge(c8, "C10.1", "C10.2")
        n8 = engine.take_over(ctx, c8.obs, lambda o: o.rule == "C10.1" and o.key.endswith("|closes"), "C12.8")
        ctx.floor("C12.8 obligations taken from the parser's error table", n8, 1)
    except CheckerError as e:
        raise CheckerError("C12.8 (the parser's error table could not be evaluated): %s" % e)
    # ---- C12.7 a connection that stays open goes on being served after a request whose body was not read: the drain takes exactly the bytes
    # owed, not the start of the next request (rules of C09.2)
    import drain_rules as DR
    sk = shared.size_init(facts, ER)
    ctx.require(sk is not None, "C12.7: remaining-size field of the length-limited reader")
    DR.owed_rules(ctx, "C12.7", ER, sk)
    return {}


def half_rules(ctx):
    facts = ctx.facts
    SM = S.smodel(facts)
    rts_file = facts.adt(RTS)["file"]
    same = lambda d: facts.fns[d].rec.get("local") and facts.fns[d].file == rts_file
    ctors = [g for k, g in sorted(facts.local_fns.items()) if g.locals[0]["ty"] == "(%s, %s)" % (RTS, RTS)]
    ctx.ob("C12.3", "halves|constructor", "one function splits a socket into its two halves", len(ctors) == 1, rts_file, str([g.id for g in ctors]))
    if len(ctors) != 1:
        return
    rnew = ctors[0]
    rdrop = method(facts, T_DROP, RTS, "drop")
    fn = inline.inlined(facts, rnew.id, stop=lambda d: facts.fns[d].rec.get("local") and not same(d), extern_ok=Q.std_small)
    fd = inline.inlined(facts, rdrop.id, stop=lambda d: facts.fns[d].rec.get("local") and (not same(d) or d.endswith("::shutdown")), extern_ok=Q.std_small)
    ctx.touch(fn); ctx.touch(fd)
    for g, bb, s in facts.constructions(RTS):
        ctx.ob("C12.3", "rts-construct|%s" % g.id, "socket halves are built only by the splitting constructor (and its helpers)", g.file == rts_file, g.loc(bb))
    halves = None
    rets = [p for p in absint.explore(fn, 0) if p.end[0] == "return"]
    vals = {repr(absint.deep(p.state, p.ret())) for p in rets}
    if len(vals) == 1 and rets:
        v = rets[0].ret()
        if v[0] == "tuple" and len(v[1]) == 2:
            halves = v[1]
    ctx.ob("C12.3", "%s|two-halves" % rnew.id, "the constructor returns two halves, the same on every path", halves is not None, "%s:%d" % (rnew.file, rnew.line))
    if halves is None:
        return
    want = ["Read", "Write"]
    # fields of a half that anything changes after construction are unknown by the time the half is destroyed
    mutable = sorted({x["name"] for x in facts.adt(RTS)["variants"][0]["fields"] for g, bb, kind, w in facts.field_writes(RTS, x["name"]) if kind in ("assign", "calldest", "mutref")})
    ctx.counts["C12.3 fields of a socket half that change after construction"] = mutable
    for i, h in enumerate(halves):
        st = symex.Sym(fd)
        h = absint.deep(rets[0].state, h)
        if mutable and h and h[0] == "agg":
            h = (h[0], h[1], h[2], {k: (("sym", "changed-since-construction:" + k) if k in mutable else v) for k, v in h[3].items()})
        st.write_key((1, "*"), h)
        paths = [p for p in absint.explore(fd, 0, st) if p.end[0] == "return"]
        ctx.paths += len(paths)
        bad = []
        for p in paths:
            hows = []
            for e in p.calls():
                if e[2].endswith("::shutdown") and len(e[3]) > 1:
                    hows.append(absint.variant_of(e[3][1]) or "?")
            if hows != [want[i]]:
                bad.append(hows)
        ctx.ob("C12.3", "%s|half%d-shuts-%s" % (rdrop.id, i, want[i].lower()), "the destructor of the %s half returned by the constructor shuts down exactly the %s direction" % ("first (read)" if i == 0 else "second (write)", want[i].lower() + "ing"),
               bool(paths) and not bad, "%s:%d" % (rdrop.file, rdrop.line), None if not bad else "shutdown calls per path: %s" % bad[:3])
    # ClientConnection::new(write, read): the write half goes into the BufWriter/sink, the read half into the BufReader/source
    a = SM.a
    cc_ctor = sorted({g.id for g, bb, s in facts.constructions(CC)})
    ctx.ob("C12.3", "connection|constructor", "one function builds a ClientConnection", len(cc_ctor) == 1, CC, str(cc_ctor))
    if len(cc_ctor) == 1:
        cc_new = facts.fn(cc_ctor[0])
        for bb, t in a.calls():
            if call_is(t, cc_new.id):
                o0, o1 = a.origin(t["args"][0]), a.origin(t["args"][1])
                s0, s1 = origin_str(o0), origin_str(o1)
                ok = (".1" in s0 and ".0" in s1) or (origin_fields(o0) == {"1"} and origin_fields(o1) == {"0"})
                ctx.ob("C12.3", "accept-thread|halves-to-connection", "the connection gets the write half as its writer and the read half as its reader", ok, a.loc(bb), "%s / %s" % (s0, s1))
        # (the constructor with the private constructors of its sub-structs spliced in)
        import inline as _inl
        cc_new = _inl.inlined(facts, cc_new.id, stop=lambda d: facts.fns[d].rec.get("local") and facts.fns[d].file != cc_new.file)
        bw = [(bb, t) for bb, t in cc_new.calls() if call_matches(t, r"BufWriter::<W>::with_capacity$|BufWriter::<W>::new$")]
        br = [(bb, t) for bb, t in cc_new.calls() if call_matches(t, r"BufReader::<R>::with_capacity$|BufReader::<R>::new$")]
        ok = len(bw) == 1 and len(br) == 1 and any(x == ("arg", 1) for x in origin_walk(cc_new.origin(bw[0][1]["args"][-1]))) and any(x == ("arg", 2) for x in origin_walk(cc_new.origin(br[0][1]["args"][-1])))
        ctx.ob("C12.3", "%s|writer-is-first-arg" % cc_new.id, "the connection constructor wraps its first argument as the writer and its second as the reader", ok, "%s:%d" % (cc_new.file, cc_new.line))
    # when the connection object is destroyed (its parser is done) its fields go in declaration order: the handle on the write half (the writer
    # builder) must go before any field whose destructor may wait for the client -- the current head reader waits until the last request's
    # body reader has let go of the socket reader, i.e. until the client has sent the rest of a body nobody reads; with the write handle still
    # alive during that wait the client sees no end-of-stream after the last response
    cfields = [x for x in facts.adt(CC)["variants"][0]["fields"]]
    def holds(ty, what, depth=0):
        """does a field of this type hold (directly, or inside a private struct of the crate) a value of type `what`?"""
        if ty.startswith(what + "<"):
            return True
        a_ = facts.adts.get(re.sub(r"<.*$", "", ty))
        return a_ is not None and a_["kind"] == "Struct" and depth < 3 and str(a_.get("file", "")).startswith("src/") and \
            any(holds(y["ty"], what, depth + 1) for y in a_["variants"][0]["fields"])
    w_idx = [i for i, x in enumerate(cfields) if holds(x["ty"], SWB)]
    blocking = [i for i, x in enumerate(cfields) if holds(x["ty"], SR)]
    has_drop = facts.drop_fn(CC) is not None
    okd = len(w_idx) == 1 and all(w_idx[0] < b for b in blocking) and not has_drop
    ctx.ob("C12.3", "%s|write-handle-released-first" % CC, "when a connection ends, its handle on the write half is released before anything that may wait for the client (field order = drop order)", okd,
           facts.adt(CC)["file"], None if okd else "fields: %s" % [x["name"] for x in cfields])
    # shutdown census
    sdrop = method(facts, T_DROP, SERVER, "drop")
    conn_file = facts.adt("connection::Connection")["file"] if "connection::Connection" in facts.adts else None
    n = 0
    for h, bb, t in facts.all_calls(lambda t: t.get("name") == "shutdown"):
        n += 1
        ok = h.file in (rts_file, conn_file) or (h.id, bb) in shared.server_drop_own_sites(facts)
        ctx.ob("C12.3", "shutdown-site|%s" % h.id, "sockets are shut down only by the halves' destructor (and Server::drop's throw-away self-connection)", ok, h.loc(bb))
    ctx.floor("C12.3 shutdown call sites", n, 3)


def eof_rules(ctx, rule):
    """end of stream while a request head is being read: the head reader reports an error, and next() then returns None without answering"""
    facts = ctx.facts
    import request_rules as RR_
    RR_.rmodel(facts)
    PM = PR.pmodel(facts)
    rd = PM.rd
    seen = []
    def on_call(bb, t, args, st):
        n = call_name(t)
        if re.search(r"std::io::Bytes<.*> as std::iter::Iterator>::next$", n):
            seen.append("bytes")
            return ("none",)
        if re.search(r" as std::io::Read>::read$", n) or n == "std::io::Read::read":
            seen.append("read")
            return PR.Ok_(("const", 0, "0_usize", None))
        if re.search(r" as std::io::BufRead>::fill_buf$", n) or n == "std::io::BufRead::fill_buf":
            seen.append("fill_buf")
            return PR.Ok_(("empty-slice",))
        if re.search(r"<impl \[T\]>::(is_empty|len)$", n) and args:
            a = args[0]
            if a[0] == "ref":
                a = st.read_key(a[1])
            if a == ("empty-slice",):
                return ("const", True, "true", None) if n.endswith("is_empty") else ("const", 0, "0_usize", None)
        return absint.io_model(bb, t, args, st)
    def stop(bb, t, st):
        if t["t"] == "call" and call_matches(t, r"request::new_request$"):
            return "request-built"
    paths = [p for p in absint.explore(rd, 0, None, on_call=on_call, stop=stop, max_paths=30000) if p.end[0] not in ("diverge", "resume", "terminate", "unreachable")]
    ctx.paths += len(paths)
    if not seen:
        raise CheckerError("%s: the head reader does not obtain its bytes through Read::bytes()/Read::read (unrecognised reading style)" % rule)
    if any(p.end[0] == "cut" for p in paths):
        raise CheckerError("%s: with end-of-stream modelled at every read the head reader still loops (the exploration bound was hit): its reading style is not one the end-of-stream model covers" % rule)
    errs = []
    bad = []
    for p in paths:
        if p.end[0] == "return" and p.ret()[0] == "agg" and p.ret()[2] == "Err":
            errs.append(p.ret()[3]["0"])
        else:
            bad.append(Q._ret_str(p))
    ctx.ob(rule, "%s|eof-is-error" % PM.read_def, "end of stream while reading a request head is reported as an error (no partial line is returned, no request is built)", bool(paths) and not bad,
           "%s:%d" % (rd.file, rd.line), None if not bad else str(bad[:3]))
    # what next() does with that error: nothing is sent, the iterator ends
    f = PM.nxt
    n = 0
    for ev in {repr(e): e for e in errs}.values():
        ps = [p for p in PM.after_read(PR.Err_(ev)) if p.end[0] not in ("diverge", "resume", "terminate", "unreachable")]
        for p in ps:
            timed_out = None
            for bb, c in p.conds:
                if c and c[0] == "scalar" and isinstance(c[2], bool):
                    consts = [x for x in absint.walk_terms(c[1]) if x and x[0] == "agg" and x[1] == "std::io::ErrorKind"]
                    if any(x[2] in ("TimedOut", "WouldBlock") for x in consts):      # both are how an expired socket timeout is reported
                        v, val, neg = c[1], c[2], False
                        while v[0] == "unop" and v[1] == "Not":
                            v, neg = v[2], not neg
                        is_ne = v[0] == "call" and v[1].endswith("::ne")
                        timed_out = (val != neg) != is_ne
                if c and c[0] == "variant" and c[2] in ("TimedOut", "WouldBlock") and c[3] and c[3][0] == "call" and re.search(r"io::Error::kind$|error::Error::kind$", c[3][1]):
                    timed_out = True          # `matches!(err.kind(), TimedOut | WouldBlock)`
            if timed_out:
                continue
            n += 1
            sent = [short(e[2]) for e in p.calls() if re.search(RR_.RAW_PRINT + r"|Write>::write|write_all", e[2])]
            ok = p.end[0] == "return" and p.ret() == ("none",) and not sent
            ctx.ob(rule, "%s|eof-ends-silently" % PM.cc_next.id, "after end of stream (or any read error other than a timeout) next() returns None and sends nothing", ok, "%s:%d" % (f.file, f.line),
                   None if ok else "%s sent=%s" % (Q._ret_str(p), sent))
    ctx.floor("%s eof paths in next()" % rule, n, 1)
