"""C02 — request head fidelity: method, target, version and headers delivered as sent."""
import re
from core import *  # noqa
from roles import *  # noqa
import roles, shared, symex

EXPLANATION = (
    "Sibling agreement, must-pass-through and provenance on MIR (structure and tables, not string semantics): Method::from_str and Method::as_str are "
    "mutually inverse on the nine standard methods and the fallback stores the token itself; each recognised `HTTP/x.y` literal maps to the tuple with "
    "those digits; in the header loop every successfully read non-empty line is pushed (no header dropped or reordered; push is the only mutation); "
    "method, target, version and header list flow from the parser into the Request fields through moves/clones only, with no content-changing "
    "function (case mapping, replace, sort, dedup, truncate ...) on the way, and the accessors return those fields; the peer address is the TCP "
    "peer address on TCP and None on UNIX sockets; the optional whitespace before a header value is removed by the header parser and the one after it by "
    "the parser or, from the line, by the head reader's header loop (necessary condition over the std trimming calls on that route). That split/trim compute the RFC grammar for all inputs is not decided.")
TRUSTED = ["rustc MIR", "str::split / splitn / trim semantics", "AsciiString::from_ascii stores the bytes unchanged"]

METHODS = {"GET": "Get", "HEAD": "Head", "POST": "Post", "PUT": "Put", "DELETE": "Delete", "CONNECT": "Connect", "OPTIONS": "Options", "TRACE": "Trace", "PATCH": "Patch"}
CONTENT_CHANGING = re.compile(r"::(to_(ascii_)?(lower|upper)case|make_ascii_(lower|upper)case|to_lowercase|to_uppercase|replace|replacen|retain|dedup\w*|sort\w*|reverse|truncate|insert|remove|swap\w*|"
                              r"trim_matches|trim_start_matches|trim_end_matches|strip_prefix|strip_suffix|escape_\w+|repeat|drain|pop|clear|split_off|rotate_\w+|percent_decode\w*|decode\w*|from_utf8_lossy)$")


TRAIL_TRIM = re.compile(r"<impl str>::(trim|trim_end|trim_right|trim_ascii|trim_ascii_end|trim_end_matches|trim_right_matches|trim_matches)$|<impl \[u8\]>::(trim_ascii|trim_ascii_end)$")
LEAD_TRIM = re.compile(r"<impl str>::(trim|trim_start|trim_left|trim_ascii|trim_ascii_start|trim_start_matches|trim_left_matches|trim_matches)$|<impl \[u8\]>::(trim_ascii|trim_ascii_start)$")


def value_trim_rule(ctx, rule, PM):
    facts = ctx.facts
    import inline
    import queue_rules as Q
    hd = facts.trait_method(T_FROMSTR, HEADER, "from_str")
    if hd is None:
        return
    hd = facts.fns[hd] if isinstance(hd, str) else hd
    fh = inline.inlined(facts, hd.id, stop=lambda d: False, extern_ok=Q.std_small)
    ctx.touch(fh)
    rd = PM.rd
    in_parser = [call_name(t) for bb, t in fh.calls()]
    lines = PM.line_calls()
    first = [b for b in lines if all(rd.dominates(b, x, unwind=False) for x in lines)]
    loop_lines = [b for b in lines if b not in first]
    # (of the head reader only what follows the reading of a header line: the request line's own trimming says nothing about header values)
    in_reader = [call_name(t) for bb, t in rd.calls() if any(b != bb and rd.dominates(b, bb, unwind=False) for b in loop_lines)]
    # hand-written scanning (a loop over bytes / chars deciding where the value ends) is not judged: only the std trimming calls are read
    handwritten = any(re.search(r"is_ascii_whitespace$|is_whitespace$|<impl str>::(rfind|find|char_indices|bytes|chars)$|Iterator>::(rposition|position)$", n) for n in in_parser)
    lead = any(LEAD_TRIM.search(n) for n in in_parser)
    trail = any(TRAIL_TRIM.search(n) for n in in_parser + in_reader)
    where = "%s:%d" % (hd.file, hd.line)
    if handwritten and not (lead and trail):
        ctx.counts[rule + " value trimming is hand-written (not judged)"] = 1
        return
    ctx.ob(rule, "%s|value-leading-whitespace-removed" % hd.id, "the optional whitespace between the colon and the header value is removed by the header parser", lead, where)
    ctx.ob(rule, "%s|value-trailing-whitespace-removed" % hd.id,
           "the optional whitespace after the header value is removed (from the line by the head reader, or from the value by the header parser): `Host: a \\r\\n` is delivered as `a`, and `Content-Length: 5 ` is the number 5",
           trail, where, None if trail else "neither the head reader nor the header parser removes trailing whitespace")


def header_loop_rules(ctx, rule):
    """the head reader's header loop: every non-empty line that parses is appended (once, in order) before the next line is read; shared
    with the properties whose decisions need the complete header list (C03, C16)"""
    facts = ctx.facts
    import parser_rules as PRS, absint
    PM = PRS.pmodel(facts)
    rd = PM.rd
    ctx.touch(rd)
    lines = PM.line_calls()
    first = [b for b in lines if all(rd.dominates(b, x, unwind=False) for x in lines)]
    loop_lines = [b for b in lines if b not in first]
    ctx.ob(rule, "%s|reads-header-lines" % PM.read_def, "after the request line the head reader reads further lines", bool(loop_lines), "%s:%d" % (rd.file, rd.line))
    LINE = ("sym", "a-header-line")
    nrc = [bb for bb, t in rd.calls() if call_matches(t, r"^request::new_request$")]
    bad_skip, bad_mut, bad_end, n_ok = [], [], [], 0
    for b in loop_lines:
        ic = rd.blocks[b]["inl_call"]
        st = symex.Sym(rd)
        st.write_key(pl_key(ic["dest"]), PRS.Ok_(LINE))
        ps = absint.Explorer(rd, stop_blocks=set(lines), stop=lambda bb, t, s: "built" if bb in nrc else None, max_paths=4000, deep_events=True).run(ic["target"], st)
        ctx.paths += len(ps)
        for p in ps:
            if p.end[0] in PRS.DEAD:
                continue
            parsed = [e for e in p.calls() if rd.local_ty(rd.term(e[0])["dest"]["l"]).startswith("std::result::Result<common::Header,") and any(absint.contains(a, LINE) for a in (e[8] or e[3]))]
            parse_ok = any(c and c[0] == "variant" and c[2] in ("Ok", "Continue") and parsed and absint.mentions_call(c[3], parsed[0][4]) for bb, c in p.conds)
            pushes = [e for e in p.calls() if re.search(r"Vec::<T(, A)?>::push$", e[2]) and "common::Header" in (e[7] or "")]
            muts = [short(e[2]) for e in p.calls() if re.search(r"Vec::<T(, A)?>::(insert|remove|swap_remove|retain|clear|truncate|pop|dedup\w*|sort\w*|reverse|drain)$", e[2]) and "common::Header" in (e[7] or "")]
            if muts:
                bad_mut.append(muts)
            empties = [c[2] for bb, c in p.conds if c and c[0] == "scalar" and isinstance(c[2], bool) and c[1][0] == "call" and c[1][1].endswith("is_empty") and absint.contains(c[1], LINE)]
            goes_on = p.end[0] == "stop" and p.end[2] == "block"
            leaves = p.end[0] == "stop" and p.end[2] == "built"
            if goes_on:
                if not (parsed and parse_ok and len(pushes) == 1 and any(absint.mentions_call(a, parsed[0][4]) for a in (pushes[0][8] or pushes[0][3]))):
                    bad_skip.append("next line read after %d pushes (parsed=%s)" % (len(pushes), bool(parsed and parse_ok)))
                else:
                    n_ok += 1
                if True in empties:
                    bad_end.append("reads on after the empty line")
            if leaves and True not in empties:
                bad_end.append("leaves the header loop although the line was not empty")
    ctx.ob(rule, "%s|every-line-pushed" % PM.read_def, "every non-empty header line that parses is appended exactly once, as parsed, before the next line is read (none is skipped, dropped or duplicated)",
           n_ok > 0 and not bad_skip, "%s:%d" % (rd.file, rd.line), None if not bad_skip else str(bad_skip[:3]))
    ctx.ob(rule, "%s|append-only" % PM.read_def, "the header list is only ever appended to (order = arrival order, duplicates kept)", not bad_mut, "%s:%d" % (rd.file, rd.line), None if not bad_mut else str(bad_mut[:3]))
    ctx.ob(rule, "%s|empty-line-ends-head" % PM.read_def, "the head ends exactly at the first empty line", not bad_end, "%s:%d" % (rd.file, rd.line), None if not bad_end else str(bad_end[:3]))



def mutations_of(f, local):
    """places where the value that entered through parameter `local` is borrowed mutably or overwritten (following whole-value moves)"""
    alias = {local}
    changed = True
    while changed:
        changed = False
        for bb, i, st in f.assigns():
            r = st["rhs"]
            if r["rv"] == "use" and r["op"].get("k") in ("move", "copy") and not st["lhs"]["p"]:
                pl = r["op"].get("pl")
                if pl and not pl["p"] and pl["l"] in alias and st["lhs"]["l"] not in alias and st["lhs"]["l"] != 0:
                    alias.add(st["lhs"]["l"]); changed = True
    out = []
    for bb, i, st in f.assigns():
        r = st["rhs"]
        if r["rv"] == "ref" and r.get("mut") and r["pl"]["l"] in alias and "*" not in r["pl"]["p"]:
            us = f.uses().get(st["lhs"]["l"], []) if not st["lhs"]["p"] else []
            # capacity management does not change the content
            if us and all(u[0] == "term" and u[2]["t"] == "call" and call_matches(u[2], r"(Vec::<T(, A)?>|String)::(shrink_to_fit|shrink_to|reserve|reserve_exact)$") for u in us):
                continue
            out.append("&mut at %s" % f.loc(bb))
        if st["lhs"]["l"] in alias and st["lhs"]["p"] and "*" not in st["lhs"]["p"]:
            out.append("field assignment at %s" % f.loc(bb))
    return out


def run(ctx):
    facts = ctx.facts
    roles.bind(facts)
    import parser_rules as PRS, framing_rules as FRM, inline, absint
    import queue_rules as Q
    PM = PRS.pmodel(facts)
    FM = FRM.fmodel(facts)
    # ---- C02.1 method tables (evaluated token by token, both directions)
    mfs = method(facts, T_FROMSTR, METHOD, "from_str")
    mas = roles.inherent(facts, METHOD, "as_str")
    ctx.touch(mfs); ctx.touch(mas)
    fwd = {}
    lookups = set()
    for tok in list(METHODS) + ["get", "FOO", "GETX"]:
        g, ps = PRS.eval_str_fn(facts, mfs.id, tok)
        vs = set()
        for p in ps:
            v = PRS.unwrap_ok(p.ret())
            # a path whose outcome hinges on the unknown result of a table lookup (`TABLE.iter().find(..)`) says nothing definite about this token
            looked_up = False
            for bb_, c_ in p.conds:
                if c_ and c_[0] == "variant":
                    h_ = absint.head_call(c_[3]) if c_[3] else None
                    if h_ is not None and re.search(r"Iterator>?::(find|find_map|position|next|max_by\w*|min_by\w*)(::<|$)|::(get|binary_search\w*)$", h_[1]):
                        looked_up = looked_up or c_[2] in ("Some", "Ok")
            if looked_up:
                lookups.add(tok)
                continue
            if v is None:
                vs.add("ERR")
            elif v[0] == "agg" and v[1] == METHOD:
                if v[3]:
                    d = absint.deep(p.state, v)
                    keeps = absint.contains(d, PRS.INPUT) and not any(x and x[0] == "call" and CONTENT_CHANGING.search(x[1]) for x in absint.walk_terms(d))
                    vs.add(v[2] + ("(token)" if keeps else "(?)"))
                else:
                    vs.add(v[2])
            else:
                vs.add("?")
        fwd[tok] = vs
    want = {k: {v} for k, v in METHODS.items()}
    via_table = False
    if lookups:
        # the parser finds the variant by searching a table with `candidate.as_str() == token`: then it is the inverse of as_str by
        # construction (as_str is checked below, variant by variant); what has to hold is that the search compares exactly as_str(candidate)
        # with the input, case-sensitively, over a table of Method values
        gi = inline.inlined(facts, mfs.id, stop=lambda d: facts.fns[d].rec.get("local") and (facts.fns[d].file != mfs.file or d == mas.id), extern_ok=Q.std_small)
        bodies = [gi] + [g2 for k2, g2 in facts.local_fns.items() if k2.startswith(mfs.id + "::{closure")]
        for gi in bodies:
          for bb_, t_ in gi.calls():
              if re.search(r"<str as std::cmp::PartialEq>::eq$|PartialEq.*for str>::eq$|<impl std::cmp::PartialEq for str>::eq$|PartialEq<&.*>>::eq$", call_name(t_) + " " + (t_.get("res_name") or "")) or (t_.get("callee") == "std::cmp::PartialEq::eq" and "str" in (t_.get("res_name") or call_name(t_))):
                  os_ = [gi.origin(a_) for a_ in t_["args"]]
                  has_as_str = any(any(x[0] == "call" and x[1] == mas.id for x in origin_walk(o_)) for o_ in os_)
                  if has_as_str:
                      via_table = True
        ctx.ob("C02.1", "%s|lookup-through-as_str" % mfs.id, "the standard methods are recognised by comparing the token with as_str() of the candidates (case-sensitive string equality): the parser is the inverse of as_str by construction",
               via_table, "%s:%d" % (mfs.file, mfs.line))
    ok = all((fwd.get(k) == v) or (k in lookups and via_table and fwd.get(k) <= (v | {"NonStandard(token)", "ERR"})) for k, v in want.items())
    ctx.ob("C02.1", "%s|literal-to-variant" % mfs.id, "the nine standard method tokens map to their variants (case-sensitively)", ok, "%s:%d" % (mfs.file, mfs.line), None if ok else str(fwd))
    ext = [fwd.get(k) for k in ("get", "FOO", "GETX")]
    ext = [v - {"ERR"} if v else v for v in ext]      # (a token that is not ASCII is an error)
    ok = all(v is not None and len(v) == 1 and list(v)[0].endswith("(token)") and list(v)[0].split("(")[0] not in METHODS.values() for v in ext)
    ctx.ob("C02.1", "%s|extension-token-kept" % mfs.id, "any other token (including a standard name in another letter case) is kept verbatim as the non-standard variant", ok, "%s:%d" % (mfs.file, mfs.line), str(ext))
    back = {}
    ga = inline.inlined(facts, mas.id, stop=lambda d: facts.fns[d].rec.get("local") and facts.fns[d].file != mas.file, extern_ok=Q.std_small)
    variants = [v for v in facts.adt(METHOD)["variants"]]
    for v in variants:
        st = symex.Sym(ga)
        payload = {x["name"]: ("sym", "stored-token") for x in v["fields"]}
        st.write_key((1, "*"), ("agg", METHOD, v["name"], payload))
        for p in absint.explore(ga, 0, st):
            if p.end[0] != "return":
                continue
            val = absint.deep(p.state, p.ret())
            lit = PRS.const_str(val)
            back[v["name"]] = lit if lit is not None else ("stored-token" if absint.contains(val, ("sym", "stored-token")) and not any(x and x[0] == "call" and CONTENT_CHANGING.search(x[1]) for x in absint.walk_terms(val)) else symex.sym_str(val)[:40])
    ok = all(back.get(v) == k for k, v in METHODS.items())
    ctx.ob("C02.1", "%s|variant-to-literal" % mas.id, "as_str maps each variant back to the same token (the two tables are mutually inverse)", ok, "%s:%d" % (mas.file, mas.line), None if ok else str(back))
    nonstd = [v["name"] for v in variants if v["fields"]]
    ctx.ob("C02.1", "%s|extension-token-returned" % mas.id, "as_str returns the stored token for the non-standard variant", bool(nonstd) and all(back.get(n) == "stored-token" for n in nonstd), "%s:%d" % (mas.file, mas.line), str({n: back.get(n) for n in nonstd}))

    # ---- C02.2 version table
    phv = PRS.version_parser(facts)
    ctx.touch(phv)
    seen = {}
    okall = True
    for tok in ("HTTP/0.9", "HTTP/1.0", "HTTP/1.1", "HTTP/1.2", "HTTP/2.0", "HTTP/3.0", "HTTP/10.1", "http/1.1", "HTTP/1.1 ", "FOO", ""):
        g, ps = PRS.eval_str_fn(facts, phv.id, tok)
        for p in ps:
            v = PRS.unwrap_ok(p.ret())
            if v is None:
                continue
            tup = PRS.version_const(v)
            seen[tok] = tup
            mm = re.match(r"^HTTP/(\d+)\.(\d+)$", tok)
            if not mm or tup != (int(mm.group(1)), int(mm.group(2))):
                okall = False
    ctx.ob("C02.2", "%s|literal-digits-agree" % phv.id, "every token the version parser accepts is `HTTP/x.y` and yields the version (x, y)", okall and bool(seen), "%s:%d" % (phv.file, phv.line), str(seen))
    ctx.ob("C02.2", "%s|has-1.0-and-1.1" % phv.id, "HTTP/1.0 and HTTP/1.1 are recognised", {"HTTP/1.0", "HTTP/1.1"} <= set(seen), "%s:%d" % (phv.file, phv.line))

    header_loop_rules(ctx, "C02.3")
    rd = PM.rd
    lines = PM.line_calls()
    first = [b for b in lines if all(rd.dominates(b, x, unwind=False) for x in lines)]
    nrc = [bb for bb, t in rd.calls() if call_matches(t, r"^request::new_request$")]

    # ---- C02.9 header values: the optional whitespace on BOTH sides of the value is removed between the line reader and the stored Header
    # (the line keeps its leading whitespace -- C16.2 -- so the leading side is the header parser's; the trailing side may be removed from
    # the line or from the value).  Decided as a necessary condition on the calls of the two functions the text passes through.
    value_trim_rule(ctx, "C02.9", PM)

    # ---- C02.4 / C02.5 provenance: request line -> new_request arguments -> Request fields -> accessors
    ok_args = len(first) == 1 and len(nrc) == 1
    detail = None
    if ok_args:
        b = first[0]
        ic = rd.blocks[b]["inl_call"]
        st = symex.Sym(rd)
        RL = ("sym", "the-request-line")
        st.write_key(pl_key(ic["dest"]), PRS.Ok_(RL))
        ps = [p for p in absint.Explorer(rd, stop=lambda bb, t, s: "built" if bb in nrc else None, max_paths=20000, max_visits=2, deep_events=True).run(ic["target"], st) if p.end[0] == "stop"]
        ctx.paths += len(ps)
        tnr = rd.term(nrc[0])
        tys = tnr.get("arg_tys") or []
        # the arguments, with a struct of the crate that bundles them (a `RequestHead`) taken apart into its fields
        def leaves_of(tys_, vals_):
            out_t, out_v = [], []
            for ty_, v_ in zip(tys_, vals_):
                a_ = facts.adts.get(ty_)
                if a_ is not None and a_["kind"] == "Struct" and ty_ not in (METHOD, HV) and not ty_.startswith("std::"):
                    for fl_ in a_["variants"][0]["fields"]:
                        out_t.append(fl_["ty"])
                        out_v.append(v_[3].get(fl_["name"], ("unknown",)) if v_ is not None and v_[0] == "agg" and isinstance(v_[3], dict) else ("unknown",))
                else:
                    out_t.append(ty_); out_v.append(v_)
            return out_t, out_v
        tys, _ = leaves_of(tys, [None] * len(tys))
        idx = {"method": [i for i, x in enumerate(tys) if x == METHOD], "path": [i for i, x in enumerate(tys) if x == "std::string::String"], "version": [i for i, x in enumerate(tys) if x == HV]}
        ok_args = bool(ps) and all(len(v) == 1 for v in idx.values())
        bad = []
        for p in ps[:400]:
            args = [absint.deep(p.state, p.state.operand(a)) for a in tnr["args"]]
            _, args = leaves_of(tnr.get("arg_tys") or [], args)
            nexts = []
            for what in ("method", "path", "version"):
                if not idx[what]:
                    continue
                a = args[idx[what][0]]
                calls = absint.calls_in(a)
                if what != "version" and not absint.contains(a, RL):
                    bad.append("%s does not come from the request line" % what)
                if any(CONTENT_CHANGING.search(x[1]) for x in calls):
                    bad.append("%s goes through %s" % (what, [short(x[1]) for x in calls if CONTENT_CHANGING.search(x[1])]))
                nx = [x for x in calls if re.search(r"Split\w*<.*> as std::iter::Iterator>::next$|SplitWhitespace.*::next$", x[1] + " " + (x[4] if len(x) > 4 else ""))]
                nexts.append((what, tuple((x[3], x[5] if len(x) > 5 else 1) for x in nx)))
                sp = [x for x in calls if re.search(r"<impl str>::split(::<|$)|<impl str>::splitn(::<|$)", x[1])]
                if sp and not any(y and y[0] == "const" and (y[1] == " " or (isinstance(y[2], str) and y[2] == "' '")) for s_ in sp for y in absint.walk_terms(s_)):
                    bad.append("the request line is not split on single spaces")
            # field order: the i-th field is the i-th `next()` of the split
            order = [(e[0], e[4][5] if len(e[4]) > 5 else 1) for e in p.calls() if re.search(r"Split\w*<.*> as std::iter::Iterator>::next$", e[2] + " " + (e[7] or ""))]
            for k, (what, nx) in enumerate(nexts):
                if nx and order and (len(order) <= k or nx[0] != order[k]):
                    bad.append("%s is not field #%d of the request line" % (what, k + 1))
        detail = str(sorted(set(bad))[:4]) if bad else None
        ok_args = ok_args and not bad
    ctx.ob("C02.4", "%s|request-line-fields-to-request" % PM.read_def, "method, target and version handed to new_request are the first, second and third space-separated field of the request line, "
           "unchanged (no case mapping, decoding, replacing, trimming of characters ...)", ok_args, "%s:%d" % (rd.file, rd.line), detail)
    # inside new_request: every piece of data it is handed (everything but the socket reader and writer) is stored in the Request
    # unchanged: some field (at any depth of private sub-structs) holds exactly that parameter, or a plain projection of it, on every path
    # that builds a Request; and nothing modifies it in place on the way
    nr = FM.nr
    oks = [r for r in FM.rows if r["kind"] == "ok"]
    def leaves(v, path=()):
        if v and v[0] == "agg" and isinstance(v[3], dict) and v[3] and (v[1] == REQ or v[1] in facts.adts and facts.adts[v[1]]["kind"] == "Struct"):
            for k, x in v[3].items():
                yield from leaves(x, path + (k,))
        else:
            yield path, v
    def is_param(v, i):
        return v is not None and v[0] == "init" and isinstance(v[1], tuple) and v[1][:1] == (i,) and all(isinstance(x, str) and x.startswith(".") for x in v[1][1:])
    ftypes = {x["name"]: x["ty"] for x in facts.adt(REQ)["variants"][0]["fields"]}
    n_par = 0
    for i in range(1, nr.argc + 1):
        ty = nr.locals[i]["ty"]
        if ty in ("R", "W") or i == FM.src or i in FM.wr:
            continue        # the socket reader and the response writer (type parameters): their use is C03's / C06's subject
        n_par += 1
        stored_everywhere = bool(oks)
        changed = []
        where_ = set()
        for r in oks:
            whole = ("agg", REQ, "Request", r["request"])
            hit = False
            for path, v in leaves(whole):
                d = absint.deep(r["path"].state, v)
                if is_param(d, i):
                    hit = True
                    where_.add(".".join(path))
            stored_everywhere = stored_everywhere and hit
        pname = nr.locals[i].get("name") or "#%d" % i
        ctx.ob("C02.4", "%s|param-%d-stored" % (FM.nr0.id, i), "what new_request is handed as its parameter %d (%s) is stored in the Request exactly as given, on every path that builds one" % (i, short(ty)),
               stored_everywhere and not changed, "%s:%d" % (FM.nr0.file, FM.nr0.line), "stored in %s" % sorted(where_) if stored_everywhere and not changed else ("changed on the way: %s" % changed[:2] if changed else "not stored on some path"))
        muts = mutations_of(nr, i)
        ctx.ob("C02.4", "%s|param-%d-not-modified" % (FM.nr0.id, i), "parameter %d (%s) of new_request is not modified in place before it is stored" % (i, short(ty)), not muts, "%s:%d" % (FM.nr0.file, FM.nr0.line),
               None if not muts else str(muts[:3]))
    ctx.floor("C02.4 data parameters of new_request", n_par, 1)
    # ... and stay as they were for the whole life of the Request: nothing writes the fields that describe the request (anything but the
    # reader / writer slots and private flags) after new_request has built it
    desc_types = (METHOD, "std::string::String", HV, "std::vec::Vec<common::Header>", "std::option::Option<std::net::SocketAddr>", "std::option::Option<usize>")
    dpaths = []
    for ty_ in desc_types:
        dpaths += shared.find_slot_paths(facts, REQ, "^" + re.escape(ty_) + "$")
    n_desc = 0
    for path_ in dpaths:
        owner_, fld_ = shared.owner_of_path(facts, REQ, path_)
        for g_, bb_, kind_, x_ in facts.field_writes(owner_, fld_):
            if kind_ in ("construct", "drop"):
                continue
            n_desc += 1
            ctx.ob("C02.4", "field-write|%s|%s" % (".".join(path_), g_.id), "what the Request reports about the request (method, target, version, headers, peer address, declared length) is never changed after it was built",
                   False, g_.loc(bb_), "%s of %s" % (kind_, ".".join(path_)))
    ctx.ob("C02.4", "%s|descriptive-fields-immutable" % REQ, "the fields describing the request are written only when the Request is built", n_desc == 0, facts.adt(REQ)["file"], nontrivial=True)
    ctx.floor("C02.4 descriptive fields of Request", len(dpaths), 5)
    # accessors return the stored fields
    import request_rules as RR
    RM = RR.rmodel(facts)
    n_acc = 0
    for name, g in sorted(RM.methods.items()):
        if not g.rec.get("vis_pub") or g.argc != 1 or not g.local_ty(1).startswith("&request::Request"):
            continue
        fg = RM.fn(g)
        st = symex.Sym(fg)
        for fld in ftypes:
            st.write_key((1, "*", "." + fld), ("sym", "field:" + fld))
        rets = [absint.deep(p.state, p.ret()) for p in absint.explore(fg, 0, st) if p.end[0] == "return"]
        for r in rets:
            flds = {x[1][6:] for x in absint.walk_terms(r) if x and x[0] == "sym" and str(x[1]).startswith("field:")}
            refs = {seg[1:] for x in absint.walk_terms(r) if x and x[0] == "ref" for seg in x[1] if isinstance(seg, str) and seg.startswith(".") and seg[1:] in ftypes}
            calls = [x[1] for x in absint.calls_in(r)]
            src = flds | refs
            if len(src) == 1 and g.local_ty(0) not in ("bool",) or (g.local_ty(0) == "bool" and len(src) == 1):
                n_acc += 1
                ok = not any(CONTENT_CHANGING.search(c) for c in calls)
                ctx.ob("C02.4", "%s|returns-field" % g.id, "%s() returns the stored %s unchanged" % (name, sorted(src)[0]), ok, "%s:%d" % (g.file, g.line), None if ok else str(calls))
    ctx.floor("C02.4 accessors returning a stored field", n_acc, 5)
    nbad = 0

    # ---- C02.7 values containing colons: the line is split at the first colon only
    shared.header_split_rule(ctx, "C02.7")

    # ---- C02.8 lines and heads longer than the read buffer: the line reader works byte-wise with loop-carried state
    import rules_C13
    rules_C13.line_reader_rules(ctx, facts, "C02.8")

    # ---- C02.6 peer address
    pa = facts.fn("connection::Connection::peer_addr")
    ctx.touch(pa)
    # evaluated for either kind of connection, with the helpers of its file (and a dispatch over the crate's implementations of a private
    # trait, when it goes through a trait object) spliced in
    import inline as _inl
    import queue_rules as _Q
    paf = _inl.inlined(facts, pa.id, stop=lambda d: facts.fns[d].rec.get("local") and facts.fns[d].file != pa.file, extern_ok=_Q.std_small)
    CONN_ADT = re.sub(r"^&('\w+ )?(mut )?", "", pa.local_ty(1))
    ca = facts.adts.get(CONN_ADT)
    ctx.require(ca is not None and ca["kind"] == "Enum", "C02.6: Connection::peer_addr does not take the connection (an enum over the socket families)")
    res = {}
    for v in ca["variants"]:
        st = symex.Sym(paf)
        val = ("agg", CONN_ADT, v["name"], {x["name"]: ("sym", "the-socket") for x in v["fields"]})
        st.write_key((1, "*") if pa.local_ty(1).startswith("&") else (1,), val)
        outs = set()
        for p in absint.explore(paf, 0, st, max_paths=200):
            if p.end[0] != "return":
                continue
            r = absint.deep(p.state, p.ret())
            if r[0] == "agg" and r[2] == "Ok":
                x = r[3].get("0", ("unknown",))
                if x[0] == "none":
                    outs.add("Ok(None)")
                elif (x[0] == "some" or (x[0] == "call" and re.search(r"(^|::)Some$", x[1]))) and any(re.search(r"^std::net::TcpStream::peer_addr$", c[1]) for c in absint.calls_in(x)):
                    outs.add("Ok(Some(TcpStream::peer_addr))")
                else:
                    outs.add("Ok(%s)" % symex.sym_str(x)[:80])
            elif r[0] == "agg" and r[2] == "Err":
                outs.add("Err")
            else:
                outs.add(symex.sym_str(r)[:80])
        res[v["name"]] = outs
    ok = res.get("Tcp", set()) - {"Err"} == {"Ok(Some(TcpStream::peer_addr))"} and all(o == {"Ok(None)"} for k_, o in res.items() if k_ != "Tcp") and len(res) >= 2
    res = {k_: sorted(o) for k_, o in res.items()}
    ctx.ob("C02.6", "%s|tcp-some-unix-none" % pa.id, "the peer address is Some(socket peer address) on TCP and None on UNIX sockets", ok, "%s:%d" % (pa.file, pa.line), str(res))
    cc_ctor = sorted({g_.id for g_, b_, s_ in facts.constructions(CC)})
    addr_f = [x["name"] for x in facts.adt(CC)["variants"][0]["fields"] if "SocketAddr" in x["ty"]]
    ctx.require(len(addr_f) == 1, "C02.6: peer-address field of the connection")
    for g2, b2, kind, x in facts.field_writes(CC, addr_f[0]):
        if kind == "construct":
            r = x["rhs"]
            o = g2.origin(r["ops"][r["fields"].index(addr_f[0])])
            ok = origin_has_call(o, r"RefinedTcpStream::peer_addr$")
            ctx.ob("C02.6", "%s|stores-peer-addr" % g2.id, "the connection remembers the socket's peer address", ok and g2.id in cc_ctor, g2.loc(b2), origin_str(o))
        elif kind != "drop":
            ctx.ob("C02.6", "remote_addr-write|%s" % g2.id, "the remembered address is never changed", False, g2.loc(b2))
    if nrc:
        tnr = rd.term(nrc[0])
        # the peer-address argument of new_request (possibly inside a struct of the crate that bundles the arguments)
        addr_local = None
        for i_, ty_ in enumerate(tnr.get("arg_tys") or []):
            if "SocketAddr" in ty_:
                addr_local = op_local(tnr["args"][i_])
            else:
                a_ = facts.adts.get(ty_)
                if a_ is not None and a_["kind"] == "Struct" and not ty_.startswith("std::"):
                    fl_ = [x["name"] for x in a_["variants"][0]["fields"] if "SocketAddr" in x["ty"]]
                    l_ = op_local(tnr["args"][i_])
                    for _hop in range(6):       # through `let head = ..; f(head)` moves
                        mv = [s2 for b2, i2, s2 in rd.assigns() if s2["lhs"]["l"] == l_ and not s2["lhs"]["p"] and s2["rhs"]["rv"] == "use" and op_local(s2["rhs"]["op"]) is not None
                              and not (s2["rhs"]["op"].get("pl") or {}).get("p")]
                        if len(mv) == 1:
                            l_ = op_local(mv[0]["rhs"]["op"])
                        else:
                            break
                    if fl_ and l_ is not None:
                        for b2, i2, s2 in rd.assigns():
                            r2 = s2["rhs"]
                            if s2["lhs"]["l"] == l_ and not s2["lhs"]["p"] and r2["rv"] == "agg" and r2.get("adt") == ty_ and fl_[0] in (r2.get("fields") or []):
                                addr_local = op_local(r2["ops"][r2["fields"].index(fl_[0])])
        ai = addr_local is not None
        addr_f = [x["name"] for x in facts.adt(CC)["variants"][0]["fields"] if "SocketAddr" in x["ty"]]
        sl = shared.backward_slice_locals(rd, [addr_local]) if ai else set()
        reads_field = any(addr_f and addr_f[0] in pl_fields(p_) for b2, i2, s2 in rd.assigns() if s2["lhs"]["l"] in sl for p_, kind in rvalue_places(s2["rhs"]))
        panics = [short(call_name(t2)) for b2, t2 in rd.calls() if t2["dest"]["l"] in sl and call_matches(t2, r"(unwrap|expect)$") and not rd.blocks[b2].get("depth")]
        ctx.ob("C02.6", "%s|forwards-peer-addr" % PM.read_def, "each request reports the connection's remembered peer address", bool(ai) and reads_field and not panics, rd.loc(nrc[0]), str(panics) if panics else None)
    for nm in ("RefinedTcpStream::peer_addr", "Stream::peer_addr"):
        pass
    return {}
