"""C02 — request head fidelity: method, target, version and headers delivered as sent."""
import re
from core import *  # noqa
from roles import *  # noqa
import roles, shared, symex

EXPLANATION = (
    "Sibling agreement, must-pass-through and provenance on MIR (structure and tables, not string semantics): Method::from_str and Method::as_str are "
    "mutually inverse on the nine standard methods and the fallback stores the token itself; each recognised `HTTP/x.y` literal maps to the tuple with "
    "those digits; in the header loop every successfully read non-empty line is pushed (no header dropped or reordered; push is the only mutation); "
    "method, target, version and header list flow from the parser into the Request fields through moves/clones only, with no content-changing "
    "function (case mapping, replace, sort, dedup, truncate ...) on the way, and the accessors return those fields; the peer address is the TCP "
    "peer address on TCP and None on UNIX sockets. That split/trim compute the RFC grammar for all inputs is not decided.")
TRUSTED = ["rustc MIR", "str::split / splitn / trim semantics", "AsciiString::from_ascii stores the bytes unchanged"]

METHODS = {"GET": "Get", "HEAD": "Head", "POST": "Post", "PUT": "Put", "DELETE": "Delete", "CONNECT": "Connect", "OPTIONS": "Options", "TRACE": "Trace", "PATCH": "Patch"}
CONTENT_CHANGING = re.compile(r"::(to_(ascii_)?(lower|upper)case|make_ascii_(lower|upper)case|to_lowercase|to_uppercase|replace|replacen|retain|dedup\w*|sort\w*|reverse|truncate|insert|remove|swap\w*|"
                              r"trim_matches|trim_start_matches|trim_end_matches|strip_prefix|strip_suffix|escape_\w+|repeat|drain|pop|clear|split_off|rotate_\w+|percent_decode\w*|decode\w*|from_utf8_lossy)$")


def run(ctx):
    facts = ctx.facts
    roles.bind(facts)
    # ---- C02.1 method tables
    mfs = method(facts, T_FROMSTR, METHOD, "from_str")
    mas = roles.inherent(facts, METHOD, "as_str")
    ctx.touch(mfs); ctx.touch(mas)
    tbl = shared.str_match_table(mfs)
    fwd = {}
    for lit, tb, fb, cb in tbl:
        outs = shared.eval_from(mfs, tb)
        vs = set()
        for p, st in outs:
            v = st.read_key((0,))
            if v[0] == "agg" and v[2] == "Ok" and v[3]["0"][0] == "agg":
                vs.add(v[3]["0"][2])
        fwd[lit] = vs
    ok = fwd == {k: {v} for k, v in METHODS.items()}
    ctx.ob("C02.1", "%s|literal-to-variant" % mfs.id, "the nine standard method tokens map to their variants (case-sensitively)", ok, "%s:%d" % (mfs.file, mfs.line), None if ok else str(fwd))
    sw = None
    for bb in sorted(mas.live_blocks()):
        s2 = switch_on_discr(mas, bb)
        if s2 and s2[0].get("adt") == METHOD:
            sw = s2
            break
    ctx.require(sw is not None, "C02.1: as_str does not match on the method")
    rv, m, otherwise, rest = sw
    back = {}
    for v, tgt in m.items():
        outs = shared.eval_from(mas, tgt)
        for p, st in outs:
            val = st.read_key((0,))
            while val[0] == "ref":
                val = st.read_key(val[1])
            back[v] = val[1] if val[0] == "const" else symex.sym_str(val)
    ok = all(back.get(v) == k for k, v in METHODS.items())
    ctx.ob("C02.1", "%s|variant-to-literal" % mas.id, "as_str maps each variant back to the same token (the two tables are mutually inverse)", ok, "%s:%d" % (mas.file, mas.line), None if ok else str(back))
    # fallback: NonStandard(token itself)
    falses = {fb for _, tb, fb, cb in tbl}
    cmpb = {cb for _, tb, fb, cb in tbl}
    default = [fb for fb in falses if fb not in cmpb]
    ctx.require(len(default) == 1, "C02.1: fallback arm of Method::from_str")
    ns = [(bb, s) for g, bb, s in facts.constructions(METHOD, "NonStandard") if g.id == mfs.id]
    ok = len(ns) == 1 and ns[0][0] in mfs.reach(default, unwind=False)
    if ok:
        o = mfs.origin(ns[0][1]["rhs"]["ops"][0])
        ok = origin_has_call(o, r"ascii::AsciiString::from_ascii$") and any(x == ("arg", 1) for x in origin_walk(o)) and not any(CONTENT_CHANGING.search(x[1]) for x in origin_calls(o))
    ctx.ob("C02.1", "%s|extension-token-kept" % mfs.id, "any other token is kept verbatim as NonStandard(token)", ok, "%s:%d" % (mfs.file, mfs.line))
    nst = m.get("NonStandard", otherwise if "NonStandard" in rest else None)
    okn = False
    if nst is not None:
        for b2 in sorted(shared.arm_region(mas, nst)):
            t2 = mas.term(b2)
            if t2["t"] == "call" and any(x[0] == "downcast" and x[2] == "NonStandard" for a in t2["args"] for x in origin_walk(mas.origin(a))):
                if not CONTENT_CHANGING.search(call_name(t2)):
                    okn = True
    ctx.ob("C02.1", "%s|extension-token-returned" % mas.id, "as_str returns the stored token for NonStandard", okn, "%s:%d" % (mas.file, mas.line))

    # ---- C02.2 version table
    phv = facts.fn("client::parse_http_version")
    ctx.touch(phv)
    vt = shared.str_match_table(phv)
    okall = True
    seen = {}
    for lit, tb, fb, cb in vt:
        outs = shared.eval_from(phv, tb)
        for p, st in outs:
            v = st.read_key((0,))
            tup = None
            if v[0] == "agg" and v[2] == "Ok" and v[3]["0"][0] == "agg" and v[3]["0"][1] == HV:
                tup = tuple(x[1] for x in v[3]["0"][3].values())
            seen[lit] = tup
            mm = re.match(r"^HTTP/(\d+)\.(\d+)$", lit)
            if not mm or tup != (int(mm.group(1)), int(mm.group(2))):
                okall = False
    ctx.ob("C02.2", "%s|literal-digits-agree" % phv.id, "every recognised `HTTP/x.y` token yields the version (x, y)", okall and bool(seen), "%s:%d" % (phv.file, phv.line), str(seen))
    ctx.ob("C02.2", "%s|has-1.0-and-1.1" % phv.id, "HTTP/1.0 and HTTP/1.1 are recognised", {"HTTP/1.0", "HTTP/1.1"} <= set(seen), "%s:%d" % (phv.file, phv.line))

    # ---- C02.3 header loop
    f = cc_read = roles.inherent(facts, CC, "read")
    rnl = roles.inherent(facts, CC, "read_next_line")
    ctx.touch(f)
    rn = [bb for bb, t in f.calls() if call_is(t, rnl.id)]
    loop_rn = [b for b in rn if f.in_loop(b)]
    ctx.require(len(loop_rn) == 1, "C02.3: header loop not found")
    lb = loop_rn[0]
    pushes = [bb for bb, t in f.calls() if call_matches(t, r"Vec::<T(, A)?>::push$") and "common::Header" in (t.get("res_name") or "")]
    rs = shared.result_switch(f, lb)
    ctx.require(rs and rs.get("ok") is not None, "C02.3: result of read_next_line not branched on")
    # empty-line test
    emp = [(bb, t) for bb, t in f.calls() if call_matches(t, r"is_empty$") and bb in f.reach([rs["ok"]], blocked={lb}, unwind=False)]
    ctx.ob("C02.3", "%s|empty-line-ends-head" % f.id, "the head ends at the first empty line", len(emp) >= 1, f.loc(lb))
    if emp:
        bs = bool_switch(f, emp[0][1]["target"])
        cont = bs[2]
        reach = f.reach([cont], blocked=set(pushes), unwind=False)
        ok = lb not in reach
        ctx.paths += 1
        ctx.ob("C02.3", "%s|every-line-pushed" % f.id, "every non-empty header line that parses is appended before the next line is read (none is skipped)", ok and bool(pushes), f.loc(cont))
        # what is pushed is the parsed header of this very line
        for pb in pushes:
            o = f.origin(f.term(pb)["args"][1])
            okp = origin_has_call(o, r"common::Header as std::str::FromStr>::from_str$|FromStr::from_str$")
            ctx.ob("C02.3", "%s|pushes-parsed-line" % f.id, "what is appended is the header parsed from that line", okp, f.loc(pb), origin_str(o)[:120])
        # the break edge leaves the loop with the vector intact: no other mutator of the headers vector
        hv = op_local(f.term(pushes[0])["args"][0]) if pushes else None
        vec_local = None
        if hv is not None:
            d = f.single_def(hv)
            if d and d[0] == "assign" and d[3]["rv"] == "ref":
                vec_local = d[3]["pl"]["l"]
        muts = []
        if vec_local is not None:
            for u in f.uses().get(vec_local, []):
                if u[0] == "stmt" and u[4] == "refmut":
                    dl = u[3]["lhs"]["l"]
                    for u2 in f.uses().get(dl, []):
                        if u2[0] == "term" and u2[2]["t"] == "call":
                            muts.append(short(call_name(u2[2])))
        ok = vec_local is not None and all(m_.endswith("::push") for m_ in muts) and bool(muts)
        ctx.ob("C02.3", "%s|append-only" % f.id, "the header list is only ever appended to (order = arrival order, duplicates kept)", ok, f.loc(lb), str(muts))

    # ---- C02.4 / C02.5 provenance into the Request and out of the accessors
    nr = facts.fn("request::new_request")
    nrc = [(bb, t) for bb, t in f.calls() if call_matches(t, r"^request::new_request$")]
    ctx.require(len(nrc) == 1, "C02.4: new_request call")
    bb, t = nrc[0]
    prl = facts.fn("client::parse_request_line")
    roles_of_args = {1: "method", 2: "path", 3: "version", 4: "headers"}
    for idx, what in roles_of_args.items():
        o = f.origin(t["args"][idx])
        calls = [x[1] for x in origin_calls(o)]
        bad = [c for c in calls if CONTENT_CHANGING.search(c)]
        if what == "headers":
            ok = any(x[0] == "local" for x in origin_walk(o)) or origin_has_call(o, r"Vec::<T>::new$")
        else:
            ok = origin_has_call(o, r"client::parse_request_line$")
        ctx.ob("C02.4", "%s|%s-from-parser" % (f.id, what), "the %s given to the Request is the parser's result" % what, ok and not bad, f.loc(bb), origin_str(o)[:140])
    # inside new_request: parameters -> fields
    cons = [(g, b2, s) for g, b2, s in facts.constructions(REQ) if g.id == nr.id]
    fld_to_param = {"method": 2, "path": 3, "http_version": 4, "headers": 5, "remote_addr": 6, "secure": 1}
    for g, b2, s in cons:
        r = s["rhs"]
        for fld, pidx in fld_to_param.items():
            o = g.origin(r["ops"][r["fields"].index(fld)])
            ok = o == ("arg", pidx)
            ctx.ob("C02.4", "%s|field-%s" % (g.id, fld), "Request.%s is exactly the value handed to new_request" % fld, ok, g.loc(b2), origin_str(o))
    # accessors
    acc = {"method": "method", "url": "path", "http_version": "http_version", "headers": "headers", "body_length": "body_length", "remote_addr": "remote_addr", "secure": "secure"}
    for name, fld in acc.items():
        a = roles.inherent(facts, REQ, name)
        o = a.origin_place({"l": 0, "p": []})
        calls = [x[1] for x in origin_calls(o)]
        ok = origin_fields(o) == {fld} and not any(CONTENT_CHANGING.search(c) for c in calls) and all(re.search(r"(deref|as_ref|as_str|as_slice|borrow)$", c) for c in calls)
        ctx.ob("C02.4", "%s|returns-field" % a.id, "%s() returns the stored %s unchanged" % (name, fld), ok, "%s:%d" % (a.file, a.line), origin_str(o))
    # parse_request_line: the pieces come from a split on ' ' in order, no transformation
    g = prl
    sp = [(b2, t2) for b2, t2 in g.calls() if call_matches(t2, r"<impl str>::split(::<|$)")]
    ok = len(sp) == 1 and arg_consts(g, sp[0][1])[1] == ("char", " ")
    ctx.ob("C02.5", "%s|split-on-space" % g.id, "the request line is split on single spaces", ok, "%s:%d" % (g.file, g.line))
    nexts = [b2 for b2, t2 in g.calls() if call_matches(t2, r"Split<.*> as std::iter::Iterator>::next$")]
    ctx.ob("C02.5", "%s|three-fields-in-order" % g.id, "method, target and version are the first three fields, in that order", len(nexts) == 3, "%s:%d" % (g.file, g.line))
    heads = [g, cc_read, rnl, nr] + facts.find_fns(r"^client::parse_request_line::\{closure") + facts.find_fns(r"^<common::Header as std::str::FromStr>::from_str") + [mfs]
    nbad = 0
    for h in heads:
        ctx.touch(h)
        for b2, t2 in h.calls():
            if CONTENT_CHANGING.search(call_name(t2)) and not call_name(t2).startswith("std::mem::"):
                # allowed only if the result never reaches a stored field: to_ascii_lowercase feeding `contains`
                dl = t2["dest"]["l"] if not t2["dest"]["p"] else None
                sinks_ok = False
                if dl is not None:
                    sl = {dl}
                    work = [dl]
                    flows = []
                    while work:
                        l = work.pop()
                        for u in h.uses().get(l, []):
                            if u[0] == "stmt" and not u[3]["lhs"]["p"]:
                                if u[3]["lhs"]["l"] not in sl:
                                    sl.add(u[3]["lhs"]["l"]); work.append(u[3]["lhs"]["l"])
                            elif u[0] == "stmt":
                                flows.append("field-store")
                            elif u[0] == "term" and u[2]["t"] == "call":
                                nm = call_name(u[2])
                                if re.search(r"(deref|as_str|as_ref)$", nm) and not u[2]["dest"]["p"]:
                                    if u[2]["dest"]["l"] not in sl:
                                        sl.add(u[2]["dest"]["l"]); work.append(u[2]["dest"]["l"])
                                else:
                                    flows.append(short(nm))
                            elif u[0] == "term" and u[2]["t"] == "drop":
                                pass
                    sinks_ok = bool(flows) and all(re.search(r"contains|starts_with|eq|find|Vec::<T(, A)?>::pop$", x) for x in flows)
                    if re.search(r"Vec::<T(, A)?>::pop$", call_name(t2)):
                        sinks_ok = True   # read_next_line removes the CR of the line terminator
                if not sinks_ok:
                    nbad += 1
                    ctx.ob("C02.5", "%s|content-changing|%s" % (h.id, short(call_name(t2))), "no content-changing function is applied to head data that is stored in the Request", False, h.loc(b2))
    ctx.ob("C02.5", "head-path|no-normalisation", "nothing on the path from the socket line to the stored Request fields decodes, case-maps, merges or reorders", nbad == 0, cc_read.file)

    # ---- C02.7 values containing colons: the line is split at the first colon only
    shared.header_split_rule(ctx, "C02.7")

    # ---- C02.8 lines and heads longer than the read buffer: the line reader works byte-wise with loop-carried state
    import rules_C13
    rules_C13.line_reader_rules(ctx, facts, "C02.8")

    # ---- C02.6 peer address
    pa = facts.fn("connection::Connection::peer_addr")
    ctx.touch(pa)
    sw = None
    for b2 in sorted(pa.live_blocks()):
        s2 = switch_on_discr(pa, b2)
        if s2:
            sw = s2
            break
    ctx.require(sw is not None, "C02.6: Connection::peer_addr does not match on the connection kind")
    rv, m, otherwise, rest = sw
    res = {}
    for v in ("Tcp", "Unix"):
        tgt = m.get(v, otherwise if v in rest else None)
        if tgt is None:
            continue
        outs = shared.eval_from(pa, tgt)
        for p, st in outs:
            res[v] = symex.sym_str(st.read_key((0,)))
    ok = "TcpStream::peer_addr" in res.get("Tcp", "") and "Option::<std::net::SocketAddr>::Some" in res.get("Tcp", "") and "None" in res.get("Unix", "") and "Ok" in res.get("Unix", "")
    ctx.ob("C02.6", "%s|tcp-some-unix-none" % pa.id, "the peer address is Some(socket peer address) on TCP and None on UNIX sockets", ok, "%s:%d" % (pa.file, pa.line), str(res))
    cc_new = roles.inherent(facts, CC, "new")
    for g2, b2, kind, x in facts.field_writes(CC, "remote_addr"):
        if kind == "construct":
            r = x["rhs"]
            o = g2.origin(r["ops"][r["fields"].index("remote_addr")])
            ok = origin_has_call(o, r"RefinedTcpStream::peer_addr$")
            ctx.ob("C02.6", "%s|stores-peer-addr" % g2.id, "the connection remembers the socket's peer address", ok and g2.id == cc_new.id, g2.loc(b2), origin_str(o))
        elif kind != "drop":
            ctx.ob("C02.6", "remote_addr-write|%s" % g2.id, "the remembered address is never changed", False, g2.loc(b2))
    o = f.origin(t["args"][5])
    ctx.ob("C02.6", "%s|forwards-peer-addr" % f.id, "each request reports the connection's remembered peer address", "remote_addr" in origin_fields(o) and not origin_has_call(o, r"unwrap$|expect$"), f.loc(bb), origin_str(o))
    for nm in ("RefinedTcpStream::peer_addr", "Stream::peer_addr"):
        pass
    return {}
