"""The turn-taking writer / reader chains (util::sequential) checked by symbolic evaluation of their own API, independent of
how the types represent their state (an enum of states, an Option, merged helper enums ...) and of how their methods are
split into helpers:

    B0 = Builder::new(X);  (W1, B1) = next(B0);  (W2, B2) = next(B1);  (W3, B3) = next(B2)

and then the abstract paths of write / flush / drop (writers) resp. read / drop (readers) started with `self` bound to
W1 (no predecessor) or W2 (has a predecessor): which channel ends they receive from / send on, in which order relative to
locking the shared socket writer or reading the socket reader, and what state they leave behind.  Channel ends are terms
('tx', id, site) / ('rx', id, site): pairing is equality of ids.
"""
import re
from core import *  # noqa
from roles import *  # noqa
import roles, shared, symex, inline, absint
import queue_rules as Q

DEAD = ("diverge", "resume", "terminate", "unreachable")
X = ("sym", "the-socket-half")


class Chain:
    def __init__(self, facts, builder_adt, item_adt, trait_for_item):
        self.facts = facts
        self.b_adt, self.i_adt = builder_adt, item_adt
        self.file = facts.adt(item_adt)["file"]
        same = lambda d: facts.fns[d].rec.get("local") and facts.fns[d].file == self.file
        self.same = same
        self.inl = lambda d: inline.inlined(facts, d, stop=lambda x: facts.fns[x].rec.get("local") and not same(x), extern_ok=Q.std_small)
        # constructor of the builder: the function of that file returning the builder type built around its argument
        ctors = [g for k, g in sorted(facts.local_fns.items()) if g.file == self.file and g.rec.get("impl_self_adt") == builder_adt and g.argc == 1
                 and g.locals[0]["ty"].startswith(builder_adt) and g.rec.get("impl_trait") is None]
        if len(ctors) != 1:
            raise CheckerError("turn rules: constructor of %s not found (%d candidates)" % (builder_adt, len(ctors)))
        self.ctor = ctors[0]
        self.next = method(facts, T_ITER, builder_adt, "next")
        self.f_ctor = self.inl(self.ctor.id)
        self.f_next = self.inl(self.next.id)
        self.items = []       # W1, W2, W3
        self.builders = []    # B0, B1, B2, B3
        self.problems = []
        self._build()

    def _single(self, f, st, what):
        ps = [p for p in absint.explore(f, 0, st) if p.end[0] not in DEAD]
        rets = [p for p in ps if p.end[0] == "return"]
        if len(rets) != len(ps) or not rets:
            self.problems.append("%s: %s" % (what, [Q._ret_str(p) for p in ps][:3]))
        return rets

    def _build(self):
        st = symex.Sym(self.f_ctor)
        st.write_key((1,), X)
        rets = self._single(self.f_ctor, st, "builder constructor")
        if len(rets) != 1:
            self.problems.append("builder constructor has %d returning paths" % len(rets))
            return
        b = absint.deep(rets[0].state, rets[0].ret())
        self.builders.append(b)
        for k in range(3):
            st = symex.Sym(self.f_next)
            st.counter = 100 * (k + 1)
            st.write_key((1, "*"), self.builders[-1])
            rets = self._single(self.f_next, st, "draw #%d" % (k + 1))
            vals = {}
            for p in rets:
                r = p.ret()
                vals[repr((absint.deep(p.state, r), absint.deep(p.state, p.state.read_key((1, "*")))))] = (p, r)
            if len(vals) != 1:
                self.problems.append("draw #%d has %d different outcomes" % (k + 1, len(vals)))
                return
            p, r = list(vals.values())[0]
            if r[0] != "some":
                self.problems.append("draw #%d returns %s" % (k + 1, symex.sym_str(r)))
                return
            self.items.append(absint.deep(p.state, r[1]))
            self.builders.append(absint.deep(p.state, p.state.read_key((1, "*"))))
            nchan = len([e for e in p.calls() if e[2] == CHANNEL])
            if nchan != 1:
                self.problems.append("draw #%d creates %d channels" % (k + 1, nchan))

    # -- helpers -------------------------------------------------------------------------------
    @staticmethod
    def ends(v, kind):
        return [x for x in absint.walk_terms(v) if x and x[0] == kind and len(x) == 3]

    def run(self, fdef, item, extra=None, state_after=None):
        """abstract paths of method `fdef` with self = item"""
        f = self.inl(fdef)
        st = symex.Sym(f)
        st.counter = 1000
        st.write_key((1, "*"), item)
        for k, v in (extra or {}).items():
            st.write_key(k, v)
        return f, [p for p in absint.explore(f, 0, st) if p.end[0] not in DEAD]

    @staticmethod
    def chan_events(p):
        """[(position, 'recv'|'send'|'lock'|'io', channel id or None, payload)] in path order"""
        out = []
        for i, e in enumerate(p.events):
            if e[1] != "call":
                continue
            n = e[2]
            if n in (RECV, "std::sync::mpsc::Receiver::<T>::recv_timeout", "std::sync::mpsc::Receiver::<T>::try_recv"):
                ch = e[5][0] if e[5] and e[5][0] is not None else e[3][0]
                rx = [x for x in absint.walk_terms(ch) if x and x[0] == "rx" and len(x) == 3]
                out.append((i, "recv" if n != "std::sync::mpsc::Receiver::<T>::try_recv" else "try_recv", rx[0][1] if rx else None, e[4]))
            elif n == SEND:
                ch = e[5][0] if e[5] and e[5][0] is not None else e[3][0]
                tx = [x for x in absint.walk_terms(ch) if x and x[0] == "tx" and len(x) == 3]
                out.append((i, "send", tx[0][1] if tx else None, e[3][1] if len(e[3]) > 1 else None))
            elif n == LOCK:
                out.append((i, "lock", None, e[3][0] if e[3] else None))
            elif re.search(r"std::io::(Read::read|Write::write|Write::flush)$| as std::io::(Read|Write)>::(read|write|flush)$", n) or (e[6] or "") in ("std::io::Read::read", "std::io::Write::write", "std::io::Write::flush"):
                out.append((i, "io", None, e[3][0] if e[3] else None))
        return out


def writer_chain(facts):
    if not hasattr(facts, "_wchain"):
        facts._wchain = Chain(facts, SWB, SW, T_WRITE)
    return facts._wchain


def reader_chain(facts):
    if not hasattr(facts, "_rchain"):
        facts._rchain = Chain(facts, SRB, SR, T_READ)
    return facts._rchain


# ------------------------------------------------------------------------------------------------

def rule_writer_chain(ctx, r_wait, r_send, r_chain):
    """C01.2 (wait before lock), C01.3 (token sent by Drop only, always, after own turn), C01.4 (chaining)"""
    facts = ctx.facts
    C = writer_chain(facts)
    where = C.file
    ctx.ob(r_chain, "%s|evaluates" % SWB, "the writer builder and its draws evaluate to definite values (one outcome per draw, one fresh channel per draw)", not C.problems and len(C.items) == 3, where,
           None if not C.problems else str(C.problems[:3]))
    if C.problems or len(C.items) < 3:
        return
    W1, W2, W3 = C.items
    tx = [C.ends(w, "tx") for w in C.items]
    rx = [C.ends(w, "rx") for w in C.items]
    ok = not rx[0] and len(tx[0]) == 1 and len(rx[1]) == 1 and len(tx[1]) == 1 and rx[1][0][1] == tx[0][0][1] and len(rx[2]) == 1 and rx[2][0][1] == tx[1][0][1] \
        and len({tx[0][0][1], tx[1][0][1], tx[2][0][1] if tx[2] else None}) == 3
    ctx.ob(r_chain, "%s|successor-channel" % SWB, "the first writer has no predecessor; every later writer waits on the receiving end of the channel whose sending end its predecessor holds (fresh channel per draw)",
           ok, where, None if ok else "W1=%s W2=%s W3=%s" % tuple(symex.sym_str(w)[:160] for w in C.items))
    # all writers share one mutex: the shared handle of W_k is a clone of the builder's
    shared_handles = []
    for w in C.items:
        shared_handles.append([x for x in absint.walk_terms(w) if x and x[0] == "clone"])
    okm = all(len(h) >= 1 for h in shared_handles) and len({repr(h[0][1]) for h in shared_handles if h}) == 1
    ctx.ob(r_chain, "%s|one-shared-writer" % SWB, "every writer shares the builder's one Arc<Mutex<W>> (a clone of the same handle)", okm, where)
    b0_rx = C.ends(C.builders[0], "rx")
    ctx.ob(r_chain, "%s|initial-no-predecessor" % SWB, "a fresh builder has no predecessor token", not b0_rx, where)

    w_write = method(facts, T_WRITE, SW, "write")
    w_flush = method(facts, T_WRITE, SW, "flush")
    w_drop = method(facts, T_DROP, SW, "drop")
    pred_id = tx[0][0][1]
    # every method through which a handed-out writer can reach the shared write half: all items of its Write impl (the provided methods of
    # the trait go through these) and its inherent methods taking &mut self / &self
    others = [g for k, g in sorted(facts.local_fns.items()) if g.rec.get("impl_self_adt") == SW and g.rec.get("impl_trait") in (T_WRITE, None)
              and "{closure" not in k and g.id not in (w_write.id, w_flush.id) and g.argc >= 1 and g.local_ty(1).startswith("&") and SW in g.local_ty(1)]
    for m in [w_write, w_flush] + others:
        must_lock = m.id in (w_write.id, w_flush.id)
        for label, item, has_pred in (("first", W1, False), ("later", W2, True)):
            f, ps = C.run(m.id, item)
            ctx.touch(f, paths=len(ps))
            bad = []
            after = []
            for p in ps:
                ev = C.chan_events(p)
                locks = [i for i, k, ch, pl in ev if k == "lock"]
                recvs = [(i, ch) for i, k, ch, pl in ev if k == "recv"]
                if not locks:
                    if must_lock:
                        bad.append("never locks the shared writer")
                    continue
                if has_pred:
                    if not any(ch == pred_id and i < locks[0] for i, ch in recvs):
                        bad.append("locks the shared writer without having received the predecessor's token")
                else:
                    if recvs:
                        bad.append("waits although there is no predecessor")
                if any(k == "send" for i, k, ch, pl in ev):
                    bad.append("sends a token from %s" % m.rec.get("name"))
                after.append(absint.deep(p.state, p.state.read_key((1, "*"))))
            ctx.ob(r_wait, "%s|lock|%s" % (m.id, label), "Mutex::lock on the shared writer happens only after the predecessor's token was received (or no predecessor exists); nothing but Drop sends a token",
                   bool(ps) and not bad, "%s:%d" % (m.file, m.line), None if not bad else str(bad[:3]))
            # a second call does not wait again (the token is consumed once)
            if has_pred and after and not bad:
                f2, ps2 = C.run(m.id, after[0])
                again = [1 for p in ps2 for i, k, ch, pl in C.chan_events(p) if k == "recv"]
                ctx.ob(r_wait, "%s|waits-once" % m.id, "the token is waited for once: a writer that had its turn does not wait again on later writes", bool(ps2) and not again, "%s:%d" % (m.file, m.line))
    # Drop
    for label, item, my_rx, my_tx in (("first", W1, None, tx[0][0][1]), ("later", W2, pred_id, tx[1][0][1])):
        f, ps = C.run(w_drop.id, item)
        ctx.touch(f, paths=len(ps))
        bad = []
        for p in ps:
            ev = C.chan_events(p)
            sends = [(i, ch) for i, k, ch, pl in ev if k == "send"]
            recvs = [(i, ch) for i, k, ch, pl in ev if k == "recv"]
            if [ch for i, ch in sends] != [my_tx]:
                bad.append("sends %s (expected exactly its own successor's token)" % [ch for i, ch in sends])
                continue
            if my_rx is not None and not any(ch == my_rx and i < sends[0][0] for i, ch in recvs):
                bad.append("releases its successor without having waited for its own turn")
        ctx.ob(r_send, "%s|%s|send-after-own-turn" % (w_drop.id, label),
               "a writer's destructor releases exactly its successor, on every path, and only after its own turn has come (its predecessor finished), even when it is dropped without ever writing",
               bool(ps) and not bad, "%s:%d" % (w_drop.file, w_drop.line), None if not bad else str(bad[:3]))
    # a writer that already had its turn releases its successor without waiting again
    f, ps = C.run(w_write.id, W2)
    st_after = [absint.deep(p.state, p.state.read_key((1, "*"))) for p in ps]
    if st_after:
        f, ps = C.run(w_drop.id, st_after[0])
        bad = [1 for p in ps for i, k, ch, pl in C.chan_events(p) if k == "recv"]
        oks = all([ch for i, k, ch, pl in C.chan_events(p) if k == "send"] == [tx[1][0][1]] for p in ps)
        ctx.ob(r_send, "%s|used-writer-sends-without-waiting" % w_drop.id, "a writer that wrote (and therefore had its turn) releases its successor when dropped, without waiting for a token that will never come again",
               bool(ps) and not bad and oks, "%s:%d" % (w_drop.file, w_drop.line))
    # census: the token is sent nowhere else
    for g, bb, t in facts.all_calls(lambda t: call_is(t, SEND)):
        if g.file != C.file:
            continue
        in_drop = g.id == w_drop.id or g.id in [d for dep, d in C.inl(w_drop.id).inlined] or g.rec.get("impl_self_adt") in (SR,) or \
            g.id in [d for dep, d in reader_chain(facts).inl(method(facts, T_DROP, SR, "drop").id).inlined]
        ctx.ob(r_send, "send|%s" % g.id, "turn tokens are sent only from the destructors of the turn-taking types", in_drop, g.loc(bb))


def rule_reader_chain(ctx, rule):
    """C09.4: a dropped reader passes the socket reader on, a reader that waited keeps it, the builder chains readers"""
    facts = ctx.facts
    C = reader_chain(facts)
    where = C.file
    ctx.ob(rule, "%s|evaluates" % SRB, "the reader builder and its draws evaluate to definite values", not C.problems and len(C.items) == 3, where, None if not C.problems else str(C.problems[:3]))
    if C.problems or len(C.items) < 3:
        return
    R1, R2, R3 = C.items
    tx = [C.ends(w, "tx") for w in C.items]
    rx = [C.ends(w, "rx") for w in C.items]
    ok = not rx[0] and absint.contains(R1, X) and len(tx[0]) == 1 and len(rx[1]) == 1 and rx[1][0][1] == tx[0][0][1] and not absint.contains(R2, X) \
        and len(rx[2]) == 1 and len(tx[1]) == 1 and rx[2][0][1] == tx[1][0][1]
    ctx.ob(rule, "%s|successor-channel" % SRB, "the first reader owns the socket reader; every later reader waits on the receiving end of the channel whose sending end its predecessor holds",
           ok, where, None if ok else "R1=%s R2=%s" % (symex.sym_str(R1)[:160], symex.sym_str(R2)[:160]))
    r_read = method(facts, T_READ, SR, "read")
    r_drop = method(facts, T_DROP, SR, "drop")
    # drop: pass the socket reader on
    for label, item, my_rx, my_tx in (("first", R1, None, tx[0][0][1]), ("later", R2, tx[0][0][1], tx[1][0][1])):
        f, ps = C.run(r_drop.id, item)
        ctx.touch(f, paths=len(ps))
        bad = []
        for p in ps:
            ev = C.chan_events(p)
            sends = [(i, ch, pl) for i, k, ch, pl in ev if k == "send"]
            recvs = [(i, ch, pl) for i, k, ch, pl in ev if k == "recv"]
            if [ch for i, ch, pl in sends] != [my_tx]:
                bad.append("sends %s" % [ch for i, ch, pl in sends])
                continue
            payload = absint.deep(p.state, sends[0][2])
            if my_rx is None:
                if not absint.contains(payload, X):
                    bad.append("passes on %s instead of the socket reader" % symex.sym_str(payload)[:80])
            else:
                got = [pl for i, ch, pl in recvs if ch == my_rx and i < sends[0][0]]
                if not got or not any(absint.mentions_call(payload, g) for g in got):
                    bad.append("does not pass on the reader it received from its predecessor")
        ctx.ob(rule, "%s|%s-passes-reader-on" % (r_drop.id, label), "a dropped reader hands the socket reader to its successor on every path (after receiving it from its predecessor if it has one)",
               bool(ps) and not bad, "%s:%d" % (r_drop.file, r_drop.line), None if not bad else str(bad[:3]))
    # read: the first reads the socket reader; a later one waits, reads and keeps the reader
    for label, item, my_rx in (("first", R1, None), ("later", R2, tx[0][0][1])):
        f, ps = C.run(r_read.id, item)
        ctx.touch(f, paths=len(ps))
        bad = []
        kept = []
        for p in ps:
            ev = C.chan_events(p)
            recvs = [(i, ch, pl) for i, k, ch, pl in ev if k == "recv"]
            ios = [(i, pl) for i, k, ch, pl in ev if k == "io"]
            if any(k == "send" for i, k, ch, pl in ev):
                bad.append("read passes the reader on")
            if not ios:
                bad.append("does not read")
                continue
            final = absint.deep(p.state, p.state.read_key((1, "*")))
            if my_rx is None:
                if recvs:
                    bad.append("waits although it owns the reader")
                if not absint.contains(final, X):
                    bad.append("loses the socket reader")
            else:
                got = [pl for i, ch, pl in recvs if ch == my_rx and i < ios[0][0]]
                if not got:
                    bad.append("reads without having received the reader from its predecessor")
                elif not any(absint.mentions_call(final, g) for g in got):
                    bad.append("does not keep the reader it received (a second read would wait for ever)")
                kept.append(final)
        ctx.ob(rule, "%s|%s" % (r_read.id, "reads-own-reader" if my_rx is None else "keeps-reader-after-wait"),
               "the first reader reads the socket reader it owns" if my_rx is None else "a reader received from the predecessor is read from and stored before read returns, on every path",
               bool(ps) and not bad, "%s:%d" % (r_read.file, r_read.line), None if not bad else str(bad[:3]))
        if my_rx is not None and kept and not bad:
            f2, ps2 = C.run(r_read.id, kept[0])
            again = [1 for p in ps2 for i, k, ch, pl in C.chan_events(p) if k == "recv"]
            ctx.ob(rule, "%s|waits-once" % r_read.id, "a reader that obtained the socket reader does not wait again", bool(ps2) and not again, "%s:%d" % (r_read.file, r_read.line))
            # and dropping it afterwards still passes the reader on
            f3, ps3 = C.run(r_drop.id, kept[0])
            okd = bool(ps3) and all([ch for i, k, ch, pl in C.chan_events(p) if k == "send"] == [tx[1][0][1]] for p in ps3)
            ctx.ob(rule, "%s|used-reader-passes-reader-on" % r_drop.id, "a reader that has read passes the socket reader on when dropped", okd, "%s:%d" % (r_drop.file, r_drop.line))
