"""Response::raw_print evaluated over a grid of inputs by abstract path exploration (with the private helpers of response.rs spliced in;
the transfer-coding chooser is a separate decision (C05) and is replaced by each of its possible results).  For every combination of
status / declared length / caller's `do_not_send_body` / chosen coding / upgrade the events of every abstract path are summarised:
which framing headers were added, whether the head was written before any body byte, whether body bytes were copied, whether a chunk
encoder was created and finished, whether the body was buffered first."""
import re, itertools
from core import *  # noqa
from roles import *  # noqa
import roles, shared, symex, inline, absint
import queue_rules as Q

DEAD = ("diverge", "resume", "terminate", "unreachable")
BODY = ("sym", "the-body-reader")
OUT = ("sym", "the-output-writer")
DLEN = ("sym", "declared-length")


class ResponseModel:
    def __init__(self, facts):
        self.facts = facts
        self.rp = roles.inherent(facts, RESP, "raw_print")
        self.file = self.rp.file
        same = lambda d: facts.fns[d].rec.get("local") and facts.fns[d].file == self.file
        # the coding chooser: the function of this file returning TransferEncoding that raw_print reaches
        ch = [k for k, g in facts.local_fns.items() if g.file == self.file and g.locals[0]["ty"] == TE and g.rec["def_kind"] in ("Fn", "AssocFn") and "{closure" not in k
              and g.rec.get("impl_trait") is None and g.rec.get("impl_self_adt") not in (RESP, TE)]
        if len(ch) > 1:
            # the decision split over several functions (the default rule, the client's preference ...): the chooser is the one the others
            # are reached from
            def reach_(k, seen=()):
                out = set()
                bodies = [k] + [c for c in facts.local_fns if c.startswith(k + "::{closure")]
                for b_ in bodies:
                    for bb, t in facts.fns[b_].calls():
                        c = call_name(t)
                        if c in facts.local_fns and c not in seen and facts.fns[c].file == self.file:
                            out |= {c} | reach_(c, seen + (k, c))
                return out
            roots = [k for k in ch if not any(k in reach_(o) for o in ch if o != k)]
            if len(roots) == 1:
                ch = roots
        if len(ch) != 1:
            raise CheckerError("response rules: transfer-coding chooser not found (%s)" % ch)
        self.chooser = facts.fn(ch[0])
        # the head writer: the function of this file, returning io::Result<()>, whose parameters give it the status code and the header list
        # (directly, or inside a struct of this crate) next to a writer
        def covers(g, needle):
            for l in g.locals[1:1 + g.argc]:
                ty = l["ty"]
                if needle in ty:
                    return True
                a = facts.adts.get(ty.lstrip("&").replace("mut ", ""))
                if a is not None and a["kind"] == "Struct" and a["id"] != RESP and any(needle in x["ty"] for x in a["variants"][0]["fields"]):
                    return True
            # a parameter of generic type (`headers: I where I: IntoIterator<Item = &Header>`): what it is instantiated with
            if any(re.match(r"^&?(mut )?[A-Z]\w*$", l["ty"]) for l in g.locals[1:1 + g.argc]):
                for i_ in facts.instances_of(g.id):
                    m_ = re.search(r"::<(.*)>$", i_.get("name") or "")
                    if m_ and needle in m_.group(1):
                        return True
            return False
        hw = [k for k, g in facts.local_fns.items() if g.file == self.file and g.rec["def_kind"] in ("Fn", "AssocFn") and "{closure" not in k
              and g.rec.get("impl_self_adt") != RESP and g.rec.get("impl_trait") is None
              and g.locals[0]["ty"] == "std::result::Result<(), std::io::Error>" and covers(g, "common::StatusCode") and covers(g, "common::Header")]
        if len(hw) > 1:
            # a wrapper that hands its arguments on to the head writer proper (a method of a printing context): the innermost one is it
            inner = [k for k in hw if not any(call_name(t) in hw and call_name(t) != k for bb, t in facts.fns[k].calls())]
            if len(inner) == 1:
                hw = inner
        if len(hw) != 1:
            raise CheckerError("response rules: head writer not found (%s)" % hw)
        self.head_writer = facts.fn(hw[0])
        stops = {self.chooser.id, self.head_writer.id}
        self.f = inline.inlined(facts, self.rp.id, stop=lambda d: facts.fns[d].rec.get("local") and (not same(d) or d in stops), extern_ok=Q.std_small)
        ra = facts.adt(RESP)["variants"][0]["fields"]
        self.fields = {x["name"]: x["ty"] for x in ra}
        def one(rx, what):
            ps = shared.find_slot_paths(facts, RESP, rx)
            if len(ps) != 1:
                raise CheckerError("response rules: %s of Response not found (%s)" % (what, ps))
            return ps[0]
        self.status_path = one(r"^common::StatusCode$", "status code")
        self.headers_path = one(r"^std::vec::Vec<common::Header", "header list")
        self.status_f, self.headers_f = self.status_path[-1], self.headers_path[-1]
        self.status_key = tuple("." + x for x in self.status_path)
        self.headers_key = tuple("." + x for x in self.headers_path)
        self.len_paths = shared.find_slot_paths(facts, RESP, r"^std::option::Option<usize>$")
        self.len_f = [p[-1] for p in self.len_paths]
        self.reader_path = one(r"^R$", "body reader")
        self.reader_f = self.reader_path[-1]
        self.reader_key = tuple("." + x for x in self.reader_path)
        # data_length vs chunked_threshold: the declared length is the one the chooser receives as its `entity length`
        self.dlen_f = None
        for bb, t in self.f.calls():
            if call_name(t) == self.chooser.id:
                for a in t["args"]:
                    o = self.f.origin(a)
                    fs = origin_fields(o) & set(self.len_f)
                    if fs and ("Option<usize>" in (self.f.local_ty(op_local(a)) if op_local(a) is not None else "")):
                        self.dlen_f = sorted(fs)[0]
        if self.dlen_f is None:
            if not self.len_f:
                raise CheckerError("response rules: declared-length field of Response not found")
            self.dlen_f = "data_length" if "data_length" in self.len_f else self.len_f[0]
        self.dlen_path = [p for p in self.len_paths if p[-1] == self.dlen_f][0]
        self.dlen_key = tuple("." + x for x in self.dlen_path)
        self.thr_paths = [p for p in self.len_paths if p != self.dlen_path]

    def at(self, fields, path):
        """value at a field path inside the field dict of a Response aggregate term"""
        import framing_rules as FRM
        return FRM.term_at(("agg", RESP, "Response", fields), path)

    def run(self, status, dlen, dns, te, upgrade):
        f = self.f
        st = symex.Sym(f)
        # `self` as one known aggregate (so that it keeps its contents when it is moved into a helper as a whole)
        over = {self.status_path: ("agg", STATUS, "StatusCode", {"0": ("const", status, "%d_u16" % status, None)}),
                self.dlen_path: ("none",) if dlen is None else ("some", ("const", dlen, "%d_usize" % dlen, None)),
                self.reader_path: BODY}
        def build(adt, prefix):
            a = self.facts.adts.get(adt)
            d = {}
            for x in a["variants"][0]["fields"]:
                path = prefix + (x["name"],)
                if path in over:
                    d[x["name"]] = over[path]
                elif any(k[:len(path)] == path for k in over) and x["ty"] in self.facts.adts and self.facts.adts[x["ty"]]["kind"] == "Struct":
                    d[x["name"]] = build(x["ty"], path)
                else:
                    d[x["name"]] = ("init", (1,) + tuple("." + s_ for s_ in path))
            return ("agg", adt, a["variants"][0]["name"], d)
        st.write_key((1,), build(RESP, ()))
        st.write_key((2,), OUT)
        st.write_key((5,), ("const", dns, str(dns).lower(), None))
        st.write_key((6,), ("none",) if not upgrade else ("some", ("sym", "protocol")))
        def on_call(bb, t, args, s2):
            if call_name(t) == self.chooser.id:
                return ("agg", TE, te, {})
            return None
        return [p for p in absint.explore(f, 0, st, on_call=on_call, max_paths=4000, deep_events=True) if p.end[0] not in DEAD]

    def summary(self, p):
        ev = p.events
        ok_ = False
        if p.end[0] == "return":
            r_ = p.ret()
            if r_[0] == "agg":
                ok_ = r_[2] == "Ok"
            else:
                # the function's answer is what its last write answered (`writer.write_all(&message)` as the tail expression): that can
                # be success, unless the path saw that very call fail
                hc_ = absint.head_call(r_)
                ok_ = hc_ is not None and not any(c and c[0] == "variant" and c[2] in ("Err", "Break") and absint.mentions_call(c[3], hc_) for bb_, c in p.conds)
        out = {"headers": [], "head": None, "copies": [], "encoders": [], "buffered": False, "enc_drops": [], "ok": ok_}
        for i, e in enumerate(ev):
            if e[1] == "call":
                n = e[2]
                if n.endswith("common::Header::from_bytes"):
                    name = None
                    for a in (e[8] or e[3])[:1]:
                        for x in absint.walk_terms(a):
                            if x and x[0] == "const" and isinstance(x[1], bytes):
                                name = x[1]
                            elif x and x[0] == "const" and isinstance(x[1], str) and name is None:
                                name = x[1].encode()       # (`"Date".as_bytes()`)
                    out["headers"].append((i, name, (e[8] or e[3])[1] if len(e[3]) > 1 else None))
                elif n == self.head_writer.id:
                    out["head"] = i
                    out["head_args"] = e[8] or e[3]
                elif re.search(r"^std::io::copy(::<|$)", n):
                    out["copies"].append((i, e[8] or e[3]))
                elif re.search(r"chunked_transfer::Encoder::<W>::(new|with_chunks_size)$", n):
                    out["encoders"].append((i, e[4]))
                elif (e[6] or "") == "std::io::Read::read_to_end":
                    out["buffered"] = True
                    out["buffer_args"] = e[8] or e[3]
            elif e[1] == "drop" and "chunked_transfer::Encoder<" in (e[2] or ""):
                out["enc_drops"].append(i)
        # body bytes that reach the writer by another road than io::copy / the chunk encoder: read from the response's reader into a
        # buffer of the function, and that buffer written to the output (a "fast path" that assembles the message in memory)
        st0 = p.state
        def canon0(k):
            try:
                k = st0.resolve_key(k)
            except Exception:
                pass
            return tuple(y for y in k if y != "*")
        def refkeys(args, depth=0, acc=None):
            # the places the arguments refer to, directly or through a reference held in a local (`&*Deref::deref(&buf)`)
            acc = set() if acc is None else acc
            if depth > 5:
                return acc
            for a in args:
                for x in absint.walk_terms(a):
                    if isinstance(x, tuple) and len(x) == 2 and x[0] == "ref" and isinstance(x[1], tuple):
                        k = canon0(x[1])
                        if k not in acc:
                            acc.add(k)
                            if "*" in x[1]:
                                try:
                                    refkeys([st0.read_key(tuple(y for y in x[1] if y != "*"))], depth + 1, acc)
                                except Exception:
                                    pass
            return acc
        carry = set()
        for i, e in enumerate(ev):
            if e[1] != "call":
                continue
            deep_ = list(e[8] or e[3])
            nm = (e[6] or "") + " " + e[2]
            if re.search(r"Read::read\w*|Read>::read\w*|std::io::copy", nm) and any(absint.contains(a, BODY) for a in deep_):
                carry |= {k for k in refkeys(e[3]) if k and k[0] != 1}
            elif re.search(r"Write::write(_all)?\b|Write>::write(_all)?$", nm) and deep_ and absint.contains(deep_[0], OUT) and (refkeys(e[3][1:]) & carry):
                out["copies"].append((i, deep_))
                out["assembled"] = True
        # a header that was built counts only if it is handed to the head writer: it occurs in what the head writer is given (a list or
        # iterator expression built from it), or it was appended to a list the head writer is given a view of
        if out["head"] is not None:
            h = ev[out["head"]]
            hargs = list(h[3]) + list(h[8] or [])
            st = p.state
            def keys_of(v, depth=0, acc=None):
                acc = set() if acc is None else acc
                if depth > 6:
                    return acc
                for x in absint.walk_terms(v):
                    if isinstance(x, tuple) and len(x) == 2 and x[0] == "ref" and isinstance(x[1], tuple):
                        k = x[1]
                        if k not in acc:
                            acc.add(k)
                            base = tuple(y for y in k if y != "*")
                            if base != k and base not in acc:
                                acc.add(base)
                                try:
                                    keys_of(st.read_key(base), depth + 1, acc)
                                except Exception:
                                    pass
                return acc
            keys = set()
            for a in h[3]:
                keys |= keys_of(a)
            def canon(k):
                try:
                    k = st.resolve_key(k)
                except Exception:
                    pass
                return tuple(y for y in k if y != "*")
            ckeys = {canon(k) for k in keys}
            def same_place(k):
                # the list appended to is what the head writer is given a view of, or a part of it (a field of a struct handed over whole)
                c = canon(k)
                return any(c[:len(x)] == x or x[:len(c)] == c for x in ckeys)
            appends = []
            for j, e in enumerate(ev[:out["head"]]):
                if e[1] == "call" and re.search(r"(Vec::<T(, A)?>|VecDeque::<T(, A)?>)::(push|push_back|push_front|insert|extend\w*|append)$|(Vec|VecDeque)<.*> as std::iter::Extend<.*>>::extend\w*$", e[2]) and e[3] and e[3][0] and e[3][0][0] == "ref":
                    appends.append((j, e[3][0][1], list(e[3][1:]) + list((e[8] or [])[1:])))
            sent, unsent = [], []
            for (i, name, val) in out["headers"]:
                ct = ev[i][4]
                direct = i < out["head"] and any(absint.mentions_call(a, ct) for a in hargs)
                via = any(j > i and same_place(k) and any(absint.mentions_call(x, ct) for x in vals) for j, k, vals in appends)
                (sent if (direct or via) else unsent).append((i, name, val))
            out["headers"], out["unsent"] = sent, unsent
        return out


def resp_model(facts):
    if not hasattr(facts, "_resp_model"):
        facts._resp_model = ResponseModel(facts)
    return facts._resp_model
