"""C07 — each complete request is delivered exactly once; no lost wake-ups."""
import re
from core import *  # noqa
from roles import *  # noqa
import roles, shared, symex
import queue_rules as Q
import server_rules as S

EXPLANATION = (
    "Monitor discipline of the request queue decided on MIR, independent of how entries are represented and of how the code is "
    "split into helpers (API methods are analysed with their helpers spliced in; variant propagation decides what a consumer does "
    "with an element / a token / an empty queue): every push is followed by a notify under the same guard; every wait sits in a "
    "loop, is preceded by the predicate check, and every wake-up path re-checks the queue before returning unless the wait "
    "reported a timeout (no consumed-but-ignored notification); a popped element is always what the consumer returns; only "
    "push_back/pop_front touch the deque (FIFO); recv/recv_timeout/try_recv return the queued request; the connection task "
    "pushes every parsed request exactly once; nothing blocking runs under the queue lock (mono effect graph); Request is not Clone.")
TRUSTED = ["rustc MIR / trait resolution", "std effect table", "std Mutex/Condvar semantics (a notified waiter re-acquires the lock)",
           "MIR of the small std combinators (Option/Result methods, `?`) as shipped with the toolchain"]


def run(ctx):
    facts = ctx.facts
    roles.bind(facts)
    m = Q.model(facts)
    n = Q.rule_notify_after_push(ctx, "C07.1")
    ctx.floor("C07.1 push_back sites in the queue's API methods", n, 2)
    n = Q.rule_wait_protocol(ctx, "C07.2")
    ctx.floor("C07.2 wait sites", n, 2)
    n = Q.rule_no_loss(ctx, "C07.3")
    ctx.floor("C07.3 pop_front sites", n, 3)
    n = S.rule_recv_mapping(ctx, "C07.3", which=("request",))
    ctx.floor("C07.3 Server receive functions", n, 3)
    S.rule_incoming_forwards_recv(ctx, "C07.3")
    n = Q.rule_fifo_census(ctx, "C07.4")
    ctx.floor("C07.4 deque call sites", n, 2)   # (at least one place that queues and one that takes; helpers may share the rest)
    S.rule_connection_task_pushes(ctx, "C07.5")
    n = Q.rule_under_lock_effects(ctx, "C07.6")
    ctx.floor("C07.6 calls under the queue lock", n, 8)
    # ---- C07.8 a freshly accepted connection is read from: its parser starts with the gate open whatever the socket reports about the peer
    import rules_C12, engine, parser_rules as PRS
    c2 = engine.Ctx("C07", "quick", facts, 0)
    PM_ = PRS.pmodel(facts)
    rules_C12.run_rest(c2, PM_, PM_.nxt, PM_.flag)
    n8 = engine.take_over(ctx, c2.obs, lambda o: o.rule == "C12.2" and (o.key.startswith("C12.2|flag-init") or o.key.endswith("|flag-clear-reads")), "C07.8")
    ctx.floor("C07.8 obligations on the parser's gate at construction", n8, 1)
    # ---- C07.9 a connection that must stay open is kept open, so that the later requests on it are read and delivered: the parser's
    # keep-alive table (C12.1), taken over
    c3 = engine.Ctx("C07", "quick", facts, 0)
    try:
        rules_C12.keepalive_table(c3)
        n9 = engine.take_over(ctx, c3.obs, lambda o: o.rule == "C12.1" and o.key.split("|")[-1] in ("table", "atoms", "haystack"), "C07.9")
        ctx.floor("C07.9 obligations taken from the keep-alive table", n9, 2)
    except CheckerError as e:
        raise CheckerError("C07.9 (the parser's keep-alive decision could not be extracted): %s" % e)
    # ---- C07.10 an accepted connection gets a thread that reads it (otherwise its requests are never parsed, let alone delivered): the
    # dispatch rule of the worker pool (C08.1), taken over
    import pool_rules as PR_
    try:
        PR_.rule_dispatch(ctx, "C07.10")
    except CheckerError as e:
        raise CheckerError("C07.10 (the worker pool's dispatch could not be evaluated): %s" % e)
    msg, shapes = S.message_shapes(facts)
    for tr in (T_CLONE, T_COPY):
        ctx.ob("C07.7", "noimpl|%s|%s" % (tr, REQ), "a Request cannot be duplicated, so at most one receiver obtains it", not facts.has_impl(tr, REQ), REQ)
        ctx.ob("C07.7", "noimpl|%s|%s" % (tr, msg), "a queued message cannot be duplicated", not facts.has_impl(tr, msg), msg)
    return {}
