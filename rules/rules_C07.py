"""C07 — each complete request is delivered exactly once; no lost wake-ups."""
import re
from core import *  # noqa
from roles import *  # noqa
import roles, shared, symex
import queue_rules as Q

EXPLANATION = (
    "Monitor discipline of MessagesQueue decided on MIR: every push is followed by a notify under the same guard; every "
    "wait sits in a loop, is preceded by the predicate check, and every wake-up path re-checks the queue before returning "
    "unless the wait reported a timeout (no consumed-but-ignored notification); popped elements are always moved into the "
    "returned value; only push_back/pop_front touch the deque (FIFO); the connection task pushes every parsed request; "
    "nothing blocking runs under the queue lock (mono effect graph); Request is not Clone.")
TRUSTED = ["rustc MIR / trait resolution", "std effect table", "std Mutex/Condvar semantics (a notified waiter re-acquires the lock)"]


def run(ctx):
    facts = ctx.facts
    roles.bind(facts)
    n = Q.rule_notify_after_push(ctx, "C07.1")
    ctx.floor("C07.1 push_back sites", n, 2)
    n = Q.rule_wait_protocol(ctx, "C07.2")
    ctx.floor("C07.2 wait sites", n, 2)
    n = Q.rule_no_loss(ctx, "C07.3")
    ctx.floor("C07.3 pop_front sites", n, 3)
    # Server::{recv, recv_timeout, try_recv}: the NewRequest payload is what is returned
    n = 0
    for f in facts.find_fns(r"^Server::(recv|recv_timeout|try_recv)$"):
        ctx.touch(f)
        for bb in sorted(f.live_blocks()):
            sw = switch_on_discr(f, bb)
            if sw and sw[0].get("adt") == "Message":
                rv, m, otherwise, rest = sw
                tgt = m.get("NewRequest", otherwise if "NewRequest" in rest else None)
                ctx.require(tgt is not None, "C07.3: no NewRequest arm in %s" % f.id)
                n += 1
                outs = shared.eval_from(f, tgt)
                ok = bool(outs)
                for p, st in outs:
                    v = st.read_key((0,))
                    s = symex.sym_str(v)
                    okp = v[0] == "agg" and v[2] == "Ok" and "NewRequest" in str(v)
                    ok = ok and okp
                ctx.ob("C07.3", "%s|request-returned" % f.id, "the request taken from the queue is the value returned to the application", ok, f.loc(tgt))
    ctx.floor("C07.3 Server receive functions", n, 3)
    inc = method(facts, T_ITER, "IncomingRequests", "next")
    o = inc.origin_place({"l": 0, "p": []})
    ok = o[0] == "call" and o[1].endswith("Result::<T, E>::ok") and origin_has_call(o, r"^Server::recv$")
    ctx.ob("C07.3", "%s|forwards-recv" % inc.id, "the incoming-requests iterator yields exactly what recv() returns", ok, "%s:%d" % (inc.file, inc.line), origin_str(o))
    n = Q.rule_fifo_census(ctx, "C07.4")
    ctx.floor("C07.4 deque call sites", n, 5)

    # ---- C07.5 the connection task pushes every parsed request
    cc_next = method(facts, T_ITER, CC, "next")
    mq_push = roles.inherent(facts, MQ, "push")
    sites = facts.callers_of(cc_next.id)
    ctx.floor("C07.5 connection-iterator call sites", len(sites), 1)
    for k, (f, bb, t) in enumerate(sites):
        ctx.touch(f, calls=1)
        sw = None
        for b2 in sorted(f.reach([t["target"]], unwind=False)):
            s2 = switch_on_discr(f, b2)
            if s2 and not s2[0]["pl"]["p"] and s2[0]["pl"]["l"] == t["dest"]["l"]:
                sw = s2
                break
        ctx.require(sw is not None, "C07.5: result of the connection iterator is not matched in %s" % f.id)
        rv, m, otherwise, rest = sw
        some_t = m.get("Some", otherwise if "Some" in rest else None)
        pushes = set(f.call_blocks(lambda t2: call_is(t2, mq_push.id)))
        reach = f.reach([some_t], blocked=pushes, unwind=False)
        ok = bool(pushes) and bb not in reach and not any(r in reach for r in f.returns())
        ctx.paths += 1
        ctx.ob("C07.5", "%s|push-every-request|%d" % (f.id, k), "every request produced by the connection parser is pushed to the server's queue (no filter, no early exit)",
               ok, f.loc(bb), None if ok else "path from `Some(rq)` back to next()/return without MessagesQueue::push")
        for pb in pushes:
            if pb in f.reach([some_t], unwind=False):
                o = f.origin(f.term(pb)["args"][1])
                okp = any(x[0] == "downcast" and x[2] == "Some" for x in origin_walk(o))
                ctx.ob("C07.5", "%s|pushes-that-request|%d" % (f.id, k), "what is pushed is the request just parsed", okp, f.loc(pb), origin_str(o))

    n = Q.rule_under_lock_effects(ctx, "C07.6")
    ctx.floor("C07.6 calls under the queue lock", n, 8)
    for tr in (T_CLONE, T_COPY):
        ctx.ob("C07.7", "noimpl|%s|%s" % (tr, REQ), "a Request cannot be duplicated, so at most one receiver obtains it", not facts.has_impl(tr, REQ), REQ)
        ctx.ob("C07.7", "noimpl|%s|%s" % (tr, "Message"), "a queued message cannot be duplicated", not facts.has_impl(tr, "Message"), "Message")
    return {}
