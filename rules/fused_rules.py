"""The fused reader (the wrapper that turns a framed body reader into `stays at end-of-stream for ever and lets go of the socket
reader`) evaluated by abstract path exploration of its Read::read, with the helpers and closures of its file spliced in and the inner
reader's answer fixed per run (0 bytes / some bytes / an error).  Independent of how read is split into helpers."""
import re
from core import *  # noqa
from roles import *  # noqa
import roles, shared, symex, inline, absint
import queue_rules as Q

INNER = ("sym", "the-inner-reader")
READS = ("std::io::Read::read", "std::io::Read::read_vectored")
DEAD = ("diverge", "resume", "terminate", "unreachable")


def ok_(n):
    return ("agg", "std::result::Result", "Ok", {"0": ("const", n, "%d_usize" % n, None)})


ERR = ("agg", "std::result::Result", "Err", {"0": ("sym", "an-io-error")})


class FusedModel:
    def __init__(self, facts, adt=None, name="read"):
        self.facts = facts
        self.adt = adt or FR
        self.f0 = method(facts, T_READ, self.adt, name)
        file = self.f0.file
        self.f = inline.inlined(facts, self.f0.id, stop=shared.helper_stop(facts, file), extern_ok=Q.std_small)
        # the slot holding the inner reader: an Option<R>, or an enum of the crate with one variant carrying the reader and one empty variant
        def slot_kind(ty):
            if ty == "std::option::Option<R>":
                return ("option",)
            a = facts.adts.get(re.sub(r"<R>$", "", ty))
            if a is not None and a["kind"] == "Enum" and len(a["variants"]) == 2:
                full = [v for v in a["variants"] if len(v["fields"]) == 1 and v["fields"][0]["ty"] == "R"]
                empty = [v for v in a["variants"] if not v["fields"]]
                if len(full) == 1 and len(empty) == 1:
                    return ("enum", a["id"], full[0]["name"], full[0]["fields"][0]["name"], empty[0]["name"])
            return None
        slots = shared.find_slot_paths(facts, self.adt, lambda ty: slot_kind(ty) is not None)
        if len(slots) != 1:
            raise CheckerError("fused rules: the slot holding the inner reader of %s not found (%s)" % (self.adt, slots))
        self.slot = slots[0]
        owner, fld = shared.owner_of_path(facts, self.adt, self.slot)
        self.kind = slot_kind([x["ty"] for x in facts.adt(owner)["variants"][0]["fields"] if x["name"] == fld][0])
        self.key = (1, "*") + tuple("." + x for x in self.slot)
        if self.kind[0] == "option":
            self.FULL, self.EMPTY = ("some", INNER), ("none",)
        else:
            self.FULL, self.EMPTY = ("agg", self.kind[1], self.kind[2], {self.kind[3]: INNER}), ("agg", self.kind[1], self.kind[4], {})

    def is_full(self, v):
        return v == self.FULL or (v and v[0] == "init") or (v and v[0] in ("refined", "agg") and absint.variant_of(v) == (self.kind[2] if self.kind[0] == "enum" else "Some") and absint.contains(v, INNER))

    def is_empty(self, v):
        return v == self.EMPTY or (v and v[0] in ("agg", "refined") and self.kind[0] == "enum" and absint.variant_of(v) == self.kind[4])

    def run(self, inner, answer, empty_buf=None):
        """empty_buf: None = nothing is known about the caller's buffer; True / False = it has no room / some room (every question the code
        asks about the buffer parameter -- is_empty, len, `any` over the buffers of a vectored read -- is answered accordingly)"""
        st = symex.Sym(self.f)
        st.write_key(self.key, self.FULL if inner else self.EMPTY)
        import drain_rules as DR
        def about_buf(s2, a):
            return DR.from_param(absint.deep(s2, a), 2)
        def on_call(bb, t, args, s2):
            if t.get("callee") in READS:
                return answer
            if empty_buf is not None and args:
                nm = call_name(t)
                if re.search(r"slice::<impl \[T\]>::(is_empty|len)$", nm) and about_buf(s2, args[0]):
                    if nm.endswith("is_empty"):
                        return ("const", empty_buf, "true" if empty_buf else "false", None)
                    return ("const", 0 if empty_buf else 16, "0_usize" if empty_buf else "16_usize", None)
                if re.search(r"Iterator>?::(any|all)(::<|$)", nm) and about_buf(s2, args[0]):
                    # `bufs.iter().any(|b| !b.is_empty())` / `.all(|b| b.is_empty())`: "some buffer has room" / "no buffer has room"
                    clo = absint.deep(s2, args[1]) if len(args) > 1 else None
                    g = self.facts.fns.get(clo[1]) if clo and clo[0] == "closure" else None
                    neg = False
                    if g is not None:
                        o = g.origin_place({"l": 0, "p": []})
                        while o[0] == "unop" and o[1] == "Not":
                            o, neg = o[2], not neg
                        if o[0] == "call" and re.search(r"::is_empty$", o[1]):
                            per_buf = empty_buf != neg        # what the closure answers for each buffer
                            r = per_buf                        # all buffers alike: any == all == that answer
                            return ("const", r, "true" if r else "false", None)
            return None
        ps = [p for p in absint.explore(self.f, 0, st, on_call=on_call, max_paths=2000) if p.end[0] not in DEAD]
        out = []
        for p in ps:
            n = len([e for e in p.calls() if e[6] in READS])
            out.append({"end": p.end[0], "ret": absint.deep(p.state, p.ret()) if p.end[0] == "return" else None, "reads": n,
                        "slot": absint.deep(p.state, p.state.read_key(self.key)), "path": p})
        return out


def fmodel(facts, adt=None, name="read"):
    k = "_fused_model_%s_%s" % (adt or FR, name)
    if not hasattr(facts, k):
        setattr(facts, k, FusedModel(facts, adt, name))
    return getattr(facts, k)


def is_ok(r, n):
    return r is not None and r[0] == "agg" and r[2] == "Ok" and absint.const_of(r[3]["0"]) == n


def fused_rules(ctx, rule_stub="C03.4", rule_release="C03.4", rule_retry=None):
    facts = ctx.facts
    M = fmodel(facts)
    where = "%s:%d" % (M.f0.file, M.f0.line)
    ctx.touch(M.f)
    res = {}
    rows = M.run(False, ok_(7))
    ok = bool(rows) and all(r["end"] == "return" and is_ok(r["ret"], 0) and r["reads"] == 0 and M.is_empty(r["slot"]) for r in rows)
    if rule_stub:
        ctx.ob(rule_stub, "%s|empty-stays-eof" % M.f0.id, "once emptied, the fused reader returns Ok(0) forever, without touching any reader", ok, where,
               None if ok else str([(r["end"], symex.sym_str(r["ret"] or ("unknown",))[:40], r["reads"]) for r in rows][:3]))
    z = M.run(True, ok_(0), empty_buf=False)
    okz = bool(z) and all(r["end"] == "return" and is_ok(r["ret"], 0) and r["reads"] == 1 and M.is_empty(r["slot"]) for r in z)
    n = M.run(True, ok_(7))
    okn = bool(n) and all(r["end"] == "return" and is_ok(r["ret"], 7) and r["reads"] == 1 and M.is_full(r["slot"]) for r in n)
    e = M.run(True, ERR)
    oke = bool(e) and all(r["end"] == "return" and r["ret"] is not None and r["ret"][0] == "agg" and r["ret"][2] == "Err" and r["reads"] == 1 and M.is_full(r["slot"]) for r in e)
    def show(rows):
        return str([(r["end"], symex.sym_str(r["ret"] or ("unknown",))[:40], r["reads"], symex.sym_str(r["slot"])[:30]) for r in rows][:3])
    if rule_release:
        ctx.ob(rule_release, "%s|drops-inner-at-eof" % M.f0.id, "the inner reader is released exactly when a read returned 0: then, and only then (a read of some bytes or a failed read keeps it)",
               okz and okn and oke, where, None if okz and okn and oke else "eof:%s bytes:%s error:%s" % (show(z), show(n), show(e)))
    if rule_retry:
        ctx.ob(rule_retry, "%s|no-retry" % M.f0.id, "a failing inner read is reported to the caller, not retried", oke, where, None if oke else show(e))
    # a read into a buffer without room returns 0 anywhere in the body: that 0 says nothing about the end of the body and must not make the
    # fused reader let go of (and thereby discard the rest of) the body
    okb = True
    detail_b = None
    if rule_release:
        for name in ("read", "read_vectored"):
            try:
                Mv = fmodel(facts, None, name)
            except CheckerError:
                continue
            if Mv.f0.rec.get("impl_trait") != T_READ or not Mv.f0.rec.get("local"):
                continue
            zb = Mv.run(True, ok_(0), empty_buf=True)
            ctx.paths += len(zb)
            good = bool(zb) and all(r["end"] == "return" and is_ok(r["ret"], 0) and Mv.is_full(r["slot"]) for r in zb)
            ctx.ob(rule_release, "%s|empty-buffer-keeps-inner" % Mv.f0.id,
                   "a read into a buffer without room (which returns 0 anywhere in the body) does not make the fused reader let go of the body: the rest of it would be discarded unread",
                   good, "%s:%d" % (Mv.f0.file, Mv.f0.line), None if good else show(zb))
            okb = okb and good
    ctx.paths += len(rows) + len(z) + len(n) + len(e)
    return {"stub": ok, "eof": okz, "bytes": okn, "err": oke, "empty_buf": okb}
