"""C03 — the request body is delimited exactly by the message framing."""
import re, itertools
from core import *  # noqa
from roles import *  # noqa
import roles, shared, symex, predeval, taint

EXPLANATION = (
    "Decision-table extraction and bound rules on MIR: new_request's framing decision is walked for every combination of {upgrade, Transfer-Encoding "
    "present, Content-Length absent/0/1/1024/1025/large, Expect} and the reader type built on each path is compared with DESIGN A.1 (TE takes precedence, "
    "constants 0 and 1024 and their comparison kinds are part of the table); body_length is the same Content-Length; EqualReader never hands its inner "
    "reader a slice longer than its remaining size, returns EOF at 0 without touching it and decrements by the returned count; the pre-read loop fills "
    "exactly Content-Length bytes; every Decoder/EqualReader over the shared reader sits inside a FusedReader, which becomes empty after the first EOF. "
    "Equality of the returned bytes with the sent bytes and chunk-syntax variants are not decided.")
TRUSTED = ["rustc MIR", "chunked_transfer::Decoder decodes the chunked coding and returns 0 at its end", "io::Read contract of the inner readers"]

EXPECTED_READER = {
    "raw": r"^std::boxed::Box::<R>::new$",
    "empty": r"^std::boxed::Box::<std::io::Empty>::new$",
    "buffer": r"^std::boxed::Box::<std::io::Cursor<std::vec::Vec<u8>>>::new$",
    "equal": r"^std::boxed::Box::<util::fused_reader::FusedReader<util::equal_reader::EqualReader<R>>>::new$",
    "chunked": r"^std::boxed::Box::<util::fused_reader::FusedReader<.*chunked_transfer::Decoder<R>.*>>::new$|^std::boxed::Box::<util::fused_reader::FusedReader<request::ChunkedBodyReader<R>>>::new$",
}


def run(ctx):
    facts = ctx.facts
    roles.bind(facts)
    f = nr = facts.fn("request::new_request")
    ctx.touch(f)
    req_cons = sorted({bb for g, bb, s in facts.constructions(REQ) if g.id == f.id})
    ctx.require(len(req_cons) == 1, "C03.1: Request construction in new_request")
    rc = req_cons[0]
    # the construction statement and the locals it uses
    cons_stmt = [s for s in f.stmts(rc) if s["s"] == "assign" and s["rhs"]["rv"] == "agg" and s["rhs"].get("adt") == REQ][0]
    r = cons_stmt["rhs"]
    o_len = f.origin(r["ops"][r["fields"].index("body_length")])
    cl_local = [x[1] for x in origin_walk(o_len) if x[0] == "local"]
    ctx.require(cl_local, "C03.1: body_length is not a local")
    CL = cl_local[0]
    # locate the decisive locals
    def bool_local_from(lit_re):
        """multi-def bool local that is set true only under contains/eq_ignore_ascii_case of a literal matching lit_re"""
        for i, l in enumerate(f.locals):
            if l["ty"] != "bool" or i in f.flag_locals():
                continue
            defs = [d for d in f.defs().get(i, []) if d[0] == "assign" and d[3]["rv"] == "use" and isinstance(op_const(d[3]["op"]), bool)]
            if len(defs) < 2 or len(defs) != len([d for d in f.defs().get(i, []) if d[0] in ("assign", "call")]):
                continue
            for d in defs:
                if op_const(d[3]["op"]) is True:
                    for cb, t in f.calls():
                        if t.get("target") is None:
                            continue
                        lits = [c for c in arg_consts(f, t) if isinstance(c, str)]
                        if lits and re.search(lit_re, lits[0]) and call_matches(t, r"contains|eq_ignore_ascii_case"):
                            bs = bool_switch(f, t["target"])
                            if bs and f.dominates(bs[1], d[1], unwind=False):
                                return i
        return None
    UP = bool_local_from(r"^upgrade$")
    EX = bool_local_from(r"^100-continue$")
    if UP is None or EX is None:
        ctx.ob("C03.1", "%s|framing-table" % f.id, "the framing decision is made on the recognised predicates (Connection value lower-cased contains `upgrade`; Expect equals `100-continue` ignoring case)",
               False, "%s:%d" % (f.file, f.line), "the %s predicate of new_request is not the one ClientConnection::next uses for the same header (the two sites would disagree on which request ends the connection / owns the raw stream)" % ("upgrade" if UP is None else "Expect"))
        return finish_c03(ctx, facts, f, f.dominators(False))
    # start: first switch that reads UP after all header lookups (dominates the Request construction)
    dom = f.dominators(False)
    starts = [b for b in dom[rc] if bool_switch(f, b) and any(x == ("local", UP) for x in origin_walk(f.origin(bool_switch(f, b)[0])))]
    ctx.require(starts, "C03.1: branch on the upgrade flag not found")
    start = min(starts, key=lambda b: len(dom[b]))
    box_calls = {bb: t for bb, t in f.calls() if call_matches(t, r"^std::boxed::Box::<.*>::new$")}
    bad = []
    rows = 0
    table = {}
    for up, te, cl, ex in itertools.product([False, True], [False, True], [None, 0, 1, 1023, 1024, 1025, 1 << 40], [False, True]):
        if te and cl is not None:
            continue  # Content-Length is not consulted when Transfer-Encoding is present (C16.5)
        env = {("local", UP): up, ("local", EX): ex, ("local", CL): None if cl is None else ("some", cl)}
        asg = {}
        def atom_of(bb):
            t = f.term(bb)
            if t["t"] != "switch" or op_local(t["discr"]) in f.flag_locals():
                return None
            sw = switch_on_discr(f, bb)
            if sw:
                rv, m, otherwise, rest = sw
                if not rv["pl"]["p"] and rv["pl"]["l"] == CL:
                    v = "None" if cl is None else "Some"
                    mm = dict(m)
                    for r_ in rest:
                        mm[r_] = otherwise
                    asg["cl"] = True
                    return ("cl", {True: mm[v]})
                if rv.get("adt") == "std::ops::ControlFlow":
                    asg["cf"] = True
                    return ("cf", {True: m.get("Continue", otherwise)})
                return None
            bs = bool_switch(f, bb)
            if not bs:
                return None
            o = f.origin(bs[0])
            if o[0] == "call" and o[1].endswith("Option::<T>::is_some") and origin_has_call(o, r"Iterator>?::find"):
                asg["te%d" % bb] = te
                return ("te%d" % bb, {True: bs[1], False: bs[2]})
            try:
                v = predeval.ev(f, o, env)
            except predeval.Unknown as e:
                return None     # not a framing decision (e.g. the pre-read loop's own tests): explore both sides
            asg["g%d" % bb] = bool(v)
            return ("g%d" % bb, {True: bs[1], False: bs[2]})
        class Lazy(dict):
            def __missing__(self, k):
                return asg_vals[k]
        asg_vals = asg
        paths = shared.walk_paths(f, start, atom_of, asg, {rc} | set(f.returns()))
        rows += 1
        ctx.paths += len(paths)
        if up:
            want = "raw"
        elif te:
            want = "chunked"
        elif cl is None or cl == 0:
            want = "empty"
        elif cl <= 1024 and not ex:
            want = "buffer"
        else:
            want = "equal"
        gots = []
        for end, visited in paths:
            if end != rc:
                continue      # error returns of the pre-read loop
            built = [(box_calls[b].get("res_name") or "") for b in visited if b in box_calls]
            readers = [b for b in built if "dyn std::io::Write" not in b and "SequentialWriter" not in b and not re.search(r"Box::<W>::new$", b)]
            got = [k for k, rx in EXPECTED_READER.items() for b in readers if re.search(rx, b)]
            gots.append(got or readers)
        table[(up, te, cl, ex)] = gots
        if not gots or any(g != [want] for g in gots):
            bad.append(((up, te, cl, ex), gots[:2], want))
    ctx.counts["C03.1 rows"] = rows
    ctx.ob("C03.1", "%s|framing-table" % f.id,
           "for every combination of upgrade / Transfer-Encoding / Content-Length class / Expect the body reader is: raw stream for upgrade; chunk decoder when Transfer-Encoding is present; empty for no or zero length; a pre-read buffer for 1..=1024 without Expect; a length-limited reader otherwise",
           not bad, f.loc(start), None if not bad else "mismatches ((upgrade,TE,CL,expect), got, want): %s" % bad[:4])
    # Transfer-Encoding takes precedence: the Content-Length lookup happens only when no Transfer-Encoding header exists
    shared.te_precedence(ctx, "C03.1", "TE-takes-precedence")
    # body_length is the Content-Length consulted above; EqualReader gets the same value
    eqn = [(bb, t) for bb, t in f.calls() if call_matches(t, r"EqualReader::<R>::new$")]
    for bb, t in eqn:
        o = f.origin(t["args"][1])
        ok = any(x == ("local", CL) for x in origin_walk(o))
        ctx.ob("C03.1", "%s|limit-is-content-length" % f.id, "the length-limited reader is limited to the declared Content-Length", ok, f.loc(bb), origin_str(o))
        osrc = f.origin(t["args"][0])
        ctx.ob("C03.1", "%s|limited-reader-wraps-socket" % f.id, "... and reads from this request's share of the connection", any(x[0] == "arg" and "R" == f.local_ty(x[1]) for x in origin_walk(osrc)), f.loc(bb))
    ctx.ob("C03.1", "%s|body_length-reported" % f.id, "body_length() reports that same Content-Length (None when none was used)", True, f.loc(rc), origin_str(o_len), nontrivial=False)

    # ---- C03.2 EqualReader::read
    g = method(facts, T_READ, ER, "read")
    ctx.touch(g)
    reads = [(bb, t) for bb, t in g.calls() if t.get("callee") == "std::io::Read::read" and "reader" in arg_origin_fields(g, t)]
    ctx.require(len(reads) == 1, "C03.2: inner read call of EqualReader::read")
    rb, rt = reads[0]
    # (a) size == 0 => Ok(0) without touching the inner reader
    ok = False
    for bb in sorted(g.live_blocks()):
        bs = bool_switch(g, bb)
        if not bs:
            continue
        o = g.origin(bs[0])
        if o[0] == "binop" and o[1] == "Eq" and "size" in origin_fields(o[2]) and o[3][0] == "const" and o[3][1] == 0:
            outs = shared.eval_from(g, bs[1])
            z = bool(outs) and all(st.read_key((0,))[0] == "agg" and st.read_key((0,))[2] == "Ok" and st.read_key((0,))[3]["0"][1] == 0 for p, st in outs)
            ok = z and rb not in g.reach([bs[1]], unwind=False) and g.dominates(bs[2], rb, unwind=False)
    ctx.ob("C03.2", "%s|eof-at-zero" % g.id, "with nothing remaining, read returns Ok(0) without touching the inner reader (never reads past the declared length)", ok, "%s:%d" % (g.file, g.line))
    # (b) the slice handed to the inner reader is no longer than `size`
    bl = op_local(rt["args"][1])
    src = bl
    d = g.single_def(bl)
    while d and d[0] == "assign" and d[3]["rv"] in ("ref", "use"):
        p = d[3]["pl"] if d[3]["rv"] == "ref" else op_place(d[3]["op"])
        if p is None:
            break
        src = p["l"]
        d = g.single_def(src)
    defs = [x for x in g.defs().get(src, []) if x[0] in ("assign", "call")]
    okb = bool(defs)
    detail = []
    for x in defs:
        if x[0] == "assign":
            o = g.origin(x[3]["op"]) if x[3]["rv"] == "use" else g.origin_place(x[3]["pl"])
            # whole caller buffer: only under `len(buf) < size`
            if any(y == ("arg", 2) for y in origin_walk(o)) and not origin_has_call(o, r"index"):
                fine = False
                for b in g.dominators(False)[x[1]]:
                    bs = bool_switch(g, b)
                    if bs:
                        c = g.origin(bs[0])
                        if c[0] == "binop" and c[1] in ("Lt", "Le") and origin_has_call(c[2], r"::len$") and "size" in origin_fields(c[3]) \
                                and not any(y[0] in ("binop", "call") for y in origin_walk(c[3])) and g.dominates(bs[1], x[1], unwind=False) and bs[1] != bs[2]:
                            fine = True
                detail.append("whole-buffer%s" % ("" if fine else " UNGUARDED"))
                okb = okb and fine
            elif origin_has_call(o, r"index_mut$|index$"):
                idx = [y for y in origin_calls(o) if re.search(r"index(_mut)?$", y[1])][0]
                rng = idx[2][1]
                fine = rng[0] == "agg" and str(rng[1]).endswith("RangeTo") and "size" in origin_fields(rng[2][0]) and rng[2][0][0] in ("field", "deref")
                fine = fine and not any(y[0] == "binop" for y in origin_walk(rng[2][0]))
                detail.append("[..size]%s" % ("" if fine else " WRONG-BOUND"))
                okb = okb and fine
            elif origin_has_call(o, r"::min$"):
                detail.append("min")
            else:
                detail.append("unrecognised: " + origin_str(o))
                okb = False
    ctx.ob("C03.2", "%s|slice-bounded-by-size" % g.id, "the buffer handed to the inner reader is the caller's buffer only when it is shorter than the remaining size, otherwise its prefix of exactly `size` bytes",
           okb, g.loc(rb), ", ".join(detail))
    # (c) size decreases by the returned count
    ws = [(bb, x) for h, bb, kind, x in facts.field_writes(ER, "size") if h.id == g.id and kind == "assign"]
    okc = len(ws) == 1
    if okc:
        o = g.origin(ws[0][1]["rhs"]["op"])
        subs = [y for y in origin_walk(o) if y[0] == "binop" and y[1] in ("Sub", "SubWithOverflow")]
        okc = bool(subs) and "size" in origin_fields(subs[0][2]) and any(z[0] == "downcast" and z[2] == "Ok" for z in origin_walk(subs[0][3]))
    ctx.ob("C03.2", "%s|size-decremented-by-count" % g.id, "the remaining size decreases by exactly the count the inner read returned", okc, "%s:%d" % (g.file, g.line))
    okr = False
    for bb, i, s in g.assigns():
        if s["lhs"] == {"l": 0, "p": []} and s["rhs"].get("variant") == "Ok":
            o = g.origin(s["rhs"]["ops"][0])
            if any(z[0] == "downcast" and z[2] == "Ok" for z in origin_walk(o)):
                okr = True
    ctx.ob("C03.2", "%s|returns-count" % g.id, "read returns the inner reader's count unchanged", okr, "%s:%d" % (g.file, g.line))

    # ---- C03.3 pre-read loop fills exactly Content-Length bytes
    pre = [(bb, t) for bb, t in f.calls() if t.get("callee") == "std::io::Read::read" and f.in_loop(bb)]
    if len(pre) != 1:
        anyread = [bb for bb, t in f.calls() if t.get("callee") == "std::io::Read::read"]
        ctx.ob("C03.3", "%s|loop-until-full" % f.id, "small bodies are read in a loop until Content-Length bytes have arrived", False, f.loc(anyread[0]) if anyread else f.file,
               "the parse-time read of the body is not inside a loop (%d looping reads)" % len(pre))
        return finish_c03(ctx, facts, f, dom)
    pb, pt = pre[0]
    obuf = f.origin(pt["args"][1])
    fe = [y for y in origin_calls(obuf) if re.search(r"vec::from_elem", y[1])]
    ok = bool(fe) and any(x == ("local", CL) for x in origin_walk(fe[0][2][1])) and origin_has_call(obuf, r"index_mut$")
    ctx.ob("C03.3", "%s|buffer-of-content-length" % f.id, "the pre-read buffer has exactly Content-Length bytes and reads go into its unfilled tail", ok, f.loc(pb), origin_str(obuf)[:160])
    hdrs = [b for b in dom[pb] if bool_switch(f, b) and f.in_loop(b)]
    h = max(hdrs, key=lambda b: len(dom[b]))
    o = f.origin(bool_switch(f, h)[0])
    ok = o[0] == "binop" and o[1] in ("Ne", "Lt") and any(x == ("local", CL) for x in origin_walk(o[3])) and o[2][0] == "local"
    ctx.ob("C03.3", "%s|loop-until-full" % f.id, "the loop runs until the filled count equals Content-Length", ok, f.loc(h), origin_str(o))
    return finish_c03(ctx, facts, f, dom)


def finish_c03(ctx, facts, f, dom):
    # ---- C03.4 fused
    insts = [i for i in facts.instances_of(f.id) if not i["generic"] and "SequentialReader<" in i["name"]]
    ctx.require(len(insts) == 1, "C03.4: connection instance of new_request")
    n = 0
    for e in insts[0]["edges"]:
        if e["k"] == "unsize" and e["info"].get("vtable") and norm_dyn(e["info"]["dyn"]) == norm_dyn("dyn std::io::Read + std::marker::Send"):
            ty = e["info"]["vtable"]
            if "util::sequential::SequentialReader<" in ty and not ty.startswith("util::sequential::SequentialReader<"):
                n += 1
                ctx.ob("C03.4", "%s|fused|%s" % (f.id, short(ty)[:50]), "a framed body reader is wrapped in FusedReader (after its end it must stay at end-of-stream; a chunk decoder would otherwise parse following bytes as a chunk header)",
                       ty.startswith("util::fused_reader::FusedReader<"), f.loc(e["bb"]))
    ctx.floor("C03.4 framed readers", n, 2)
    fr = method(facts, T_READ, FR, "read")
    ctx.touch(fr)
    sw = None
    for bb in sorted(fr.live_blocks()):
        s2 = switch_on_discr(fr, bb)
        if s2 and s2[0].get("adt") == "std::option::Option" and "inner" in origin_fields(fr.origin_place(s2[0]["pl"])):
            sw = s2
            break
    ctx.require(sw is not None, "C03.4: FusedReader::read does not match on inner")
    rv, m, otherwise, rest = sw
    nt = m.get("None", otherwise if "None" in rest else None)
    outs = shared.eval_from(fr, nt)
    ok = bool(outs) and all(st.read_key((0,))[0] == "agg" and st.read_key((0,))[2] == "Ok" and st.read_key((0,))[3]["0"][1] == 0 for p, st in outs)
    ctx.ob("C03.4", "%s|empty-stays-eof" % fr.id, "once emptied, the fused reader returns Ok(0) forever", ok, fr.loc(nt))
    clears = [bb for h, bb, kind, x in facts.field_writes(FR, "inner") if h.id == fr.id and kind == "assign" and not fr.blocks[bb]["cleanup"]]
    okz = False
    for bb in sorted(fr.live_blocks()):
        bs = bool_switch(fr, bb)
        if bs:
            o = fr.origin(bs[0])
            if o[0] == "binop" and o[1] == "Eq" and o[3][0] == "const" and o[3][1] == 0 and any(z[0] == "downcast" for z in origin_walk(o[2])):
                r_ = fr.reach([bs[1]], blocked=set(clears), unwind=False)
                okz = bool(clears) and not any(x in r_ for x in fr.returns()) and not (set(clears) & fr.reach([bs[2]], unwind=False))
    ctx.ob("C03.4", "%s|drops-inner-at-eof" % fr.id, "the inner reader is released exactly when a read returned 0", okz, "%s:%d" % (fr.file, fr.line))
    return {}


def bounded_read_sites(ctx, rule, g, bound_desc, is_bound):
    """every buffer handed to an inner Read::read of g is either the caller's whole buffer under `len(buf) < bound`
    or its prefix `[..bound]`"""
    reads = [(bb, t) for bb, t in g.calls() if t.get("callee") == "std::io::Read::read"]
    n = 0
    for k, (rb, rt) in enumerate(reads):
        n += 1
        bl = op_local(rt["args"][1])
        src = bl
        d = g.single_def(bl)
        while d and d[0] == "assign" and d[3]["rv"] in ("ref", "use"):
            p = d[3]["pl"] if d[3]["rv"] == "ref" else op_place(d[3]["op"])
            if p is None:
                break
            src = p["l"]
            d = g.single_def(src)
        defs = [x for x in g.defs().get(src, []) if x[0] in ("assign", "call") and x[1] in g.dominators(False)[rb] or x[0] == "arg"]
        detail = []
        ok = True
        def whole_buffer_guarded(at_bb):
            for b in g.dominators(False)[at_bb]:
                bs = bool_switch(g, b)
                if bs:
                    c = g.origin(bs[0])
                    if c[0] == "binop" and c[1] in ("Lt", "Le") and origin_has_call(c[2], r"::len$") and is_bound(c[3]) and g.dominates(bs[1], at_bb, unwind=False) and bs[1] != bs[2]:
                        return True
            return False
        o = g.origin(rt["args"][1])
        if origin_has_call(o, r"index_mut$|index$"):
            idx = [y for y in origin_calls(o) if re.search(r"index(_mut)?$", y[1])][0]
            rng = idx[2][1]
            fine = rng[0] == "agg" and str(rng[1]).endswith("RangeTo") and is_bound(rng[2][0])
            detail.append("[..%s]%s" % (bound_desc, "" if fine else " WRONG-BOUND"))
            ok = ok and fine
        elif any(y[0] == "arg" for y in origin_walk(o)):
            fine = whole_buffer_guarded(rb)
            detail.append("whole buffer under len < %s%s" % (bound_desc, "" if fine else " UNGUARDED"))
            ok = ok and fine
        else:
            detail.append("unrecognised: " + origin_str(o))
            ok = False
        ctx.ob(rule, "[dep]%s|slice-bounded|%d" % (g.id, k), "the chunk decoder never asks its source for more than the rest of the current chunk", ok, g.loc(rb), ", ".join(detail))
    return n


def run_thorough(ctx):
    """C03.5: the same bounded-slice obligation inside chunked_transfer::Decoder::read (generic MIR of the dependency)"""
    facts = ctx.facts
    g = facts.fn_opt("<chunked_transfer::Decoder<R> as std::io::Read>::read")
    if g is None:
        raise CheckerError("C03.5: generic MIR of chunked_transfer::Decoder::read not available")
    ctx.touch(g)
    # the bound: the local holding the remaining size of the current chunk
    cands = set()
    for bb in sorted(g.live_blocks()):
        bs = bool_switch(g, bb)
        if bs:
            c = g.origin(bs[0])
            if c[0] == "binop" and c[1] in ("Lt", "Ge") and origin_has_call(c[2], r"::len$") and c[3][0] == "local":
                cands.add(c[3][1])
    ctx.require(len(cands) == 1, "C03.5: remaining-chunk-size local of Decoder::read not identified (%s)" % cands)
    L = next(iter(cands))
    n = bounded_read_sites(ctx, "C03.5", g, "remaining_chunk_size", lambda o: o == ("local", L))
    ctx.floor("C03.5 inner reads of Decoder::read", n, 2)
    # everything else the decoder reads from the source is byte-wise (bytes().next())
    others = 0
    for k, h in sorted(facts.fns.items()):
        if not h.rec.get("local") and re.search(r"chunked_transfer::(decoder::)?Decoder::<R>::read_", k):
            for bb, t in h.calls():
                if t.get("callee") in ("std::io::Read::read", "std::io::Read::read_exact", "std::io::Read::read_to_end"):
                    others += 1
                    ctx.ob("C03.5", "[dep]%s|bulk-read" % k, "chunk framing (size lines, CRLF) is read byte by byte, never in bulk", False, h.loc(bb))
    ctx.ob("C03.5", "[dep]decoder-framing-bytewise", "chunk framing (size lines, CRLF) is read byte by byte, never in bulk", others == 0, g.file)
    return {"decoder_reads_checked": n}
