"""C03 — the request body is delimited exactly by the message framing."""
import re, itertools
from core import *  # noqa
from roles import *  # noqa
import roles, shared, symex, predeval, taint, inline, absint
import queue_rules as Q
import framing_rules as FRM

EXPLANATION = (
    "Decision-table extraction and bound rules on MIR: new_request's framing decision is walked for every combination of {upgrade, Transfer-Encoding "
    "present, Content-Length absent/0/1/1024/1025/large, Expect} and the reader type built on each path is compared with DESIGN A.1 (TE takes precedence, "
    "constants 0 and 1024 and their comparison kinds are part of the table); body_length is the same Content-Length; EqualReader never hands its inner "
    "reader a slice longer than its remaining size, returns EOF at 0 without touching it and decrements by the returned count; the pre-read loop fills "
    "exactly Content-Length bytes; every Decoder/EqualReader over the shared reader sits inside a FusedReader, which becomes empty after the first EOF. "
    "Equality of the returned bytes with the sent bytes and chunk-syntax variants are not decided.")
TRUSTED = ["rustc MIR", "chunked_transfer::Decoder decodes the chunked coding and returns 0 at its end", "io::Read contract of the inner readers"]

def run(ctx):
    facts = ctx.facts
    roles.bind(facts)
    FM = FRM.fmodel(facts)
    f = FM.nr
    ctx.touch(f)
    where = "%s:%d" % (f.file, f.line)
    ctx.paths += len(FM.paths)

    # ---- C03.1 framing table
    seen = {a[0][:2] if a[0][0] == "present" else a[0][:1] for r in FM.rows for a in r["atoms"]}
    need = {("present", h) for h in FRM.HEADERS} | {("upgrade",), ("expect100",)}
    ctx.ob("C03.1", "%s|framing-atoms" % FM.nr0.id, "the framing decision consults the Connection, Transfer-Encoding, Content-Length and Expect headers (looked up case-insensitively by name), `upgrade` in the lower-cased Connection value and `100-continue`",
           need <= seen, where, str(sorted(map(str, seen))))
    low = [a[0][1] for r in FM.rows for a in r["atoms"] if a[0][0] == "upgrade"]
    ctx.ob("C03.1", "%s|upgrade-on-lowercased-value" % FM.nr0.id, "`upgrade` is searched in the ASCII-lower-cased Connection value (the same predicate the connection parser uses to end the connection)", bool(low) and all(low), where)
    bad, rows = FRM.table_mismatches(FM, {"reader", "kind"}, merge={"buffer": "exactly-CL", "equal": "exactly-CL"})
    ctx.counts["C03.1 rows"] = rows
    ctx.ob("C03.1", "%s|framing-table" % FM.nr0.id,
           "for every combination of upgrade / Transfer-Encoding / Content-Length class / Expect the body reader is: raw stream for upgrade; chunk decoder when Transfer-Encoding is present (whatever Content-Length says); "
           "empty for no or zero length; exactly Content-Length bytes otherwise (buffered or length-limited)",
           not bad, where, None if not bad else "mismatches (assignment, got, want): %s" % bad[:4])
    bad, rows = FRM.table_mismatches(FM, {"length"})
    ctx.ob("C03.1", "%s|body_length-reported" % FM.nr0.id, "the declared length is reported exactly when a Content-Length decided the framing (not next to Transfer-Encoding)", not bad, where, None if not bad else str(bad[:4]))
    # the limit of the length-limited reader and the reported length are that same Content-Length value
    n_eq = 0
    for r in FM.rows:
        if r["kind"] != "ok" or r["reader"] not in ("equal", "buffer"):
            continue
        p = r["path"]
        lens = [absint.deep(p.state, v) for v in r["length"]]
        ok = bool(lens) and all(v[0] == "some" and FRM.is_cl_value(facts, v[1]) for v in lens)
        if r["reader"] == "equal":
            n_eq += 1
            eq = [e for e in p.calls() if re.search(r"EqualReader::<R>::new$", e[2])]
            lim = absint.deep(p.state, eq[0][3][1]) if eq and len(eq[0][3]) > 1 else None
            ok = ok and lim is not None and lim == lens[0][1]
            src_ok = bool(eq) and eq[0][3][0] == ("init", (FM.src,))
            ctx.ob("C03.1", "%s|limit-is-content-length" % FM.nr0.id, "the length-limited reader is limited to the declared Content-Length and reads from this request's share of the connection", ok and src_ok, where,
                   None if ok and src_ok else "limit=%s length=%s" % (symex.sym_str(lim) if lim else None, [symex.sym_str(x) for x in lens]))
        else:
            bufs = [e for e in p.calls() if re.search(r"vec::from_elem", e[2])]
            okb = bool(bufs) and any(absint.deep(p.state, e[3][1]) == lens[0][1] for e in bufs if len(e[3]) > 1) if lens and lens[0][0] == "some" else False
            ctx.ob("C03.3", "%s|buffer-of-content-length" % FM.nr0.id, "the pre-read buffer has exactly Content-Length bytes", ok and okb, where)
    ctx.floor("C03.1 length-limited paths", n_eq, 1)

    # ---- C03.3 the pre-read fills the whole buffer: a short read is followed by another read
    preread_rules(ctx, "C03.3")

    # ---- C03.4 framed readers are fused
    for kind in ("equal", "chunked"):
        rs = [r for r in FM.rows if r["kind"] == "ok" and r["reader"] == kind]
        ctx.ob("C03.4", "%s|fused|%s" % (FM.nr0.id, kind), "a framed body reader is wrapped in FusedReader (after its end it must stay at end-of-stream; a chunk decoder would otherwise parse following bytes as a chunk header)",
               bool(rs) and all(r["fused"] for r in rs), where)

    # ---- C03.2 EqualReader::read
    equal_reader_rules(ctx, "C03.2")
    # ---- C03.9 a zero-length read (which returns 0 anywhere in the body) does not end a chunked body either: the end-of-body latch of the
    # draining readers (C09.6's evaluation, taken over)
    import drain_rules as DR_
    n9 = DR_.latch_rule(ctx, "C03.9")
    ctx.counts["C03.9 latch-governed readers examined"] = n9
    # ---- C03.8 the reader a request is built over is its own share of the connection, positioned right after its head (otherwise "all remaining
    # bytes" / "the next N bytes" are taken from somewhere else, or from nowhere): the head reader's rule of C09.4, taken over
    import rules_C09, engine
    c2 = engine.Ctx("C03", "quick", facts, 0)
    try:
        rules_C09.run(c2)
        n8 = engine.take_over(ctx, c2.obs, lambda o: o.rule == "C09.4" and o.key.endswith("|request-gets-positioned-reader"), "C03.8")
        ctx.floor("C03.8 obligations on the reader handed to new_request", n8, 1)
    except CheckerError as e:
        raise CheckerError("C03.8 (the head reader's hand-over of the socket reader could not be evaluated): %s" % e)
    return finish_c03(ctx, facts)


def preread_rules(ctx, rule):
    """the parse-time read of a small body: loop until full, end of stream is an error"""
    facts = ctx.facts
    FM = FRM.fmodel(facts)
    f = FM.nr
    where = "%s:%d" % (f.file, f.line)
    READ = r"std::io::Read::read$| as std::io::Read>::read$"
    rows = [r for r in FM.rows if any(re.search(READ, e[2]) or (e[6] == "std::io::Read::read") for e in r["path"].calls())]
    exact = [r for r in FM.rows if any((e[6] or "") == "std::io::Read::read_exact" for e in r["path"].calls())]
    if exact and not rows:
        ctx.ob(rule, "%s|loop-until-full" % FM.nr0.id, "small bodies are read completely at parse time (read_exact)", True, where)
        return
    if not rows:
        ctx.ob(rule, "%s|loop-until-full" % FM.nr0.id, "small bodies are read at parse time", False, where, "no path of new_request reads from the socket")
        return
    bad_short, bad_eof = [], []
    n_short = n_eof = 0
    full_exits = 0
    for r in rows:
        p = r["path"]
        # positions of read events and of the conditions in path order: walk blocks
        order = {}
        for i, b in enumerate(p.blocks):
            order.setdefault(b, []).append(i)
        read_pos = sorted(i for e in p.calls() if (re.search(READ, e[2]) or e[6] == "std::io::Read::read") for i in order.get(e[0], []))
        nth = {}
        for bb, c in p.conds:
            k = nth.get(bb, 0)
            nth[bb] = k + 1
            if not c or c[0] != "scalar":
                continue
            v, val = c[1], c[2]
            neg = False
            while v[0] == "unop" and v[1] == "Not":
                v, neg = v[2], not neg
            occ = order.get(bb, [0])
            pos = occ[k] if k < len(occ) else occ[-1]
            def is_read(x):
                h = absint.head_call(x)
                return h is not None and bool(re.search(READ, h[1]) or (len(h) > 4 and "Read>::read" in (h[4] or "")))
            def is_count(x):
                ls = absint.sum_leaves(x)
                return any(is_read(l) for l in ls) and all(is_read(l) or absint.const_of(l) is not None for l in ls)
            reads_in = is_read
            is_fill_test = False
            if v[0] == "binop" and v[1] in ("Ne", "Eq", "Lt", "Ge") and isinstance(val, bool):
                a, b = v[2], v[3]
                is_fill_test = (FRM.is_cl_value(facts, a) and is_count(b)) or (FRM.is_cl_value(facts, b) and is_count(a))
            if is_fill_test:
                if True:
                    tv = val != neg
                    full = (v[1] in ("Eq", "Ge") and tv) or (v[1] in ("Ne", "Lt") and not tv)
                    if full:
                        full_exits += 1
                    else:
                        n_short += 1
                        later = [x for x in read_pos if x > pos]
                        if not later and p.end[0] != "cut":
                            bad_short.append(ret_str(p))
            elif reads_in(v) and not isinstance(val, bool):
                # switch on the count a read returned
                if val == 0:
                    n_eof += 1
                    if r["kind"] != "err":
                        bad_eof.append(ret_str(p))
            elif v[0] == "binop" and v[1] in ("Eq", "Ne") and isinstance(val, bool) and ((reads_in(v[2]) and absint.const_of(v[3]) == 0) or (reads_in(v[3]) and absint.const_of(v[2]) == 0)):
                tv = val != neg
                if (v[1] == "Eq") == tv:
                    n_eof += 1
                    if r["kind"] != "err":
                        bad_eof.append(ret_str(p))
    ctx.ob(rule, "%s|loop-until-full" % FM.nr0.id, "small bodies are read in a loop until Content-Length bytes have arrived: a read that leaves the buffer short is followed by another read (never by giving up or by delivering what arrived)",
           n_short > 0 and full_exits > 0 and not bad_short, where, None if not bad_short and n_short else ("after a short read: %s" % bad_short[:3] if bad_short else "no path on which the buffer is still short after a read: the read is not repeated"))
    ctx.ob(rule, "%s|eof-in-body-builds-no-request" % FM.nr0.id, "end of stream before the declared small body has arrived is an error: no request is built", n_eof > 0 and not bad_eof, where,
           None if not bad_eof and n_eof else (str(bad_eof[:3]) if bad_eof else "no test of a zero-length read"))


def ret_str(p):
    import queue_rules as Q
    return Q._ret_str(p)


def equal_reader_rules(ctx, rule):
    """EqualReader::read never asks the inner reader for more than `size` bytes, returns Ok(0) at size 0 without touching it, and
    decreases size by the count returned (decided on the abstract paths of the method, whatever its spelling)"""
    facts = ctx.facts
    g0 = method(facts, T_READ, ER, "read")
    g = inline.inlined(facts, g0.id, stop=lambda d: facts.fns[d].rec.get("local") and facts.fns[d].file != g0.file, extern_ok=Q.std_small)
    ctx.touch(g)
    where = "%s:%d" % (g.file, g.line)
    er = facts.adt(ER)["variants"][0]["fields"]
    skey = shared.size_key_of(facts, ER)
    if skey is None:
        sinit = shared.size_init(facts, ER)
        if sinit is not None and len(sinit) == 2:
            return equal_reader_rules_pair(ctx, rule, g0, g, sinit)
    ctx.require(skey is not None, "%s: remaining-size field of EqualReader" % rule)
    SIZE = ("init", (1, "*") + skey)
    BUF = ("init", (2,))
    READ = r"std::io::Read::read$| as std::io::Read>::read$"
    def mentions(v, needle):
        return absint.contains(v, needle)
    # size == 0
    st = symex.Sym(g)
    st.write_key((1, "*") + skey, ("const", 0, "0_usize", None))
    ps = [p for p in absint.explore(g, 0, st) if p.end[0] not in FRM.DEAD]
    ok = bool(ps) and all(p.end[0] == "return" and p.ret() == ("agg", "std::result::Result", "Ok", {"0": ("const", 0, "0_usize", None)}) or
                          (p.end[0] == "return" and p.ret()[0] == "agg" and p.ret()[2] == "Ok" and absint.const_of(p.ret()[3]["0"]) == 0) for p in ps) \
        and not any(re.search(READ, e[2]) or e[6] == "std::io::Read::read" for p in ps for e in p.calls())
    ctx.ob(rule, "%s|eof-at-zero" % g0.id, "with nothing remaining, read returns Ok(0) without touching the inner reader (never reads past the declared length)", ok, where)
    # general case
    ps = [p for p in absint.explore(g, 0, None) if p.end[0] not in FRM.DEAD]
    ctx.paths += len(ps)
    n = 0
    bad_bound, bad_dec, bad_ret = [], [], []
    for p in ps:
        reads = [e for e in p.calls() if re.search(READ, e[2]) or e[6] == "std::io::Read::read"]
        if not reads:
            continue
        n += 1
        if len(reads) != 1:
            bad_bound.append("%d inner reads" % len(reads))
            continue
        e = reads[0]
        buf = e[3][1] if len(e[3]) > 1 else ("unknown",)
        if buf[0] == "ref" and e[5][1] is not None:
            inner = e[5][1]
            while inner[0] == "deref":
                inner = inner[1]
            if inner[0] in ("init", "call", "ref"):
                buf = inner
        bound_ok = False
        how = symex.sym_str(buf)[:120]
        if buf == BUF or buf == ("ref", (2, "*")) or buf == ("init", (2, "*")) or (buf[0] == "ref" and buf[1][0] == 2 and all(x == "*" for x in buf[1][1:])):
            # the caller's whole buffer: only under `len(buf) < size` (or <=)
            for bb, c in p.conds:
                if c and c[0] == "scalar" and isinstance(c[2], bool) and c[1][0] == "binop":
                    op, a, b = c[1][1], c[1][2], c[1][3]
                    la = any(x and x[0] in ("len", "ptrmeta") or (x and x[0] == "call" and x[1].endswith("::len")) or (x and x[0] == "unop" and x[1] == "PtrMetadata") for x in absint.walk_terms(a))
                    lb = any((x and x[0] == "call" and x[1].endswith("::len")) or (x and x[0] == "unop" and x[1] == "PtrMetadata") for x in absint.walk_terms(b))
                    if op in ("Lt", "Le") and la and b == SIZE and c[2]:
                        bound_ok = True
                    if op in ("Gt", "Ge") and a == SIZE and lb and c[2]:
                        bound_ok = True
                    if op in ("Ge", "Gt") and la and b == SIZE and not c[2]:
                        bound_ok = True
                    if op in ("Lt", "Le") and a == SIZE and lb and not c[2] and op == "Le":
                        bound_ok = True
        else:
            d = absint.deep(p.state, buf)
            for x in absint.walk_terms(d):
                if x and x[0] == "call" and re.search(r"index(_mut)?$", x[1]) and len(x[2]) > 1:
                    rng = x[2][1]
                    if rng[0] == "agg" and str(rng[1]).endswith("RangeTo"):
                        end = list(rng[3].values())[0]
                        if end == SIZE:
                            bound_ok = True
                        if end[0] == "call" and re.search(r"::min$", end[1]) and SIZE in [absint.deep(p.state, a) if a[0] != "init" else a for a in end[2]]:
                            bound_ok = True
                        how = "[..%s]" % symex.sym_str(end)[:80]
        if not bound_ok:
            bad_bound.append(how)
        # bookkeeping on the path where the inner read succeeded
        if p.end[0] == "return" and p.ret()[0] == "agg" and p.ret()[2] == "Ok":
            cnt = p.ret()[3]["0"]
            from_read = absint.mentions_call(cnt, e[4])
            if not from_read:
                bad_ret.append(symex.sym_str(cnt)[:80])
            fin = p.state.read_key((1, "*") + skey)
            subs = [x for x in absint.walk_terms(fin) if x and x[0] == "binop" and x[1] in ("Sub", "SubWithOverflow", "SubUnchecked")]
            ok_d = bool(subs) and subs[0][2] == SIZE and absint.mentions_call(subs[0][3], e[4])
            if not ok_d and not (fin[0] == "call" and re.search(r"(saturating|wrapping|checked)_sub$", fin[1]) and False):
                bad_dec.append(symex.sym_str(fin)[:100])
    ctx.floor("%s paths of EqualReader::read that reach the inner reader" % rule, n, 1)
    ctx.ob(rule, "%s|slice-bounded-by-size" % g0.id, "the buffer handed to the inner reader is the caller's buffer only when it is shorter than the remaining size, otherwise a prefix of at most `size` bytes",
           not bad_bound, where, None if not bad_bound else str(bad_bound[:3]))
    ctx.ob(rule, "%s|size-decremented-by-count" % g0.id, "the remaining size decreases by exactly the count the inner read returned", not bad_dec, where, None if not bad_dec else str(bad_dec[:3]))
    ctx.ob(rule, "%s|returns-count" % g0.id, "read returns the inner reader's count unchanged", not bad_ret, where, None if not bad_ret else str(bad_ret[:3]))


def equal_reader_rules_pair(ctx, rule, g0, g, sinit):
    """the same three rules for a reader that keeps the declared length and the number of bytes delivered so far (what remains is their
    difference)"""
    import drain_rules as DR
    facts = ctx.facts
    where = "%s:%d" % (g.file, g.line)
    kd = [k for k, v in sinit.items() if v == DR.SIZE][0]
    kc = [k for k in sinit if k != kd][0]
    READ = r"std::io::Read::read$| as std::io::Read>::read$"
    is_read = lambda e: re.search(READ, e[2]) or e[6] == "std::io::Read::read"
    # nothing remaining
    st = symex.Sym(g)
    st.write_key(kd, ("const", 5, "5_usize", None))
    st.write_key(kc, ("const", 5, "5_usize", None))
    ps = [p for p in absint.explore(g, 0, st) if p.end[0] not in FRM.DEAD]
    ok = bool(ps) and all(p.end[0] == "return" and p.ret()[0] == "agg" and p.ret()[2] == "Ok" and absint.const_of(p.ret()[3]["0"]) == 0 for p in ps) and not any(is_read(e) for p in ps for e in p.calls())
    ctx.ob(rule, "%s|eof-at-zero" % g0.id, "with nothing remaining, read returns Ok(0) without touching the inner reader (never reads past the declared length)", ok, where)
    # general case: remaining = declared - delivered
    REM = {repr(("init", kd)): 1, repr(("init", kc)): -1}
    def lin(x):
        return DR.norm(DR.linear(x))
    ps = [p for p in absint.explore(g, 0, None) if p.end[0] not in FRM.DEAD]
    ctx.paths += len(ps)
    n = 0
    bad_bound, bad_dec, bad_ret = [], [], []
    for p in ps:
        reads = [e for e in p.calls() if is_read(e)]
        if not reads:
            continue
        n += 1
        if len(reads) != 1:
            bad_bound.append("%d inner reads" % len(reads))
            continue
        e = reads[0]
        buf = e[8][1] if len(e) > 8 and e[8] and len(e[8]) > 1 else absint.deep(p.state, e[3][1])
        bs = DR.len_bounds(buf) + DR.cond_bounds(p, buf)
        def within(b, d=0):
            if lin(b) == REM:
                return True
            return bool(b and b[0] == "call" and re.search(r"::min$", b[1]) and d < 3 and any(within(absint.deep(p.state, a), d + 1) for a in b[2]))
        if not any(within(b) for b in bs):
            bad_bound.append(" / ".join(symex.sym_str(b)[:60] for b in bs) or "unbounded")
        if p.end[0] == "return" and p.ret()[0] == "agg" and p.ret()[2] == "Ok":
            cnt = p.ret()[3]["0"]
            if not absint.mentions_call(cnt, e[4]):
                bad_ret.append(symex.sym_str(cnt)[:80])
            fin_c = absint.deep(p.state, p.state.read_key(kc))
            fin_d = absint.deep(p.state, p.state.read_key(kd))
            lc = lin(fin_c)
            grown = lc.get(repr(("init", kc))) == 1 and len(lc) == 2 and any(isinstance(k_, tuple) and k_[0] == "n" and v_ == 1 for k_, v_ in lc.items())
            if not (grown and fin_d == ("init", kd)):
                bad_dec.append("%s / %s" % (symex.sym_str(fin_d)[:40], symex.sym_str(fin_c)[:60]))
    ctx.floor("%s paths of EqualReader::read that reach the inner reader" % rule, n, 1)
    ctx.ob(rule, "%s|slice-bounded-by-size" % g0.id, "the buffer handed to the inner reader is the caller's buffer only when it is shorter than the remaining size, otherwise a prefix of at most `size` bytes",
           not bad_bound, where, None if not bad_bound else str(bad_bound[:3]))
    ctx.ob(rule, "%s|size-decremented-by-count" % g0.id, "the remaining size decreases by exactly the count the inner read returned", not bad_dec, where, None if not bad_dec else str(bad_dec[:3]))
    ctx.ob(rule, "%s|returns-count" % g0.id, "read returns the inner reader's count unchanged", not bad_ret, where, None if not bad_ret else str(bad_ret[:3]))


def read_overrides_rule(ctx, rule):
    """the framed body readers implement the Read trait through `read` alone: every provided method of the trait (read_vectored, read_to_end,
    read_exact ...) then goes through the bounded `read`.  An override of another method is a second way to the inner reader, with its own
    chance to read past the end of the body."""
    facts = ctx.facts
    adts = [ER, FR] + ([shared.chunked_reader_adt(facts)] if shared.chunked_reader_adt(facts) else [])
    n = 0
    for adt in adts:
        for imp in facts.impls_of(T_READ, adt):
            for it in imp["items"]:
                n += 1
                name = it.rsplit("::", 1)[1]
                g = facts.fns.get(it)
                ok = name == "read"
                why = None
                if not ok and g is not None:
                    # accepted when it only delegates to the same method of the inner reader through the type's own bounded path, i.e.
                    # calls nothing that reads except this type's own `read`
                    inner = [call_name(t) for bb, t in g.calls() if (t.get("callee") or "").startswith("std::io::Read::")]
                    own = facts.trait_method(T_READ, adt, "read")
                    ok = bool(inner) and all(c == own for c in inner) if adt == ER else True
                    why = None if ok else "reaches the inner reader through %s without the length limit of `read`" % sorted(set(short(c) for c in inner))
                ctx.ob(rule, "%s|read-impl-item|%s" % (adt, name), "the body reader reaches its inner reader only through its bounded `read` (no other Read method is overridden with a path of its own)", ok,
                       "%s:%d" % (g.file, g.line) if g else adt, why)
    ctx.floor("%s Read impl items of the body readers" % rule, n, 3)


def finish_c03(ctx, facts):
    read_overrides_rule(ctx, "C03.2")
    # ---- C03.6 the framing decision sees every header the client sent
    import rules_C02
    rules_C02.header_loop_rules(ctx, "C03.6")
    # ---- C03.10 ... and sees each value without the optional whitespace around it (`Content-Length: 5 ` declares 5 bytes; with the
    # whitespace left on, the strict number test refuses the message): the header-value rule of C02.9, taken over
    import parser_rules as PRS_
    rules_C02.value_trim_rule(ctx, "C03.10", PRS_.pmodel(facts))
    # ---- C03.4 the fused reader itself
    f = FRM.fmodel(facts).nr0
    n = 0
    for g_, bb_, ty in shared.boxed_body_readers(facts):
        if "util::sequential::SequentialReader<" in ty and not ty.startswith("util::sequential::SequentialReader<"):
            n += 1
            ctx.ob("C03.4", "%s|fused|%s" % (f.id, short(ty)[:50]), "a framed body reader is wrapped in FusedReader (after its end it must stay at end-of-stream; a chunk decoder would otherwise parse following bytes as a chunk header)",
                   ty.startswith("util::fused_reader::FusedReader<"), g_.loc(bb_))
    ctx.floor("C03.4 framed readers", n, 2)
    import fused_rules
    fused_rules.fused_rules(ctx, "C03.4", "C03.4", None)
    return {}


def bounded_read_sites(ctx, rule, g, bound_desc, is_bound):
    """every buffer handed to an inner Read::read of g is either the caller's whole buffer under `len(buf) < bound`
    or its prefix `[..bound]`"""
    reads = [(bb, t) for bb, t in g.calls() if t.get("callee") == "std::io::Read::read"]
    n = 0
    for k, (rb, rt) in enumerate(reads):
        n += 1
        bl = op_local(rt["args"][1])
        src = bl
        d = g.single_def(bl)
        while d and d[0] == "assign" and d[3]["rv"] in ("ref", "use"):
            p = d[3]["pl"] if d[3]["rv"] == "ref" else op_place(d[3]["op"])
            if p is None:
                break
            src = p["l"]
            d = g.single_def(src)
        defs = [x for x in g.defs().get(src, []) if x[0] in ("assign", "call") and x[1] in g.dominators(False)[rb] or x[0] == "arg"]
        detail = []
        ok = True
        def whole_buffer_guarded(at_bb):
            for b in g.dominators(False)[at_bb]:
                bs = bool_switch(g, b)
                if bs:
                    c = g.origin(bs[0])
                    if c[0] == "binop" and c[1] in ("Lt", "Le") and origin_has_call(c[2], r"::len$") and is_bound(c[3]) and g.dominates(bs[1], at_bb, unwind=False) and bs[1] != bs[2]:
                        return True
            return False
        o = g.origin(rt["args"][1])
        if origin_has_call(o, r"index_mut$|index$"):
            idx = [y for y in origin_calls(o) if re.search(r"index(_mut)?$", y[1])][0]
            rng = idx[2][1]
            fine = rng[0] == "agg" and str(rng[1]).endswith("RangeTo") and is_bound(rng[2][0])
            detail.append("[..%s]%s" % (bound_desc, "" if fine else " WRONG-BOUND"))
            ok = ok and fine
        elif any(y[0] == "arg" for y in origin_walk(o)):
            fine = whole_buffer_guarded(rb)
            detail.append("whole buffer under len < %s%s" % (bound_desc, "" if fine else " UNGUARDED"))
            ok = ok and fine
        else:
            detail.append("unrecognised: " + origin_str(o))
            ok = False
        ctx.ob(rule, "[dep]%s|slice-bounded|%d" % (g.id, k), "the chunk decoder never asks its source for more than the rest of the current chunk", ok, g.loc(rb), ", ".join(detail))
    return n


def run_thorough(ctx):
    """C03.5: the same bounded-slice obligation inside chunked_transfer::Decoder::read (generic MIR of the dependency)"""
    facts = ctx.facts
    g = facts.fn_opt("<chunked_transfer::Decoder<R> as std::io::Read>::read")
    if g is None:
        raise CheckerError("C03.5: generic MIR of chunked_transfer::Decoder::read not available")
    ctx.touch(g)
    # the bound: the local holding the remaining size of the current chunk
    cands = set()
    for bb in sorted(g.live_blocks()):
        bs = bool_switch(g, bb)
        if bs:
            c = g.origin(bs[0])
            if c[0] == "binop" and c[1] in ("Lt", "Ge") and origin_has_call(c[2], r"::len$") and c[3][0] == "local":
                cands.add(c[3][1])
    ctx.require(len(cands) == 1, "C03.5: remaining-chunk-size local of Decoder::read not identified (%s)" % cands)
    L = next(iter(cands))
    n = bounded_read_sites(ctx, "C03.5", g, "remaining_chunk_size", lambda o: o == ("local", L))
    ctx.floor("C03.5 inner reads of Decoder::read", n, 2)
    # everything else the decoder reads from the source is byte-wise (bytes().next())
    others = 0
    for k, h in sorted(facts.fns.items()):
        if not h.rec.get("local") and re.search(r"chunked_transfer::(decoder::)?Decoder::<R>::read_", k):
            for bb, t in h.calls():
                if t.get("callee") in ("std::io::Read::read", "std::io::Read::read_exact", "std::io::Read::read_to_end"):
                    others += 1
                    ctx.ob("C03.5", "[dep]%s|bulk-read" % k, "chunk framing (size lines, CRLF) is read byte by byte, never in bulk", False, h.loc(bb))
    ctx.ob("C03.5", "[dep]decoder-framing-bytewise", "chunk framing (size lines, CRLF) is read byte by byte, never in bulk", others == 0, g.file)
    return {"decoder_reads_checked": n}
