"""C17 — unblock releases exactly one receiver; timed / non-blocking receives keep their bounds."""
import re
from core import *  # noqa
from roles import *  # noqa
import roles, shared, symex
import queue_rules as Q

EXPLANATION = (
    "Token accounting and blocking effects decided on MIR: unblock queues exactly one token and notifies; each receive "
    "flavour consumes at most one token per call and then returns empty-handed; tokens are built only by unblock and matched "
    "only by the three pops; elements are never dropped/reordered (FIFO census, move-out); the public mapping of "
    "None/Error/NewRequest per receive call is extracted symbolically; try_recv reaches no blocking primitive and recv_timeout "
    "only the timed wait, whose duration derives from the caller's timeout (mono effect graph + provenance); a wake-up is never "
    "consumed without looking at the queue. Wall-clock bounds are not decided.")
TRUSTED = ["rustc MIR / trait resolution", "std effect table", "std Condvar semantics"]

BLOCKING = {"CV-WAIT", "CV-WAIT-T", "CHAN-RECV", "SLEEP", "JOIN", "BLOCK-IO", "WAIT-TURN-W", "WAIT-TURN-R", "USER-CALLBACK", "DYN-UNKNOWN"}


def run(ctx):
    facts = ctx.facts
    roles.bind(facts)
    unblock = roles.inherent(facts, MQ, "unblock")
    # ---- C17.1
    ctx.touch(unblock)
    pbs = Q.deque_calls(unblock, "push_back")
    ok = len(pbs) == 1 and not unblock.in_loop(pbs[0])
    ctx.ob("C17.1", "%s|one-token" % unblock.id, "unblock queues exactly one token (one push_back, not in a loop)", ok, "%s:%d" % (unblock.file, unblock.line))
    if pbs:
        o = unblock.origin(unblock.term(pbs[0])["args"][1])
        ctx.ob("C17.1", "%s|token-is-Unblock" % unblock.id, "what unblock queues is the Unblock token", o[0] == "agg" and o[1] == CTRL and o[4] == "Unblock", unblock.loc(pbs[0]), origin_str(o))
    nots = Q.notify_calls(unblock)
    reach = unblock.reach([unblock.normal_target(pbs[0])] if pbs else [0], blocked=set(nots), unwind=False)
    ctx.ob("C17.1", "%s|notifies" % unblock.id, "unblock wakes a waiting receiver", bool(nots) and not any(r in reach for r in unblock.returns()), "%s:%d" % (unblock.file, unblock.line))
    srv_unblock = facts.fn("Server::unblock")
    calls = srv_unblock.call_blocks(lambda t: call_is(t, unblock.id))
    ctx.ob("C17.1", "Server::unblock|delegates-once", "Server::unblock calls the queue's unblock exactly once", len(calls) == 1 and not srv_unblock.in_loop(calls[0]), "%s:%d" % (srv_unblock.file, srv_unblock.line))

    # ---- C17.2 one token per call; tokens built only by unblock
    n = 0
    for f in Q.mq_fns(facts):
        pops = Q.deque_calls(f, "pop_front")
        for i, pb in enumerate(pops):
            cs = Q.control_switch(f, pb)
            ctx.require(cs is not None, "C17.2: match on popped Control not found in %s" % f.id)
            sw, m, none_t = cs
            ub = m.get("Unblock")
            ctx.require(ub is not None, "C17.2: no Unblock arm in %s" % f.id)
            n += 1
            ctx.touch(f)
            reach = f.reach([ub], unwind=False)
            waits = set(Q.wait_calls(f))
            ok = not (reach & set(pops)) and not (reach & waits) and any(r in reach for r in f.returns())
            ctx.paths += 1
            ctx.ob("C17.2", "%s|pop%d|token-ends-call" % (f.id, i), "after taking an unblock token the receive call returns without popping or waiting again", ok, f.loc(pb))
            # and what it returns is None
            outs = shared.eval_from(f, ub)
            okn = bool(outs) and all(st.read_key((0,)) == ("none",) for p, st in outs)
            ctx.ob("C17.2", "%s|pop%d|token-returns-none" % (f.id, i), "a token is reported as `None`, never as an element", okn, f.loc(ub))
    ctx.floor("C17.2 pop sites", n, 3)
    for f, bb, s in facts.constructions(CTRL, "Unblock"):
        ctx.ob("C17.2", "token-construct|%s" % f.id, "unblock tokens are created only by unblock()", f.id == unblock.id, f.loc(bb))
    for f, bb, s in facts.constructions(CTRL, "Elem"):
        ctx.ob("C17.2", "elem-construct|%s" % f.id, "elements are queued only by push()", f.id == roles.inherent(facts, MQ, "push").id, f.loc(bb))

    # ---- C17.3
    n = Q.rule_no_loss(ctx, "C17.3")
    n += Q.rule_fifo_census(ctx, "C17.3")
    ctx.floor("C17.3 sites", n, 6)

    # ---- C17.4 public mapping
    expect_none = {"Server::recv": "err", "Server::recv_timeout": "ok-none", "Server::try_recv": "ok-none"}
    pops_of = {"Server::recv": "pop", "Server::recv_timeout": "pop_timeout", "Server::try_recv": "try_pop"}
    for name, want in expect_none.items():
        f = facts.fn(name)
        ctx.touch(f)
        mqf = roles.inherent(facts, MQ, pops_of[name])
        cb = f.call_blocks(lambda t: call_is(t, mqf.id))
        ctx.ob("C17.4", "%s|uses-%s" % (name, pops_of[name]), "%s is built on the queue's %s" % (name, pops_of[name]), len(cb) == 1, "%s:%d" % (f.file, f.line))
        if not cb:
            continue
        dl = f.term(cb[0])["dest"]["l"]
        none_t = err_t = None
        for bb in sorted(f.live_blocks()):
            sw = switch_on_discr(f, bb)
            if not sw or sw[0]["pl"]["l"] != dl:
                continue
            rv, m, otherwise, rest = sw
            if rv.get("adt") == "std::option::Option" and not rv["pl"]["p"] and none_t is None:
                none_t = m.get("None", otherwise if "None" in rest else None)
            if rv.get("adt") == "Message" and err_t is None:
                err_t = m.get("Error", otherwise if "Error" in rest else None)
        ctx.require(none_t is not None and err_t is not None, "C17.4: match arms not found in %s" % name)
        outs = shared.eval_from(f, none_t)
        vals = [st.read_key((0,)) for p, st in outs]
        if want == "err":
            ok = bool(vals) and all(v[0] == "agg" and v[2] == "Err" for v in vals)
        else:
            ok = bool(vals) and all(v[0] == "agg" and v[2] == "Ok" and v[3].get("0") == ("none",) for v in vals)
        ctx.ob("C17.4", "%s|none-mapping" % name, "an unblocked / empty-handed pop is reported as %s" % ("an error" if want == "err" else "Ok(None)"), ok, f.loc(none_t),
               None if ok else str([symex.sym_str(v) for v in vals]))
        outs = shared.eval_from(f, err_t)
        vals = [st.read_key((0,)) for p, st in outs]
        ok = bool(vals) and all(v[0] == "agg" and v[2] == "Err" and "Error" in str(v[3].get("0")) for v in vals)
        ctx.ob("C17.4", "%s|error-mapping" % name, "a queued accept error is returned as Err(that error)", ok, f.loc(err_t))

    # ---- C17.5 blocking effects
    for name, forbidden in (("Server::try_recv", BLOCKING), ("Server::recv_timeout", BLOCKING - {"CV-WAIT-T"}), ("Server::unblock", BLOCKING)):
        f = facts.fn(name)
        inst = facts.mono_instance(f.id)
        eff = facts.effects()[inst["id"]]
        bad = eff & forbidden
        ctx.ob("C17.5", "%s|no-blocking" % name, "%s reaches no unbounded blocking primitive (only the O(1) queue lock%s)" % (name, " and the timed condvar wait" if "timeout" in name else ""),
               not bad, "%s:%d" % (f.file, f.line), None if not bad else "%s via %s" % (sorted(bad), " -> ".join(facts.effect_witness(inst["id"], sorted(bad)[0])[:8])))
    inst = facts.mono_instance("Server::recv_timeout")
    ctx.ob("C17.5", "Server::recv_timeout|uses-timed-wait", "recv_timeout does wait (timed) for a request", "CV-WAIT-T" in facts.effects()[inst["id"]], "Server::recv_timeout")
    pt = roles.inherent(facts, MQ, "pop_timeout")
    for bb in Q.wait_calls(pt):
        t = pt.term(bb)
        o = pt.origin(t["args"][2]) if len(t["args"]) > 2 else ("unknown",)
        ok = call_is(t, CV_WAIT_T) and any(x[0] == "arg" and x[1] == 2 for x in origin_walk(o))
        ctx.ob("C17.5", "%s|wait-bounded-by-timeout" % pt.id, "the timed wait's duration derives from the caller's timeout", ok, pt.loc(bb), origin_str(o))
    # the time subtracted from the remaining budget after a wake-up is the time spent in *that* wait
    nows = [bb for bb, t in pt.calls() if call_matches(t, r"^std::time::Instant::now$")]
    els = [(bb, t) for bb, t in pt.calls() if call_matches(t, r"^std::time::Instant::elapsed$")]
    if els:
        okn = bool(nows) and all(pt.in_loop(b) for b in nows) and all(any(x[0] == "call" and x[3] in nows for x in origin_walk(pt.origin(t["args"][0]))) for bb, t in els)
        ctx.ob("C17.5", "%s|elapsed-measured-per-wait" % pt.id, "the elapsed time charged against the timeout is measured from just before each wait (not accumulated twice)", okn,
               pt.loc(els[0][0]), None if okn else "Instant::now() is taken outside the wait loop while elapsed() is subtracted on every wake-up: after two wake-ups the budget is exhausted early")
    srt = facts.fn("Server::recv_timeout")
    for bb in srt.call_blocks(lambda t: call_is(t, pt.id)):
        o = srt.origin(srt.term(bb)["args"][1])
        ctx.ob("C17.5", "Server::recv_timeout|forwards-timeout", "recv_timeout hands its own timeout to the queue", o == ("arg", 2), srt.loc(bb), origin_str(o))

    # ---- C17.6
    n = Q.rule_wait_protocol(ctx, "C17.6")
    ctx.floor("C17.6 wait sites", n, 2)
    return {}
