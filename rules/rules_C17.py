"""C17 — unblock releases exactly one receiver; timed / non-blocking receives keep their bounds."""
import re
from core import *  # noqa
from roles import *  # noqa
import roles, shared, symex, inline, absint
import queue_rules as Q
import server_rules as S

EXPLANATION = (
    "Token accounting and blocking effects decided on MIR, independent of the entry representation and of helper structure: the "
    "token producer queues exactly one constant entry per call and notifies, Server::unblock calls it exactly once and nothing "
    "else does; a token can be told from an element by its variant; each consumer that takes a token returns nothing without "
    "popping or waiting again (variant propagation from `the popped entry is the token`); elements are never dropped/reordered "
    "(FIFO census, element returned); the public mapping of None/Error/NewRequest per receive call is decided by variant propagation; "
    "try_recv reaches no blocking primitive and recv_timeout only the timed wait, whose duration derives from the caller's timeout "
    "(mono effect graph + provenance); a wake-up is never consumed without looking at the queue. Wall-clock bounds are not decided.")
TRUSTED = ["rustc MIR / trait resolution", "std effect table", "std Condvar semantics", "MIR of the small std combinators as shipped with the toolchain"]

BLOCKING = {"CV-WAIT", "CV-WAIT-T", "CHAN-RECV", "SLEEP", "JOIN", "BLOCK-IO", "WAIT-TURN-W", "WAIT-TURN-R", "USER-CALLBACK", "DYN-UNKNOWN"}


def run(ctx):
    facts = ctx.facts
    roles.bind(facts)
    m = Q.model(facts)
    # ---- C17.1 one token per unblock, with a wake-up
    n = Q.rule_one_entry_per_call(ctx, "C17.1", "token")
    ctx.floor("C17.1 token producers", n, 1)
    for rid in m.producer_roots("token"):
        f = m.inl[rid]
        pbs = Q.deque_calls(f, "push_back")
        nots = Q.notify_calls(f)
        reach = f.reach([f.normal_target(pbs[0])] if pbs else [0], blocked=set(nots), unwind=False)
        ctx.ob("C17.1", "%s|notifies" % rid, "queuing a token wakes a waiting receiver", bool(nots) and not any(r in reach for r in f.returns()), "%s:%d" % (f.file, f.line))
    S.rule_unblock_delegates(ctx, "C17.1")

    # ---- C17.2 one token per call; tokens distinguishable; a token ends the call with nothing
    n = Q.rule_tokens(ctx, "C17.2")
    ctx.floor("C17.2 pop sites", n, 3)
    Q.rule_one_entry_per_call(ctx, "C17.2", "elem")

    # ---- C17.3
    n = Q.rule_no_loss(ctx, "C17.3")
    n += Q.rule_fifo_census(ctx, "C17.3")
    ctx.floor("C17.3 sites", n, 6)

    # ---- C17.4 public mapping
    n = S.rule_recv_mapping(ctx, "C17.4", which=("none", "error"))
    ctx.floor("C17.4 mappings", n, 6)
    # which consumer each receive flavour is built on is decided by its blocking effects (C17.5), not by a name

    # ---- C17.5 blocking effects
    for name, forbidden in (("Server::try_recv", BLOCKING), ("Server::recv_timeout", BLOCKING - {"CV-WAIT-T"}), ("Server::unblock", BLOCKING)):
        f = facts.fn(name)
        inst = facts.mono_instance(f.id)
        eff = facts.effects()[inst["id"]]
        bad = eff & forbidden
        ctx.ob("C17.5", "%s|no-blocking" % name, "%s reaches no unbounded blocking primitive (only the O(1) queue lock%s)" % (name, " and the timed condvar wait" if "timeout" in name else ""),
               not bad, "%s:%d" % (f.file, f.line), None if not bad else "%s via %s" % (sorted(bad), " -> ".join(facts.effect_witness(inst["id"], sorted(bad)[0])[:8])))
    inst = facts.mono_instance("Server::recv_timeout")
    ctx.ob("C17.5", "Server::recv_timeout|uses-timed-wait", "recv_timeout does wait (timed) for a request", "CV-WAIT-T" in facts.effects()[inst["id"]], "Server::recv_timeout")
    inst = facts.mono_instance("Server::recv")
    ctx.ob("C17.5", "Server::recv|waits", "recv waits for a request", "CV-WAIT" in facts.effects()[inst["id"]], "Server::recv")
    timed = 0
    for rid in m.consumers:
        pt = m.inl[rid]
        for bb in Q.wait_calls(pt):
            t = pt.term(bb)
            if not call_is(t, CV_WAIT_T):
                continue
            timed += 1
            o = pt.origin(t["args"][2]) if len(t["args"]) > 2 else ("unknown",)
            ok = any(x[0] == "arg" and x[1] >= 2 for x in origin_walk(o))
            ctx.ob("C17.5", "%s|wait-bounded-by-timeout" % rid, "the timed wait's duration derives from the caller's timeout", ok, pt.loc(bb), origin_str(o))
        # the time subtracted from the remaining budget after a wake-up is the time spent in *that* wait
        nows = [bb for bb, t in pt.calls() if call_matches(t, r"^std::time::Instant::now$")]
        els = [(bb, t) for bb, t in pt.calls() if call_matches(t, r"^std::time::Instant::elapsed$")]
        if els:
            okn = bool(nows) and all(pt.in_loop(b) for b in nows) and all(any(x[0] == "call" and x[3] in nows for x in origin_walk(pt.origin(t["args"][0]))) for bb, t in els)
            ctx.ob("C17.5", "%s|elapsed-measured-per-wait" % rid, "the elapsed time charged against the timeout is measured from just before each wait (not accumulated twice)", okn,
                   pt.loc(els[0][0]), None if okn else "Instant::now() is taken outside the wait loop while elapsed() is subtracted on every wake-up: after two wake-ups the budget is exhausted early")
    # the total time spent is bounded: after every further wake-up that was not a timeout, the decision whether to wait again takes the time
    # spent in ALL earlier waits of this call into account (an accumulated budget charged with each wait's own duration, or a start /
    # deadline instant taken once before the first wait).  A budget recomputed from the last wait alone lets a receiver whose wake-ups
    # keep being stolen stay blocked for ever.
    import absint
    TIME = r"^std::time::Instant::(now|elapsed|duration_since|checked_duration_since|saturating_duration_since)$"
    for rid in m.consumers:
        pt = m.inl[rid]
        tw = {bb for bb in Q.wait_calls(pt) if call_is(pt.term(bb), CV_WAIT_T)}
        if not tw:
            continue
        bad, n2 = [], 0
        for p in Q._paths(pt):
            evs = p.events
            widx = [k for k, e in enumerate(evs) if e[1] == "call" and e[0] in tw]
            if len(widx) < 2:
                continue
            last = evs[widx[-1]][4]
            # only paths on which the last wait was a notification, not a timeout
            tout = None
            for bb_, c in p.conds:
                if c and c[0] == "scalar" and isinstance(c[2], bool):
                    v, val = c[1], c[2]
                    while v and v[0] == "unop" and v[1] == "Not":
                        v, val = v[2], not val
                    if v and v[0] == "call" and re.search(r"WaitTimeoutResult::timed_out$", v[1]) and absint.mentions_call(v, last):
                        tout = val
            if tout is not False:
                continue
            n2 += 1
            times = [(k, e) for k, e in enumerate(evs) if e[1] == "call" and re.search(TIME, e[2])]
            before_first = [e for k, e in times if k < widx[0]]
            after = lambda i: [e for k, e in times if k > widx[i] and (i + 1 == len(widx) or k < widx[i + 1])]
            ok = False
            for bb_, c in p.conds:
                # (a comparison, or the outcome of a checked subtraction: `remaining.checked_sub(spent)` being None is the decision)
                if not (c and (c[0] == "scalar" or (c[0] == "variant" and len(c) > 3))):
                    continue
                v = c[1] if c[0] == "scalar" else c[3]
                if not any(absint.mentions_call(v, e[4]) for e in after(len(widx) - 1)) and not (before_first and any(absint.mentions_call(v, e[4]) for k, e in times if k > widx[-1])):
                    continue        # not a decision taken after the last wake-up
                whole = all(any(absint.mentions_call(v, e[4]) for e in after(i)) for i in range(len(widx)))
                anchored = any(absint.mentions_call(v, e[4]) for e in before_first)
                if whole or anchored:
                    ok = True
            if not ok:
                bad.append("after wake-up #%d the decision to wait again depends at most on the time spent in the last wait" % len(widx))
        ctx.paths += n2
        ctx.ob("C17.5", "%s|budget-charged-with-every-wait" % rid,
               "the time spent in every earlier wait of the same call counts against the timeout when the receiver decides whether to wait again (total blocking time is bounded)",
               n2 > 0 and not bad, "%s:%d" % (pt.file, pt.line), None if not bad else bad[0])
    ctx.floor("C17.5 timed waits in the queue's consumers", timed, 1)
    srt = S.server_fn(facts, "recv_timeout")
    for bb in [b for b, t in srt.calls() if call_name(t) in m.consumers]:
        t = srt.term(bb)
        os_ = [srt.origin(a) for a in t["args"][1:]]
        ctx.ob("C17.5", "Server::recv_timeout|forwards-timeout", "recv_timeout hands its own timeout to the queue", any(o == ("arg", 2) for o in os_), srt.loc(bb), str([origin_str(o) for o in os_]))

    # ---- C17.6
    n = Q.rule_wait_protocol(ctx, "C17.6")
    ctx.floor("C17.6 wait sites", n, 2)
    return {}
