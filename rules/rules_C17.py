"""C17 — unblock releases exactly one receiver; timed / non-blocking receives keep their bounds."""
import re
from core import *  # noqa
from roles import *  # noqa
import roles, shared, symex, inline, absint
import queue_rules as Q
import server_rules as S

EXPLANATION = (
    "Token accounting and blocking effects decided on MIR, independent of the entry representation and of helper structure: the "
    "token producer queues exactly one constant entry per call and notifies, Server::unblock calls it exactly once and nothing "
    "else does; a token can be told from an element by its variant; each consumer that takes a token returns nothing without "
    "popping or waiting again (variant propagation from `the popped entry is the token`); elements are never dropped/reordered "
    "(FIFO census, element returned); the public mapping of None/Error/NewRequest per receive call is decided by variant propagation; "
    "try_recv reaches no blocking primitive and recv_timeout only the timed wait, whose duration derives from the caller's timeout "
    "(mono effect graph + provenance); a wake-up is never consumed without looking at the queue. Wall-clock bounds are not decided.")
TRUSTED = ["rustc MIR / trait resolution", "std effect table", "std Condvar semantics", "MIR of the small std combinators as shipped with the toolchain"]

BLOCKING = {"CV-WAIT", "CV-WAIT-T", "CHAN-RECV", "SLEEP", "JOIN", "BLOCK-IO", "WAIT-TURN-W", "WAIT-TURN-R", "USER-CALLBACK", "DYN-UNKNOWN"}


def run(ctx):
    facts = ctx.facts
    roles.bind(facts)
    m = Q.model(facts)
    # ---- C17.1 one token per unblock, with a wake-up
    n = Q.rule_one_entry_per_call(ctx, "C17.1", "token")
    ctx.floor("C17.1 token producers", n, 1)
    for rid in m.producer_roots("token"):
        f = m.inl[rid]
        pbs = Q.deque_calls(f, "push_back")
        nots = Q.notify_calls(f)
        reach = f.reach([f.normal_target(pbs[0])] if pbs else [0], blocked=set(nots), unwind=False)
        ctx.ob("C17.1", "%s|notifies" % rid, "queuing a token wakes a waiting receiver", bool(nots) and not any(r in reach for r in f.returns()), "%s:%d" % (f.file, f.line))
    S.rule_unblock_delegates(ctx, "C17.1")

    # ---- C17.2 one token per call; tokens distinguishable; a token ends the call with nothing
    n = Q.rule_tokens(ctx, "C17.2")
    ctx.floor("C17.2 pop sites", n, 3)
    Q.rule_one_entry_per_call(ctx, "C17.2", "elem")

    # ---- C17.3
    n = Q.rule_no_loss(ctx, "C17.3")
    n += Q.rule_fifo_census(ctx, "C17.3")
    ctx.floor("C17.3 sites", n, 6)

    # ---- C17.4 public mapping
    n = S.rule_recv_mapping(ctx, "C17.4", which=("none", "error"))
    ctx.floor("C17.4 mappings", n, 6)
    # which consumer each receive flavour is built on is decided by its blocking effects (C17.5), not by a name

    # ---- C17.5 blocking effects
    for name, forbidden in (("Server::try_recv", BLOCKING), ("Server::recv_timeout", BLOCKING - {"CV-WAIT-T"}), ("Server::unblock", BLOCKING)):
        f = facts.fn(name)
        inst = facts.mono_instance(f.id)
        eff = facts.effects()[inst["id"]]
        bad = eff & forbidden
        ctx.ob("C17.5", "%s|no-blocking" % name, "%s reaches no unbounded blocking primitive (only the O(1) queue lock%s)" % (name, " and the timed condvar wait" if "timeout" in name else ""),
               not bad, "%s:%d" % (f.file, f.line), None if not bad else "%s via %s" % (sorted(bad), " -> ".join(facts.effect_witness(inst["id"], sorted(bad)[0])[:8])))
    inst = facts.mono_instance("Server::recv_timeout")
    ctx.ob("C17.5", "Server::recv_timeout|uses-timed-wait", "recv_timeout does wait (timed) for a request", "CV-WAIT-T" in facts.effects()[inst["id"]], "Server::recv_timeout")
    inst = facts.mono_instance("Server::recv")
    ctx.ob("C17.5", "Server::recv|waits", "recv waits for a request", "CV-WAIT" in facts.effects()[inst["id"]], "Server::recv")
    timed = 0
    for rid in m.consumers:
        pt = m.inl[rid]
        for bb in Q.wait_calls(pt):
            t = pt.term(bb)
            if not call_is(t, CV_WAIT_T):
                continue
            timed += 1
            o = pt.origin(t["args"][2]) if len(t["args"]) > 2 else ("unknown",)
            ok = any(x[0] == "arg" and x[1] >= 2 for x in origin_walk(o))
            ctx.ob("C17.5", "%s|wait-bounded-by-timeout" % rid, "the timed wait's duration derives from the caller's timeout", ok, pt.loc(bb), origin_str(o))
        # the time subtracted from the remaining budget after a wake-up is the time spent in *that* wait
        nows = [bb for bb, t in pt.calls() if call_matches(t, r"^std::time::Instant::now$")]
        els = [(bb, t) for bb, t in pt.calls() if call_matches(t, r"^std::time::Instant::elapsed$")]
        if els:
            okn = bool(nows) and all(pt.in_loop(b) for b in nows) and all(any(x[0] == "call" and x[3] in nows for x in origin_walk(pt.origin(t["args"][0]))) for bb, t in els)
            ctx.ob("C17.5", "%s|elapsed-measured-per-wait" % rid, "the elapsed time charged against the timeout is measured from just before each wait (not accumulated twice)", okn,
                   pt.loc(els[0][0]), None if okn else "Instant::now() is taken outside the wait loop while elapsed() is subtracted on every wake-up: after two wake-ups the budget is exhausted early")
    ctx.floor("C17.5 timed waits in the queue's consumers", timed, 1)
    srt = S.server_fn(facts, "recv_timeout")
    for bb in [b for b, t in srt.calls() if call_name(t) in m.consumers]:
        t = srt.term(bb)
        os_ = [srt.origin(a) for a in t["args"][1:]]
        ctx.ob("C17.5", "Server::recv_timeout|forwards-timeout", "recv_timeout hands its own timeout to the queue", any(o == ("arg", 2) for o in os_), srt.loc(bb), str([origin_str(o) for o in os_]))

    # ---- C17.6
    n = Q.rule_wait_protocol(ctx, "C17.6")
    ctx.floor("C17.6 wait sites", n, 2)
    return {}
