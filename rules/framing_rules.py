"""The framing decision of new_request, extracted as a table from its abstract paths.

new_request is analysed with the helpers of its own file and the small std combinators spliced in, and explored with
path-sensitive variant propagation (absint).  Every path carries the conditions it assumed; they are turned into *atoms*:

    present(H)           a header named H (compared with HeaderField::equiv) was found       (H in Connection, Transfer-Encoding,
                                                                                               Content-Length, Expect)
    upgrade              lower-cased Connection value contains "upgrade"
    expect100            Expect value equals "100-continue" ignoring ASCII case
    cl_digits / cl_parse the Content-Length text consists of ASCII digits / converts with the std integer parser
    cl_cmp(op, K)        a comparison of the converted Content-Length with the constant K

and every path that builds a Request carries an *outcome*: which kind of body reader it built (raw / empty / buffer /
equal / chunked, fused or not), whether the socket reader was given back, what it stored as declared length and as
"must send 100 Continue", and how many times it read from the socket before returning.  The rules of C03 / C09 / C11 / C16 /
C18 / C10.6 compare that table with the reference table of the property (DESIGN A.1).  How the function spells its decision
(nested ifs, a helper that returns an enum, a struct of parsed headers, named constants ...) does not matter.
"""
import re, itertools
from core import *  # noqa
from roles import *  # noqa
import roles, shared, symex, inline, absint
import queue_rules as Q

HEADERS = ("Connection", "Transfer-Encoding", "Content-Length", "Expect")
DEAD = ("diverge", "resume", "terminate", "unreachable")
INT_PARSE = re.compile(r"<impl std::str::FromStr for (usize|u64|u32|u128|isize|i64)>::from_str$|<impl (usize|u64|u32)>::from_str_radix$|core::str::<impl str>::parse(::<(usize|u64|u32|u128|isize|i64)>)?(?=\s|$)")
CMPOPS = {"Eq": lambda a, b: a == b, "Ne": lambda a, b: a != b, "Lt": lambda a, b: a < b, "Le": lambda a, b: a <= b, "Gt": lambda a, b: a > b, "Ge": lambda a, b: a >= b}


def closure_lits(facts, cdef, depth=0):
    g = facts.fns.get(cdef)
    out = []
    if g is not None and depth < 3:
        for bb, t in g.calls():
            out += [c for c in arg_consts(g, t) if isinstance(c, str)]
    return out


def term_lits(facts, v):
    """string literals mentioned by a term, including those inside the bodies of closures it passes along"""
    out = list(absint.str_consts(v))
    for x in absint.walk_terms(v):
        if x and x[0] == "closure":
            out += closure_lits(facts, x[1])
    return out


def closure_calls_only(facts, v, rx):
    """does the term pass a closure (or fn item) whose only call is one matching rx?"""
    for x in absint.walk_terms(v):
        if x and x[0] == "closure":
            g = facts.fns.get(x[1])
            if g is not None:
                cs = [call_name(t) for bb, t in g.calls()]
                # ... and what the closure answers is that call's answer: no other test is or-ed / and-ed with it (the body has no branch)
                straight = not any(t["t"] == "switch" for t in (g.term(b) for b in range(g.n) if not g.blocks[b]["cleanup"]))
                o = g.origin_place({"l": 0, "p": []})
                direct = o[0] == "call" and re.search(rx, o[1]) is not None
                if cs and all(re.search(rx, c) for c in cs) and straight and direct:
                    return True
        if x and x[0] == "const" and len(x) > 3 and x[3] and re.search(rx, x[3]):
            return True
    return False


def is_cl_value(facts, v):
    """is the term derived from the conversion of a Content-Length value?"""
    x = absint.head_call(v)
    return x is not None and bool(INT_PARSE.search(x[1]) or (len(x) > 4 and INT_PARSE.search(x[4] or "")))


def term_at(v, path):
    """the sub-term of an aggregate term at a field path (through nested struct aggregates)"""
    for seg in path:
        if v and v[0] == "agg" and isinstance(v[3], dict) and seg in v[3]:
            v = v[3][seg]
        else:
            return ("unknown",)
    return v


class FramingModel:
    def __init__(self, facts):
        self.facts = facts
        cons = sorted({g.id for g, bb, s in facts.constructions(REQ) if not g.id.startswith("test")})
        local_cons = [c for c in cons if "::test" not in c]
        self.nr0 = facts.fn_opt("request::new_request")
        if self.nr0 is None:
            raise CheckerError("framing rules: request::new_request not found")
        same = lambda d: facts.fns[d].rec.get("local") and facts.fns[d].file == self.nr0.file and facts.fns[d].rec.get("impl_self_adt") != REQ
        self.same = same
        self.nr = inline.inlined(facts, self.nr0.id, stop=lambda d: facts.fns[d].rec.get("local") and not same(d), extern_ok=Q.std_small)
        f = self.nr
        # the socket reader parameter: the parameter of the type-parameter type that implements Read (`R`)
        # (a type parameter of the function: named, or written `impl Read + ..` / `impl Write + ..` in argument position)
        def tparam(i):
            ty = f.locals[i]["ty"]
            return ty.startswith("impl ") or (re.match(r"^[A-Z]\w*$", ty) is not None and ty not in facts.adts)
        cand = [i for i in range(1, f.argc + 1) if tparam(i)]
        self.src = [i for i in cand if f.locals[i]["ty"] == "R" or re.match(r"^impl (.*\b)?Read\b", f.locals[i]["ty"])]
        self.wr = [i for i in cand if f.locals[i]["ty"] == "W" or re.match(r"^impl (.*\b)?Write\b", f.locals[i]["ty"])]
        if len(self.src) != 1 and len(cand) == 2:
            self.src, self.wr = cand[:1], cand[1:]
        if len(self.src) != 1:
            raise CheckerError("framing rules: socket reader parameter of new_request not identified")
        self.src = self.src[0]
        self.max_visits = 4
        self.paths = [p for p in absint.Explorer(f, max_paths=200000, max_visits=self.max_visits).run(0, None) if p.end[0] not in DEAD]
        self.scan_headers = set()
        self.rows = [self._row(p) for p in self.paths]
        self.scan_style = bool(self.scan_headers)

    # -- atoms ---------------------------------------------------------------------------------
    def atom(self, c):
        facts = self.facts
        if not c:
            return None
        hl = shared.header_lookup_atom(facts, c)
        if hl is not None and hl[0] in HEADERS:
            if c[0] == "scalar":
                v0 = c[1]
                while v0 and v0[0] == "unop" and v0[1] == "Not":
                    v0 = v0[2]
                if v0 and v0[0] == "call" and re.search(r"HeaderField::equiv$|eq_ignore_ascii_case$", v0[1]):
                    # the name of ONE header of the list is compared: the list is being scanned
                    self.scan_headers.add(hl[0])
            return (("present", hl[0]), hl[1])
        if c[0] == "variant":
            name, cur = c[2], c[3]
            if name in ("Some", "None"):
                lits = [l for l in term_lits(facts, cur) if l in HEADERS]
                if cur and cur[0] == "call" and lits and re.search(r"Iterator>::(find|next|find_map|position)$|::(first_header|header_value|find_header)\w*$", cur[1]):
                    if len(set(lits)) == 1:
                        return (("present", lits[0]), name == "Some")
            if name in ("Ok", "Err") and cur and cur[0] == "call" and (INT_PARSE.search(cur[1]) or (len(cur) > 4 and INT_PARSE.search(cur[4] or ""))):
                return (("cl_parse",), name == "Ok")
            return None
        if c[0] == "scalar":
            v, val = c[1], c[2]
            neg = False
            while v[0] == "unop" and v[1] == "Not":
                v, neg = v[2], not neg
            if v[0] == "call" and isinstance(val, bool):
                val = val != neg
                name, args = v[1], v[2]
                lits = [absint.str_consts(a) for a in args]
                flat = [l for ls in lits for l in ls]
                if re.search(r"<impl str>::contains", name) and "upgrade" in flat[-1:]:
                    lowered = any(re.search(r"to_ascii_lowercase$|to_lowercase$", x[1]) for x in absint.calls_in(args[0]))
                    return (("upgrade", lowered), val)
                if re.search(r"<impl str>::eq_ignore_ascii_case$", name) and "100-continue" in flat:
                    return (("expect100",), val)
                if re.search(r"Iterator>::all$", name) and closure_calls_only(facts, v, r"is_ascii_digit$"):
                    return (("cl_digits",), val)
                if re.search(r"HeaderField::equiv$|eq_ignore_ascii_case$", name):
                    ls = [l for l in flat if l in HEADERS]
                    if len(set(ls)) == 1:
                        self.scan_headers.add(ls[0])
                        return (("present", ls[0]), val)
                if re.search(r"Iterator>::any$", name):
                    ls = [l for l in term_lits(facts, v) if l in HEADERS]
                    if len(set(ls)) == 1:
                        return (("present", ls[0]), val)
                return (("other-call", name), val)
            if v[0] == "binop" and v[1] in CMPOPS and isinstance(val, bool):
                val = val != neg
                a, b = v[2], v[3]
                ka, kb = absint.const_of(a), absint.const_of(b)
                if isinstance(kb, int) and not isinstance(kb, bool) and is_cl_value(facts, a):
                    return (("cl_cmp", v[1], kb, False), val)
                if isinstance(ka, int) and not isinstance(ka, bool) and is_cl_value(facts, b):
                    return (("cl_cmp", v[1], ka, True), val)
                return None
            if is_cl_value(facts, v) and (isinstance(val, int) or val is None) and not isinstance(val, bool):
                # switchInt on the length itself (`match n { 0 => .., _ => .. }`)
                return (("cl_switch", tuple(c[3]) if len(c) > 3 else ()), val)
        return None

    # -- outcome ---------------------------------------------------------------------------------
    def reader_class(self, p, x):
        """what kind of body reader the term is, judged by the TYPES of the values it is built from (the result types of the calls and
        aggregates in it), not by the names of the functions that build them"""
        f = self.nr
        facts = self.facts
        x = absint.deep(p.state, x)
        src = ("init", (self.src,))
        tys = []
        for c in absint.calls_in(x):
            bb = c[3]
            if isinstance(bb, int) and 0 <= bb < f.n:
                t = f.blocks[bb].get("inl_call") or f.blocks[bb]["term"]
                if t.get("dest"):
                    tys.append(f.local_ty(t["dest"]["l"]))
            tys.append(c[1])
        for t_ in absint.walk_terms(x):
            if t_ and t_[0] == "agg":
                tys.append(str(t_[1]))
        import shared as SH
        cbr = SH.chunked_reader_adt(facts)
        def has(rx):
            return any(re.search(rx, ty) for ty in tys)
        fused = has(r"\bFusedReader\b")
        if x == src:
            return "raw", fused
        holds_src = absint.contains(x, src)
        if has(r"^std::io::empty$|\bstd::io::Empty\b") and not holds_src:
            return "empty", fused
        if (has(r"chunked_transfer::(decoder::)?Decoder\b") or (cbr and has(re.escape(cbr) + r"\b"))) and holds_src:
            return "chunked", fused
        if has(r"\bEqualReader\b") and holds_src:
            return "equal", fused
        if has(r"std::io::Cursor\b") and not holds_src:
            return "buffer", fused
        return "?" + symex.sym_str(x)[:80], fused

    def _row(self, p):
        atoms = []
        for bb, c in p.conds:
            a = self.atom(c)
            if a is not None:
                atoms.append(a)
        row = {"path": p, "atoms": atoms, "kind": "?", "end": p.end[0]}
        row["reads"] = len([e for e in p.calls() if re.search(r"std::io::Read::read(_exact|_to_end)?$| as std::io::Read>::read(_exact|_to_end)?$", e[2]) or (e[6] or "").startswith("std::io::Read::read")])
        row["scanned"] = any(c and c[0] == "variant" and c[2] == "None" and c[3] and c[3][0] == "call" and
                             re.search(r"(slice::Iter|vec::IntoIter)<.*> as std::iter::Iterator>::next$", c[3][1]) and not term_lits(self.facts, c[3]) for bb, c in p.conds)
        if p.end[0] != "return":
            return row
        r = p.ret()
        if r[0] == "agg" and r[2] == "Err":
            row["kind"] = "err"
            row["err"] = r[3].get("0")
            return row
        if r[0] == "agg" and r[2] == "Ok" and r[3]["0"][0] == "agg" and r[3]["0"][1] == REQ:
            rq = r[3]["0"][3]
            row["kind"] = "ok"
            row["request"] = rq
            rpaths = self.reader_paths()
            readers = []
            for path in rpaths:
                v = absint.deep(p.state, term_at(("agg", REQ, "Request", rq), path))
                if v and v[0] == "some":
                    readers.append(v)
            row["reader"], row["fused"] = self.reader_class(p, readers[0][1]) if len(readers) == 1 else ("?", False)
            src_key = (self.src,)
            # (dropped where it is: in new_request itself, or in the helper it was moved into)
            row["released"] = any(e[1] == "drop" and (e[3] == src_key or e[4] == ("init", src_key)) for e in p.events)
            row["reads"] = len([e for e in p.calls() if re.search(r"std::io::Read::read(_exact|_to_end)?$| as std::io::Read>::read(_exact|_to_end)?$", e[2]) or (e[6] or "").startswith("std::io::Read::read")])
            whole = ("agg", REQ, "Request", rq)
            row["length"] = [term_at(whole, path) for path in self.length_paths()]
            row["continue"] = [term_at(whole, path) for path in self.continue_paths()]
        return row

    def reader_paths(self):
        return shared.find_slot_paths(self.facts, REQ, r"Option<std::boxed::Box<.?dyn std::io::Read")

    def length_paths(self):
        return shared.find_slot_paths(self.facts, REQ, r"^std::option::Option<usize>$")

    def continue_paths(self):
        # the bool field of Request that as_reader consults (C18 binds it); here: every bool field (the one copied from the `secure`
        # argument is told apart by its value)
        return shared.find_slot_paths(self.facts, REQ, r"^bool$")

    def reader_fields(self):
        return [p[-1] for p in self.reader_paths()]

    def length_fields(self):
        return [p[-1] for p in self.length_paths()]

    def continue_fields(self):
        return [p[-1] for p in self.continue_paths()]

    # -- evaluation ------------------------------------------------------------------------------
    @staticmethod
    def expected(atom, A, nth):
        """truth value of an atom under assignment A (None: not determined by A).  nth: how many times this atom occurred before on the path"""
        k = atom[0]
        if k == "present":
            h = atom[1]
            if h == "Connection":
                return True if A["upgrade"] else None
            if h == "Transfer-Encoding":
                return A["te"]
            if h == "Expect":
                return A["expect"] != "absent"
            if h == "Content-Length":
                n = A.get("cl_count", 0 if A["cl"] is None else 1)
                return nth < n
        if k == "upgrade":
            return A["upgrade"]
        if k == "expect100":
            return A["expect"] == "100"
        if k in ("cl_digits", "cl_parse"):
            return A.get("cl_valid", True)
        if k == "cl_cmp":
            if A["cl"] is None:
                return None
            op, K, const_left = atom[1], atom[2], atom[3]
            return CMPOPS[op](K, A["cl"]) if const_left else CMPOPS[op](A["cl"], K)
        return None

    def compatible(self, row, A):
        seen = {}
        # header presence: a header may be looked up with one `find` (one condition) or by scanning the list (one condition per
        # element examined): what matters is how many of them said "this is the header"
        trues = {}
        for atom, val in row["atoms"]:
            if atom[0] == "present":
                trues.setdefault(atom[1], []).append(val)
        trues.setdefault("Content-Length", [])
        if row.get("scanned"):
            # the path walked the header list to its end: a header that this scan looks for and never matched is absent
            for h in self.scan_headers:
                trues.setdefault(h, [])
        for h, vals in trues.items():
            e = self.expected(("present", h), A, 0)
            n_true = sum(1 for v in vals if v)
            if h == "Content-Length":
                want_n = A.get("cl_count", 0 if A["cl"] is None else 1)
                if n_true != want_n:
                    return False
            elif e is True and n_true < 1:
                return False
            elif e is False and n_true > 0:
                return False
        for atom, val in row["atoms"]:
            if atom[0] == "present":
                continue
            key = atom
            nth = seen.get(key, 0)
            seen[key] = nth + 1
            if atom[0] == "cl_switch":
                if A["cl"] is None:
                    continue
                if val is None:
                    if A["cl"] in atom[1]:
                        return False
                elif A["cl"] != val:
                    return False
                continue
            e = self.expected(atom, A, nth)
            if e is not None and e != val:
                return False
        return True


def fmodel(facts):
    if not hasattr(facts, "_framing_model"):
        facts._framing_model = FramingModel(facts)
    return facts._framing_model


CL_SAMPLES = [None, 0, 1, 1023, 1024, 1025, 65536, 10 ** 12]


def assignments():
    for up in (False, True):
        for te in (False, True):
            for cl in CL_SAMPLES:
                for ex in ("absent", "100", "other"):
                    yield {"upgrade": up, "te": te, "cl": cl, "expect": ex}


def want(A):
    """reference row (DESIGN A.1) for a valid head: (kind, reader, released, declared length present, continue flag)"""
    if A["expect"] == "other":
        return {"kind": "err"}
    ex = A["expect"] == "100"
    cl = None if A["te"] else A["cl"]
    if A["upgrade"]:
        return {"kind": "ok", "reader": "raw", "released": False, "length": cl is not None, "continue": ex}
    if A["te"]:
        return {"kind": "ok", "reader": "chunked", "released": False, "length": False, "continue": ex}
    if cl is None or cl == 0:
        return {"kind": "ok", "reader": "empty", "released": True, "length": cl is not None, "continue": ex}
    if cl <= 1024 and not ex:
        return {"kind": "ok", "reader": "buffer", "released": True, "length": True, "continue": ex}
    return {"kind": "ok", "reader": "equal", "released": False, "length": True, "continue": ex}


def table_mismatches(FM, aspects, merge=None):
    """compare every assignment with the reference; aspects: subset of {'reader','released','length','continue','kind'}"""
    bad = []
    rows_n = 0
    for A in assignments():
        W = want(A)
        needed = [h for h, on in (("Transfer-Encoding", A["te"]), ("Content-Length", A["cl"] is not None), ("Expect", A["expect"] != "absent"), ("Connection", A["upgrade"])) if on and h in FM.scan_headers]
        if len(needed) > FM.max_visits - 1:
            continue       # needs more list elements than the exploration bound of a scanning loop covers
        comp = [r for r in FM.rows if r["end"] == "return" and FM.compatible(r, A)]
        # paths that fail for I/O reasons while buffering the body are not framing decisions
        comp = [r for r in comp if not (r["kind"] == "err" and W["kind"] == "ok" and r["reads"] > 0)]
        rows_n += 1
        if not comp:
            bad.append((A, "no path", W))
            continue
        for r in comp:
            if r["kind"] != W["kind"]:
                if "kind" in aspects:
                    bad.append((A, "kind=%s" % r["kind"], W))
                continue
            if W["kind"] != "ok":
                continue
            got = {"reader": r["reader"], "released": r["released"],
                   "length": any(v and v[0] == "some" for v in r["length"]) if r["length"] else None,
                   "continue": (absint.const_of(r["continue_value"]) if "continue_value" in r else None)}
            for a in aspects:
                if a in ("kind", "continue"):
                    continue
                if merge and a == "reader":
                    if merge.get(got[a], got[a]) == merge.get(W[a], W[a]):
                        continue
                if got[a] != W[a]:
                    bad.append((A, "%s=%s" % (a, got[a]), {a: W[a]}))
    return bad, rows_n
