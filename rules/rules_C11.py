"""C11 — pipelined requests are read ahead without waiting for earlier answers."""
import re, itertools
from core import *  # noqa
from roles import *  # noqa
import roles, shared, symex, predeval
import queue_rules as Q

EXPLANATION = (
    "Effect analysis over the mono call graph plus decision walks on MIR: on every call of the parser's success path (ClientConnection::next/read, "
    "outside the rejecting arms) the callee cannot wait for a response writer's turn, sleep, join or wait on a condition variable — parsing only "
    "draws a writer; for bodies that are absent, empty or pre-read (0 < Content-Length <= 1024, no Expect) the request's share of the socket reader "
    "is dropped inside new_request, which hands the reader to the successor at parse time, while for large/chunked/upgrade bodies it is moved into the "
    "Request; the body reader lives and dies with the Request (slot census) and a fused reader releases the socket reader at EOF; the HTTPS-only "
    "branch that waits for each answer is dead in this configuration.")
TRUSTED = ["rustc MIR / drop elaboration", "std effect table", "SequentialReader::drop passes the socket reader on (C09.4)"]

FORBIDDEN = {"WAIT-TURN-W", "CV-WAIT", "CV-WAIT-T", "SLEEP", "JOIN"}


def callee_instances(facts, f, bb):
    b = f.blocks[bb]
    iid = b.get("inst")
    if iid is None and b.get("eff_site") is not None:
        si, sb = b["eff_site"]
        return [to for _, kind, to, e in facts.inst_callees(facts.instances[si], sb) if to is not None]
    inst = facts.instances[iid] if iid is not None else getattr(f, "root_inst", None)
    if inst is None:
        return []
    return [to for _, kind, to, e in facts.inst_callees(inst, b.get("obb", bb)) if to is not None]


def run(ctx):
    facts = ctx.facts
    roles.bind(facts)
    import parser_rules as PRS, framing_rules as FRM, absint
    PM = PRS.pmodel(facts)
    FM = FRM.fmodel(facts)
    nr = FM.nr0

    # ---- C11.1 nothing on the success path waits for an answer
    n = 0
    memo = {}
    # new_request as the connection instantiates it, judged on its abstract paths: the calls and drops of every path that returns Ok, with
    # what is known about the dropped values (a slot that is destroyed while it holds `None` runs no destructor)
    insts = [i for i in facts.instances_of(nr.id) if not i["generic"] and "SequentialReader<" in i["name"]]
    ctx.require(len(insts) == 1, "C11.1: connection instance of new_request")
    import inline
    import queue_rules as Q
    nri = inline.inlined(facts, nr.id, inst=insts[0], stop=lambda d: facts.fns[d].rec.get("local") and not FM.same(d), extern_ok=Q.std_small)
    nr_eff = set()
    n_ok = 0
    cut = False
    for p in absint.Explorer(nri, max_paths=200000, max_visits=FM.max_visits).run(0, None):
        # (a path cut at the loop bound is kept: what lies beyond it are further rounds of the same loop and the continuations other paths took)
        if p.end[0] != "cut" and not (p.end[0] == "return" and p.ret()[0] == "agg" and p.ret()[2] == "Ok"):
            continue
        n_ok += p.end[0] == "return"
        for e in p.events:
            if e[1] not in ("call", "drop") or nri.blocks[e[0]]["cleanup"]:
                continue
            if e[1] == "drop" and e[4] is not None and e[4][0] == "none":
                continue
            nr_eff |= facts.effects_at(nri, e[0])
    if n_ok:
        memo[insts[0]["id"]] = frozenset(nr_eff)
    def judge(f, key, bb):
        t = f.blocks[bb].get("inl_call") or f.term(bb)
        eff = set()
        for to in callee_instances(facts, f, bb):
            eff |= shared.success_effects(facts, to, memo)
        eff &= FORBIDDEN
        ctx.ob("C11.1", "%s|success-path|%s" % (key, short(call_name(t))), "parsing and delivering a request never waits for an earlier request to be answered", not eff, f.loc(bb),
               None if not eff else "%s" % sorted(eff))
    # next(): the calls on the abstract paths from `a request was read` to `return Some(request)`
    f = PM.nxt
    ctx.touch(f)
    seen = set()
    delivered = [p for p in PM.after_read(PRS.Ok_(PRS.RQ)) if p.end[0] == "return" and p.ret() == ("some", PRS.RQ)]
    ctx.ob("C11.1", "%s|delivers" % PM.cc_next.id, "a request that was read is returned to the caller", bool(delivered), "%s:%d" % (f.file, f.line))
    for p in delivered:
        for e in p.events:
            if e[1] in ("call", "drop") and e[0] not in seen and not f.blocks[e[0]]["cleanup"]:
                seen.add(e[0])
                if e[1] == "call":
                    n += 1
                    ctx.call_sites += 1
                    judge(f, PM.cc_next.id, e[0])
    # ... and from the entry of next() to the call that reads the request
    pre = absint.explore(f, 0, None, stop=lambda bb, t, st: "read" if PM.is_read_entry(t) else None)
    for p in pre:
        if p.end[0] == "stop":
            for e in p.events:
                if e[1] == "call" and e[0] not in seen:
                    seen.add(e[0]); n += 1
                    judge(f, PM.cc_next.id, e[0])
    # the head reader: every call from which its successful return is still reachable
    g = PM.rd
    ctx.touch(g)
    ok_bbs = {bb for bb, i, s in g.assigns() if s["lhs"] == {"l": 0, "p": []} and s["rhs"]["rv"] == "agg" and s["rhs"].get("variant") == "Ok" and g.blocks[bb].get("depth", 0) == 0}
    if not ok_bbs:
        # `request.map_err(..)?; Ok(request)` vs. returning the mapped result directly: the success value is whatever new_request produced
        ok_bbs = {bb for bb in g.returns()}
    ctx.ob("C11.1", "%s|has-success-return" % PM.read_def, "the head reader can return a request", bool(ok_bbs), "%s:%d" % (g.file, g.line))
    for bb, t in g.calls():
        if g.blocks[bb]["cleanup"] or g.blocks[bb].get("synthetic"):
            continue
        if not (g.reach([bb], unwind=False) & ok_bbs):
            continue
        n += 1
        ctx.call_sites += 1
        judge(g, PM.read_def, bb)
    ctx.floor("C11.1 calls on the parser's success path", n, 25)
    # new_request (connection instance) as a whole
    eff = shared.success_effects(facts, insts[0]["id"], memo) & FORBIDDEN
    ctx.ob("C11.1", "%s|no-writer-wait" % nr.id, "successfully building a Request never touches the response writer it is given", not eff, "%s:%d" % (nr.file, nr.line), None if not eff else str(sorted(eff)))

    # ---- C11.2 the socket reader is released at parse time for absent / empty / small bodies
    bad = []
    rows = 0
    for A in FRM.assignments():
        W = FRM.want(A)
        if W["kind"] != "ok" or not W["released"]:
            continue        # other body kinds keep the reader until the body has been read: not this clause
        needed = [h for h, on in (("Transfer-Encoding", A["te"]), ("Content-Length", A["cl"] is not None), ("Expect", A["expect"] != "absent"), ("Connection", A["upgrade"])) if on and h in FM.scan_headers]
        if len(needed) > FM.max_visits - 1:
            continue
        rows += 1
        comp = [r for r in FM.rows if r["end"] == "return" and FM.compatible(r, A) and not (r["kind"] == "err" and r["reads"] > 0)]
        if not comp:
            bad.append((A, "no path"))
        for r in comp:
            if r["kind"] != "ok":
                bad.append((A, "not delivered"))
            elif not r["released"]:
                bad.append((A, "reader kept (%s)" % r["reader"]))
    ctx.counts["C11.2 rows"] = rows
    ctx.ob("C11.2", "%s|reader-released-at-parse-time" % nr.id,
           "the request gives its share of the socket reader back during parsing when its body is absent, empty or small (0 < Content-Length <= 1024 without Expect): the next request can be read without waiting for this one",
           not bad and rows > 0, "%s:%d" % (nr.file, nr.line), None if not bad else str(bad[:4]))

    return c11_rest(ctx, facts, nr, memo)


def c11_rest(ctx, facts, nr, memo):
    # ---- C11.3 the body reader lives and dies with the Request
    ts = shared.slot_typestate(facts, "data_reader")
    ok = not ts["bad"]
    ctx.ob("C11.3", "data_reader|moved-out-only-by-consuming-methods", "the body reader leaves the Request only through upgrade (which consumes it); otherwise it is destroyed with the Request (respond / into_writer / drop)", ok, REQ,
           None if ok else str([(g.id, why) for g, bb, why in ts["bad"]]))
    allowed = {roles.inherent(facts, REQ, "as_reader").id, roles.inherent(facts, REQ, "upgrade").id} | ts["emptiers"]
    for u in sorted(ts["users"] | ts["emptiers"]):
        ctx.ob("C11.3", "data_reader-user|%s" % u, "only as_reader borrows the body reader and only upgrade's helper takes it", u in allowed, u)
    # by evaluation of the consuming methods: what they hand back to the application does not contain the body reader (it dies with the
    # Request, releasing the socket reader for the next request), except for upgrade, whose stream is the connection itself
    import request_rules as RR, absint
    RM = RR.rmodel(facts)
    for name in ("respond", "into_writer", "upgrade"):
        g = RM.methods.get(name)
        if g is None:
            continue
        extra = {(2,): RR.RESPONSE} if name == "respond" else ({(3,): RR.RESPONSE} if name == "upgrade" else {})
        fg, ps = RM.run(g, extra=extra)
        rets = [absint.deep(p.state, p.ret()) for p in ps if p.end[0] == "return"]
        keeps = [symex.sym_str(r)[:80] for r in rets if absint.contains(r, RR.READER)]
        if name == "upgrade":
            ok = bool(rets) and len(keeps) == len(rets)
            ctx.ob("C11.3", "%s|stream-holds-reader" % g.id, "the stream returned by upgrade carries the request's reader (the rest of the connection)", ok, "%s:%d" % (g.file, g.line))
        else:
            ctx.ob("C11.3", "%s|reader-not-kept" % g.id, "%s does not keep the body reader alive in what it returns: the unread body is discarded, and the socket reader released, when the method returns" % name,
                   bool(rets) and not keeps, "%s:%d" % (g.file, g.line), None if not keeps else keeps[0])
    import fused_rules
    fres = fused_rules.fused_rules(ctx, None, None, None)
    fr = fused_rules.fmodel(facts).f0
    ctx.ob("C11.3", "%s|releases-at-eof" % fr.id, "a fully read large/chunked body releases the socket reader immediately (the fused reader drops its inner reader at EOF)", fres["eof"], "%s:%d" % (fr.file, fr.line))

    # ---- C11.4 the HTTPS-only synchronisation is dead here
    ok = shared.tls_const_false(ctx)
    ctx.ob("C11.4", "tls-branch-dead", "the branch of the connection task that waits for each answer (HTTPS only) cannot run: secure() is constantly false in this configuration", ok, "Server::from_listener",
           None if ok else str(getattr(facts, "_tls_why", None)))
    import server_rules as S
    tk = S.smodel(facts).tk
    recvs = [bb for bb, t in tk.calls() if call_is(t, RECV)]
    for bb in recvs:
        ctx.ob("C11.4", "connection-task|wait-only-on-tls-branch", "the only wait in the connection task sits on that dead branch", shared.tls_branch_dead(ctx, tk, bb), tk.loc(bb))
    # ---- C11.5 a read-ahead request reaches a waiting application thread at once: every push is followed by a wake-up
    # on every path (a conditional wake-up leaves later pipelined requests in the queue until an earlier one is answered
    # and its thread comes back to recv)
    Q.rule_notify_after_push(ctx, "C11.5")
    # ---- C11.7 the successors of a request that does not end the connection go on being read: the parser's keep-alive table (C12.1)
    import rules_C12, engine
    c12 = engine.Ctx("C11", "quick", facts, 0)
    try:
        rules_C12.keepalive_table(c12)
        n7 = engine.take_over(ctx, c12.obs, lambda o: o.rule == "C12.1" and o.key.split("|")[-1] in ("table", "atoms", "haystack"), "C11.7")
        ctx.floor("C11.7 obligations taken from the keep-alive table", n7, 2)
    except CheckerError as e:
        raise CheckerError("C11.7 (the parser's keep-alive decision could not be extracted): %s" % e)
    # ---- C11.6 discarding the unread body of an answered or dropped request leaves the successor's bytes where they are (it then becomes
    # available): the drain of the length-limited reader takes exactly the bytes owed (rules of C09.2)
    import drain_rules as DR
    sk = shared.size_init(facts, ER)
    ctx.require(sk is not None, "C11.6: remaining-size field of the length-limited reader")
    DR.owed_rules(ctx, "C11.6", ER, sk)
    # ---- C11.8 handing a parsed request to the application's queue never waits for the application: the connection's thread neither
    # sleeps nor waits on a condition variable (a bounded queue whose `push` waits for room stops the reading ahead until some receiver
    # comes back; the rule C08.5 decides for the connection task)
    import server_rules as S_
    SM_ = S_.smodel(facts)
    inst_ = [i for i in facts.instances_of(SM_.task_def) if i["kind"] == "item"]
    ctx.require(len(inst_) == 1, "C11.8: instance of the connection task")
    bad_ = facts.effects()[inst_[0]["id"]] & {"CV-WAIT", "CV-WAIT-T", "SLEEP", "JOIN"}
    ctx.ob("C11.8", "connection-task|never-waits-for-the-application", "the connection task never sleeps, joins or waits on a condition variable", not bad_, "%s:%d" % (SM_.tk.file, SM_.tk.line),
           None if not bad_ else "%s via %s" % (sorted(bad_), facts.effect_witness(inst_[0]["id"], sorted(bad_)[0])[:8]))
    return {}


def find_flags(f):
    def bool_local_from(lit_re):
        for i, l in enumerate(f.locals):
            if l["ty"] != "bool" or i in f.flag_locals():
                continue
            alld = [d for d in f.defs().get(i, []) if d[0] in ("assign", "call")]
            defs = [d for d in alld if d[0] == "assign" and d[3]["rv"] == "use" and isinstance(op_const(d[3]["op"]), bool)]
            if len(defs) < 2 or len(defs) != len(alld):
                continue
            for d in defs:
                if op_const(d[3]["op"]) is True:
                    for cb, t in f.calls():
                        if t.get("target") is None:
                            continue
                        lits = [c for c in arg_consts(f, t) if isinstance(c, str)]
                        if lits and re.search(lit_re, lits[0]) and call_matches(t, r"contains|eq_ignore_ascii_case"):
                            bs = bool_switch(f, t["target"])
                            if bs and f.dominates(bs[1], d[1], unwind=False):
                                return i
        return None
    up, ex = bool_local_from(r"^upgrade$"), bool_local_from(r"^100-continue$")
    if up is None or ex is None:
        raise CheckerError("cannot identify the upgrade / expects-continue flags of new_request")
    return up, ex
