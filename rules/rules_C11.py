"""C11 — pipelined requests are read ahead without waiting for earlier answers."""
import re, itertools
from core import *  # noqa
from roles import *  # noqa
import roles, shared, symex, predeval
import queue_rules as Q

EXPLANATION = (
    "Effect analysis over the mono call graph plus decision walks on MIR: on every call of the parser's success path (ClientConnection::next/read, "
    "outside the rejecting arms) the callee cannot wait for a response writer's turn, sleep, join or wait on a condition variable — parsing only "
    "draws a writer; for bodies that are absent, empty or pre-read (0 < Content-Length <= 1024, no Expect) the request's share of the socket reader "
    "is dropped inside new_request, which hands the reader to the successor at parse time, while for large/chunked/upgrade bodies it is moved into the "
    "Request; the body reader lives and dies with the Request (slot census) and a fused reader releases the socket reader at EOF; the HTTPS-only "
    "branch that waits for each answer is dead in this configuration.")
TRUSTED = ["rustc MIR / drop elaboration", "std effect table", "SequentialReader::drop passes the socket reader on (C09.4)"]

FORBIDDEN = {"WAIT-TURN-W", "CV-WAIT", "CV-WAIT-T", "SLEEP", "JOIN"}


def run(ctx):
    facts = ctx.facts
    roles.bind(facts)
    cc_next = method(facts, T_ITER, CC, "next")
    cc_read = roles.inherent(facts, CC, "read")
    nr = facts.fn("request::new_request")

    # ---- C11.1 nothing on the success path waits for an answer
    n = 0
    memo = {}
    for f in (cc_next, cc_read):
        inst = facts.mono_instance(f.id)
        ctx.touch(f)
        if f.id == cc_next.id:
            some_bbs = {bb for bb, i, s in f.assigns() if s["lhs"] == {"l": 0, "p": []} and s["rhs"]["rv"] == "agg" and s["rhs"].get("variant") == "Some"}
        else:
            some_bbs = {bb for bb, i, s in f.assigns() if s["lhs"] == {"l": 0, "p": []} and s["rhs"]["rv"] == "agg" and s["rhs"].get("variant") == "Ok"}
        ctx.require(some_bbs, "C11.1: success return of %s" % f.id)
        # rejecting arms: branches whose exclusive region builds a synthetic error response
        rejecting = set()
        stat_blocks = {b for b, c in shared.status_consts_in(f)}
        for b0 in sorted(f.live_blocks()):
            if f.term(b0)["t"] != "switch" or f.blocks[b0]["cleanup"]:
                continue
            for s0 in f.succs(b0, False):
                reg = shared.arm_region(f, s0)
                if reg & stat_blocks and not (reg & some_bbs):
                    rejecting |= reg
        for bb, t in f.calls():
            if f.blocks[bb]["cleanup"]:
                continue
            if not (f.reach([bb], unwind=False) & some_bbs):
                continue
            if bb in rejecting:
                continue
            n += 1
            ctx.call_sites += 1
            # effects of the callee on *its* successful paths (a callee that fails ends the success path of the caller)
            eff = set()
            for _, kind, to, e in facts.inst_callees(inst, bb):
                if to is not None:
                    eff |= shared.success_effects(facts, to, memo)
            eff &= FORBIDDEN
            ctx.ob("C11.1", "%s|success-path|%s" % (f.id, short(call_name(t))), "parsing and delivering a request never waits for an earlier request to be answered", not eff, f.loc(bb),
                   None if not eff else "%s" % sorted(eff))
    ctx.floor("C11.1 calls on the parser's success path", n, 40)
    # new_request (connection instance) as a whole
    insts = [i for i in facts.instances_of(nr.id) if not i["generic"] and "SequentialReader<" in i["name"]]
    ctx.require(len(insts) == 1, "C11.1: connection instance of new_request")
    eff = shared.success_effects(facts, insts[0]["id"], memo) & FORBIDDEN
    ctx.ob("C11.1", "%s|no-writer-wait" % nr.id, "successfully building a Request never touches the response writer it is given", not eff, "%s:%d" % (nr.file, nr.line), None if not eff else str(sorted(eff)))

    # ---- C11.2 the socket reader is released at parse time for absent / empty / pre-read bodies
    import rules_C03
    f = nr
    rparam = [i for i in range(1, f.argc + 1) if f.local_ty(i) == "R"]
    ctx.require(len(rparam) == 1, "C11.2: the reader parameter of new_request")
    RP = rparam[0]
    req_cons = sorted({bb for g, bb, s in facts.constructions(REQ) if g.id == f.id})
    rc = req_cons[0]
    cons_stmt = [s for s in f.stmts(rc) if s["s"] == "assign" and s["rhs"]["rv"] == "agg" and s["rhs"].get("adt") == REQ][0]
    r = cons_stmt["rhs"]
    o_len = f.origin(r["ops"][r["fields"].index("body_length")])
    CL = [x[1] for x in origin_walk(o_len) if x[0] == "local"][0]
    # reuse C03's identification of the decisive locals by running its helper through a tiny shim
    try:
        locs = find_flags(f)
    except CheckerError as e:
        ctx.ob("C11.2", "%s|reader-released-at-parse-time" % f.id, "the body-kind decision of new_request is made on the recognised predicates", False, "%s:%d" % (f.file, f.line), str(e))
        return c11_rest(ctx, facts, nr, memo)
    UP, EX = locs
    dom = f.dominators(False)
    starts = [b for b in dom[rc] if bool_switch(f, b) and any(x == ("local", UP) for x in origin_walk(f.origin(bool_switch(f, b)[0])))]
    start = min(starts, key=lambda b: len(dom[b]))
    bad = []
    rows = 0
    for up, te, cl, ex in itertools.product([False, True], [False, True], [None, 0, 1, 1024, 1025], [False, True]):
        if te and cl is not None:
            continue
        env = {("local", UP): up, ("local", EX): ex, ("local", CL): None if cl is None else ("some", cl)}
        asg = {}
        def atom_of(bb):
            t = f.term(bb)
            if t["t"] != "switch" or op_local(t["discr"]) in f.flag_locals():
                return None
            sw = switch_on_discr(f, bb)
            if sw:
                rv, m, otherwise, rest = sw
                if not rv["pl"]["p"] and rv["pl"]["l"] == CL:
                    mm = dict(m)
                    for r_ in rest:
                        mm[r_] = otherwise
                    asg["cl"] = True
                    return ("cl", {True: mm["None" if cl is None else "Some"]})
                if rv.get("adt") == "std::ops::ControlFlow":
                    asg["cf"] = True
                    return ("cf", {True: m.get("Continue", otherwise)})
                if rv.get("adt") == "std::option::Option":
                    # drop-elaboration re-tests of Options: follow by known value when it is CL
                    return None
                return None
            bs = bool_switch(f, bb)
            if not bs:
                return None
            o = f.origin(bs[0])
            if o[0] == "call" and o[1].endswith("Option::<T>::is_some") and origin_has_call(o, r"Iterator>?::find"):
                asg["te%d" % bb] = te
                return ("te%d" % bb, {True: bs[1], False: bs[2]})
            try:
                v = predeval.ev(f, o, env)
            except predeval.Unknown as e:
                return None
            asg["g%d" % bb] = bool(v)
            return ("g%d" % bb, {True: bs[1], False: bs[2]})
        paths = shared.walk_paths(f, start, atom_of, asg, set(f.returns()))
        rows += 1
        ctx.paths += len(paths)
        release = (not up) and (not te) and (cl is None or cl == 0 or (cl <= 1024 and not ex))
        n_ok_paths = 0
        for end, visited in paths:
            if end is None or rc not in visited:
                continue      # loop cuts / error returns
            n_ok_paths += 1
            dropped = moved = False
            for bb in visited:
                t = f.term(bb)
                if t["t"] == "drop" and not t["pl"]["p"] and t["pl"]["l"] == RP:
                    dropped = True
                for s_ in f.stmts(bb):
                    if s_["s"] == "assign":
                        for p_, kind in rvalue_places(s_["rhs"]):
                            if kind == "move" and not p_["p"] and p_["l"] == RP:
                                moved = True
                if t["t"] == "call":
                    for a in t["args"]:
                        if a["k"] == "move" and op_local(a) == RP:
                            moved = True
            got = dropped and not moved
            if got != release:
                bad.append(((up, te, cl, ex), "released" if got else "kept", "released" if release else "kept"))
        if n_ok_paths == 0:
            bad.append(((up, te, cl, ex), "no successful path", ""))
    ctx.counts["C11.2 rows"] = rows
    ctx.ob("C11.2", "%s|reader-released-at-parse-time" % f.id,
           "the request gives its share of the socket reader back during parsing exactly when its body is absent, empty or pre-read (0 < Content-Length <= 1024 without Expect); otherwise it keeps it",
           not bad, f.loc(start), None if not bad else str(bad[:4]))

    return c11_rest(ctx, facts, nr, memo)


def c11_rest(ctx, facts, nr, memo):
    # ---- C11.3 the body reader lives and dies with the Request
    ts = shared.slot_typestate(facts, "data_reader")
    ok = not ts["bad"]
    ctx.ob("C11.3", "data_reader|moved-out-only-by-consuming-methods", "the body reader leaves the Request only through upgrade (which consumes it); otherwise it is destroyed with the Request (respond / into_writer / drop)", ok, REQ,
           None if ok else str([(g.id, why) for g, bb, why in ts["bad"]]))
    allowed = {roles.inherent(facts, REQ, "as_reader").id, roles.inherent(facts, REQ, "upgrade").id} | ts["emptiers"]
    for u in sorted(ts["users"] | ts["emptiers"]):
        ctx.ob("C11.3", "data_reader-user|%s" % u, "only as_reader borrows the body reader and only upgrade's helper takes it", u in allowed, u)
    fr = method(facts, T_READ, FR, "read")
    clears = [bb for h, bb, kind, x in facts.field_writes(FR, "inner") if h.id == fr.id and kind == "assign" and not fr.blocks[bb]["cleanup"]]
    drops = [bb for bb, t in fr.drops() if pl_fields(t["pl"]) == ["inner"] and not fr.blocks[bb]["cleanup"]]
    ctx.ob("C11.3", "%s|releases-at-eof" % fr.id, "a fully read large/chunked body releases the socket reader immediately (the fused reader drops its inner reader at EOF)", bool(clears) and bool(drops), "%s:%d" % (fr.file, fr.line))

    # ---- C11.4 the HTTPS-only synchronisation is dead here
    ok = shared.tls_const_false(ctx)
    ctx.ob("C11.4", "tls-branch-dead", "the branch of the connection task that waits for each answer (HTTPS only) cannot run: secure() is constantly false in this configuration", ok, "Server::from_listener",
           None if ok else str(getattr(facts, "_tls_why", None)))
    import server_rules as S
    tk = S.smodel(facts).tk
    recvs = [bb for bb, t in tk.calls() if call_is(t, RECV)]
    for bb in recvs:
        ctx.ob("C11.4", "connection-task|wait-only-on-tls-branch", "the only wait in the connection task sits on that dead branch", shared.tls_branch_dead(ctx, tk, bb), tk.loc(bb))
    # ---- C11.5 a read-ahead request reaches a waiting application thread at once: every push is followed by a wake-up
    # on every path (a conditional wake-up leaves later pipelined requests in the queue until an earlier one is answered
    # and its thread comes back to recv)
    Q.rule_notify_after_push(ctx, "C11.5")
    return {}


def find_flags(f):
    def bool_local_from(lit_re):
        for i, l in enumerate(f.locals):
            if l["ty"] != "bool" or i in f.flag_locals():
                continue
            alld = [d for d in f.defs().get(i, []) if d[0] in ("assign", "call")]
            defs = [d for d in alld if d[0] == "assign" and d[3]["rv"] == "use" and isinstance(op_const(d[3]["op"]), bool)]
            if len(defs) < 2 or len(defs) != len(alld):
                continue
            for d in defs:
                if op_const(d[3]["op"]) is True:
                    for cb, t in f.calls():
                        if t.get("target") is None:
                            continue
                        lits = [c for c in arg_consts(f, t) if isinstance(c, str)]
                        if lits and re.search(lit_re, lits[0]) and call_matches(t, r"contains|eq_ignore_ascii_case"):
                            bs = bool_switch(f, t["target"])
                            if bs and f.dominates(bs[1], d[1], unwind=False):
                                return i
        return None
    up, ex = bool_local_from(r"^upgrade$"), bool_local_from(r"^100-continue$")
    if up is None or ex is None:
        raise CheckerError("cannot identify the upgrade / expects-continue flags of new_request")
    return up, ex
