"""C01 — pipelined responses leave in request order and are never interleaved."""
import re
from core import *  # noqa
from roles import *  # noqa
import roles, shared, symex

EXPLANATION = (
    "Static shape argument over MIR (all schedules, all handler programs): the socket write half lives in one "
    "Arc<Mutex<..>> reachable only from SequentialWriterBuilder/SequentialWriter (field census); write/flush are "
    "the only lockers and every path to the lock passes the wait for the predecessor's token (must-pass-through); "
    "the token is sent only by the writer's Drop, on every path; the builder chains on_finish(k) to trigger(k+1) "
    "(symbolic provenance of the swap); writers cannot be duplicated (impl census); the connection code draws "
    "exactly one writer per parsed request in parse order; no frame waits for a token it alone can release "
    "(ownership dataflow + mono effect graph); respond_impl flushes before the writer is dropped.")
TRUSTED = ["rustc MIR construction / drop elaboration / trait resolution (nightly 1.97)",
           "std effect table (rules/effects_table.py)", "Rust move semantics",
           "BufWriter and the kernel preserve byte order"]


def run(ctx):
    facts = ctx.facts
    roles.bind(facts)
    sw_write = method(facts, T_WRITE, SW, "write")
    sw_flush = method(facts, T_WRITE, SW, "flush")
    sw_drop = method(facts, T_DROP, SW, "drop")
    swb_next = method(facts, T_ITER, SWB, "next")
    swb_new = roles.inherent(facts, SWB, "new")

    # ---- C01.1 who may touch the shared writer handle
    allowed = {sw_write.id, sw_flush.id, swb_next.id}
    sites = 0
    for adt in (SW, SWB):
        for f, bb, kind in facts.field_reads(adt, "writer"):
            sites += 1
            ctx.touch(f)
            ctx.ob("C01.1", "%s.writer|read|%s" % (adt, f.id),
                   "the Arc<Mutex<W>> write half is read only by SequentialWriter::{write,flush} and the builder's next (clone)",
                   f.id in allowed, f.loc(bb), None if f.id in allowed else "unexpected reader of the shared write half (%s)" % kind)
        for f, bb, kind, x in facts.field_writes(adt, "writer"):
            sites += 1
            ok = (kind == "construct" and f.id in (swb_new.id, swb_next.id))
            ctx.ob("C01.1", "%s.writer|%s|%s" % (adt, kind, f.id),
                   "the Arc<Mutex<W>> write half is initialised only by SequentialWriterBuilder::new / next",
                   ok, f.loc(bb), None if ok else "unexpected %s of the shared write half" % kind)
    ctx.floor("C01.1 sites", sites, 4)
    # no function returns, and no type stores, a guard of that mutex
    for k, f in sorted(facts.local_fns.items()):
        rty = f.local_ty(0)
        bad = "MutexGuard" in rty and ("BufWriter" in rty or re.search(r"MutexGuard<'_, W>", rty))
        if "MutexGuard" in rty:
            ctx.ob("C01.1", "guard-escape|%s" % f.id, "no function hands out a guard of the socket-writer mutex", not bad, "%s:%d" % (f.file, f.line))
    for aid, a in sorted(facts.adts.items()):
        for v in a["variants"]:
            for fl in v["fields"]:
                if "MutexGuard" in fl["ty"]:
                    ctx.ob("C01.1", "guard-stored|%s.%s" % (aid, fl["name"]), "no type stores a mutex guard", False, "%s:%d" % (a["file"], a["line"]))

    # ---- C01.2 every path to the lock passes the token wait
    for f in (sw_write, sw_flush):
        ctx.touch(f)
        locks = f.call_blocks(lambda t: call_is(t, LOCK))
        ctx.require(locks, "C01.2: no Mutex::lock in %s" % f.id)
        recvs = [bb for bb, t in f.calls() if call_is(t, RECV) and "trigger" in arg_origin_fields(f, t)]
        # None-edges of discriminant tests on the trigger slot
        none_targets = set()
        trig_switches = 0
        for bb in sorted(f.live_blocks()):
            sw = switch_on_discr(f, bb)
            if not sw:
                continue
            rv, m, otherwise, rest = sw
            lt = f.local_ty(rv["pl"]["l"]) if not rv["pl"]["p"] else ""
            o = f.origin_place(rv["pl"])
            if "trigger" not in origin_fields(o):
                continue
            trig_switches += 1
            if "None" in m:
                none_targets.add(m["None"])
            elif "None" in rest:
                none_targets.add(otherwise)
        if not (recvs and trig_switches):
            for lb in locks:
                ctx.ob("C01.2", "%s|lock" % f.id, "Mutex::lock on the shared writer is reachable only after the predecessor's token was received (or no predecessor exists)", False, f.loc(lb),
                       "no wait on the trigger channel in this function (recv calls=%d, tests of the trigger slot=%d)" % (len(recvs), trig_switches))
            continue
        # the block *after* a successful recv (its normal target) is what "passing the wait" means
        passed = {f.normal_target(bb) for bb in recvs}
        reach = f.reach([0], blocked=passed | none_targets, unwind=False)
        for lb in locks:
            ctx.paths += 1
            ok = lb not in reach
            detail = None
            if not ok:
                detail = "path to the lock that neither waits for the predecessor token nor sees an empty trigger: %s" % (
                    f.path([0], [lb], blocked=passed | none_targets, unwind=False))
            ctx.ob("C01.2", "%s|lock" % f.id, "Mutex::lock on the shared writer is reachable only after the predecessor's token was received (or no predecessor exists)", ok, f.loc(lb), detail)
        # stores to self.trigger happen only after the wait as well
        for ff, bb, kind, x in facts.field_writes(SW, "trigger"):
            if ff.id != f.id or kind not in ("assign", "calldest"):
                continue
            ok = bb not in reach
            ctx.ob("C01.2", "%s|trigger-store" % f.id, "the trigger slot is cleared only after its token was received", ok, f.loc(bb))

    # ---- C01.3 the token is sent by Drop only, and always
    senders = [(f, bb, t) for f, bb, t in facts.all_calls(lambda t: call_is(t, SEND)) if "on_finish" in arg_origin_fields(f, t)]
    ctx.require(senders, "C01.3: no send on on_finish found")
    for f, bb, t in senders:
        ok = f.id == sw_drop.id
        ctx.ob("C01.3", "send|%s" % f.id, "the successor's token is sent only from <SequentialWriter as Drop>::drop", ok, f.loc(bb))
    for f, bb, kind in facts.field_reads(SW, "on_finish"):
        ok = f.id == sw_drop.id
        ctx.ob("C01.3", "on_finish-read|%s" % f.id, "the on_finish sender is used only by the writer's Drop", ok, f.loc(bb))
    shared.writer_drop_waits_turn(ctx, "C01.3")
    send_blocks = {bb for f, bb, t in senders if f.id == sw_drop.id}
    rets = sw_drop.returns()
    reach = sw_drop.reach([0], blocked=send_blocks, unwind=False)
    ctx.touch(sw_drop, paths=1)
    ctx.ob("C01.3", "%s|always-sends" % sw_drop.id, "every normal path through the writer's Drop sends the token",
           not any(r in reach for r in rets), "%s:%d" % (sw_drop.file, sw_drop.line))

    # ---- C01.4 chaining in the builder (symbolic provenance)
    ctx.touch(swb_next)
    paths = symex.enumerate_paths(swb_next)
    ctx.paths += len(paths)
    ctx.require(paths, "C01.4: no path through %s" % swb_next.id)
    for pi, p in enumerate(paths):
        st = symex.run_path(swb_next, p)
        ret = st.read_key((0,))
        sw_val = ret[1] if ret[0] == "some" else None
        ok_some = sw_val is not None and sw_val[0] == "agg" and sw_val[1] == SW
        ctx.ob("C01.4", "%s|returns-writer|p%d" % (swb_next.id, pi), "the builder always returns Some(writer)", ok_some,
               "%s:%d" % (swb_next.file, swb_next.line), None if ok_some else symex.sym_str(ret))
        if not ok_some:
            continue
        flds = sw_val[3]
        trig, onf, wr = flds.get("trigger"), flds.get("on_finish"), flds.get("writer")
        nt = st.read_key((1, "*", ".next_trigger"))
        ok_trig = trig == ("init", (1, "*", ".next_trigger"))
        ctx.ob("C01.4", "%s|trigger=prev.next_trigger|p%d" % (swb_next.id, pi),
               "the new writer waits on the receiver left behind by the previous draw", ok_trig,
               "%s:%d" % (swb_next.file, swb_next.line), None if ok_trig else "trigger = " + symex.sym_str(trig))
        ok_chain = (onf is not None and onf[0] == "tx" and nt[0] == "some" and nt[1][0] == "rx" and nt[1][1] == onf[1])
        ctx.ob("C01.4", "%s|on_finish-pairs-next_trigger|p%d" % (swb_next.id, pi),
               "the new writer's on_finish sender and the builder's stored next_trigger are the two ends of one fresh channel",
               ok_chain, "%s:%d" % (swb_next.file, swb_next.line),
               None if ok_chain else "on_finish=%s next_trigger=%s" % (symex.sym_str(onf), symex.sym_str(nt)))
        ok_wr = wr is not None and wr[0] == "clone" and wr[2] == (1, "*", ".writer")
        ctx.ob("C01.4", "%s|writer=clone(self.writer)|p%d" % (swb_next.id, pi),
               "every writer shares the builder's one Arc<Mutex<W>>", ok_wr, "%s:%d" % (swb_next.file, swb_next.line),
               None if ok_wr else "writer = " + symex.sym_str(wr))
        nchan = sum(1 for c in st.calls if c[1] == CHANNEL)
        ctx.ob("C01.4", "%s|one-channel|p%d" % (swb_next.id, pi), "exactly one channel per draw", nchan == 1, "%s:%d" % (swb_next.file, swb_next.line))
    # builder starts with no predecessor
    for f, bb, s in facts.constructions(SWB):
        v = symex.run_path(f, f.path([0], [bb], unwind=False) or [0])
        st_val = v.rvalue(s["rhs"])
        nt0 = st_val[3].get("next_trigger") if st_val[0] == "agg" else None
        ctx.ob("C01.4", "%s|initial-next_trigger" % f.id, "a fresh builder has no predecessor token (next_trigger = None)",
               nt0 == ("none",), f.loc(bb))

    # ---- C01.5 no duplication
    for adt in (SW, SWB, REQ):
        for tr in (T_CLONE, T_COPY):
            ctx.ob("C01.5", "noimpl|%s|%s" % (tr, adt), "writer-owning types cannot be duplicated", not facts.has_impl(tr, adt), adt)
    cons = facts.constructions(SW)
    ctx.require(cons, "C01.5: no construction of SequentialWriter found")
    for f, bb, s in cons:
        ctx.ob("C01.5", "construct|%s" % f.id, "SequentialWriter is constructed only by the builder's next", f.id == swb_next.id, f.loc(bb))

    # ---- C01.6 one writer per parsed request, drawn in parse order by the connection thread
    cc_next = method(facts, T_ITER, CC, "next")
    cc_read = roles.inherent(facts, CC, "read")
    draws = facts.callers_of(swb_next.id)
    ctx.floor("C01.6 draw sites", len(draws), 2)
    new_request_calls = [(bb, t) for bb, t in cc_read.calls() if call_matches(t, r"^request::new_request$")]
    ctx.require(len(new_request_calls) == 1, "C01.6: expected one new_request call in read, found %d" % len(new_request_calls))
    nr_bb, nr_t = new_request_calls[0]
    for f, bb, t in draws:
        ctx.touch(f, calls=1)
        ok_where = f.id in (cc_next.id, cc_read.id)
        ctx.ob("C01.6", "draw|%s|%s" % (f.id, shared.arm_label(f, bb) if f.id == cc_next.id else "request"),
               "writers are drawn only by the connection thread's parser (ClientConnection::{read,next})", ok_where, f.loc(bb))
        if f.id == cc_read.id:
            ok = (not f.in_loop(bb)) and f.dominates(bb, nr_bb, unwind=False)
            ctx.ob("C01.6", "draw-once|%s" % f.id, "read() draws exactly one writer per request, outside any loop, before building the Request", ok, f.loc(bb))
            # it flows into new_request's writer argument
            wr = f.origin(nr_t["args"][-1])
            ok2 = any(x[0] == "call" and x[3] == bb for x in origin_walk(wr))
            ctx.ob("C01.6", "draw-flows|%s" % f.id, "the drawn writer is the one handed to new_request", ok2, f.loc(nr_bb), None if ok2 else origin_str(wr))
    builders = [(f, bb, s) for f, bb, s in facts.constructions(SWB)]
    for f, bb, s in builders:
        ctx.ob("C01.6", "builder-construct|%s" % f.id, "one builder per connection", f.id == swb_new.id, f.loc(bb))
    new_calls = facts.callers_of(swb_new.id)
    cc_new = roles.inherent(facts, CC, "new")
    for f, bb, t in new_calls:
        ctx.ob("C01.6", "builder-new|%s" % f.id, "the builder is created once, in ClientConnection::new", f.id == cc_new.id and not f.in_loop(bb), f.loc(bb))
    ctx.require(new_calls, "C01.6: SequentialWriterBuilder::new has no caller")

    # ---- C01.7 no self-deadlock (shared with C10.4)
    n = shared.own_deadlock_sites(ctx, "C01.7")
    ctx.floor("C01.7 turn-waiting call sites in the parser", n, 3)

    # ---- C01.8 respond_impl: raw_print -> flush -> writer dropped
    respond_impl = find_respond_impl(facts)
    ctx.touch(respond_impl)
    f = respond_impl
    rp = f.call_blocks(lambda t: call_matches(t, r"response::Response::<R>::raw_print$"))
    fl = f.call_blocks(lambda t: t.get("callee") == "std::io::Write::flush")
    ctx.require(rp, "C01.8: raw_print not found in %s" % f.id)
    if not fl:
        ctx.ob("C01.8", "%s|flush-after-print" % f.id, "after the response is printed the writer is flushed on every non-error path before returning", False, f.loc(rp[0]), "respond_impl never flushes")
    resid = set(f.call_blocks(lambda t: t.get("callee") == "std::ops::FromResidual::from_residual"))
    after_rp = [f.normal_target(b) for b in rp]
    reach = f.reach(after_rp, blocked=set(fl) | resid, unwind=False)
    ok = not any(r in reach for r in f.returns())
    ctx.paths += 1
    ctx.ob("C01.8", "%s|flush-after-print" % f.id, "after the response is printed the writer is flushed on every non-error path before returning",
           ok, f.loc(rp[0]), None if ok else "path: %s" % f.path(after_rp, f.returns(), blocked=set(fl) | resid, unwind=False))
    # the extracted writer is a local that is dropped by this frame on every path (never leaked / stored)
    ex = [(bb, t) for bb, t in f.calls() if pl_is_local(t["dest"]) and "Box<dyn std::io::Write" in f.local_ty(t["dest"]["l"])]
    ctx.require(ex, "C01.8: extracted writer local not found")
    wl = ex[0][1]["dest"]["l"]
    moved = []
    for bb, t in f.calls():
        for a in t["args"]:
            if a["k"] == "move" and op_local(a) == wl:
                moved.append(bb)
    for bb, i, s in f.assigns():
        for p, kind in rvalue_places(s["rhs"]):
            if kind == "move" and not p["p"] and p["l"] == wl:
                moved.append(bb)
    dropbbs = {bb for bb, t in f.drops() if not t["pl"]["p"] and t["pl"]["l"] == wl}
    start = [f.normal_target(ex[0][0])]
    reach = f.reach(start, blocked=dropbbs, unwind=True)
    exits = [b for b in reach if f.term(b)["t"] in ("return", "resume")]
    ok = not moved and not exits
    ctx.ob("C01.8", "%s|writer-dropped-here" % f.id, "the extracted writer is owned by respond_impl's frame and dropped on every exit (normal, error, unwind), after the flush",
           ok, f.loc(ex[0][0]), None if ok else "moved at %s, exits without drop %s" % (moved, exits))
    ok = bool(fl) and all(any(f.dominates(flb, d, unwind=False) for flb in fl) or f.blocks[d]["cleanup"] or d in f.reach([x for r in resid for x in f.succs(r, False)], unwind=False) for d in dropbbs)
    ctx.ob("C01.8", "%s|drop-after-flush" % f.id, "on the success path the writer is dropped only after the flush", ok, f.loc(fl[0]) if fl else f.loc(rp[0]))
    return {}


def find_respond_impl(facts):
    """the private helper that consumes the response writer and prints a response: the unique
    Request method with &mut self that calls raw_print and is called by respond and Drop"""
    cands = []
    for k, f in facts.local_fns.items():
        if f.rec.get("impl_self_adt") == REQ and f.rec.get("impl_trait") is None:
            if f.call_blocks(lambda t: call_matches(t, r"raw_print$")) and not f.rec.get("vis_pub") \
                    and f.local_ty(1).startswith("&mut ") and f.local_ty(0).startswith("std::result::Result"):
                cands.append(f)
    if len(cands) != 1:
        raise CheckerError("cannot bind respond_impl role (%d candidates)" % len(cands))
    return cands[0]
