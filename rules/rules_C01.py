"""C01 — pipelined responses leave in request order and are never interleaved."""
import re
from core import *  # noqa
from roles import *  # noqa
import roles, shared, symex

EXPLANATION = (
    "Static shape argument over MIR (all schedules, all handler programs): the socket write half lives in one "
    "Arc<Mutex<..>> reachable only from SequentialWriterBuilder/SequentialWriter (field census); write/flush are "
    "the only lockers and every path to the lock passes the wait for the predecessor's token (must-pass-through); "
    "the token is sent only by the writer's Drop, on every path; the builder chains on_finish(k) to trigger(k+1) "
    "(symbolic provenance of the swap); writers cannot be duplicated (impl census); the connection code draws "
    "exactly one writer per parsed request in parse order; no frame waits for a token it alone can release "
    "(ownership dataflow + mono effect graph); respond_impl flushes before the writer is dropped.")
TRUSTED = ["rustc MIR construction / drop elaboration / trait resolution (nightly 1.97)",
           "std effect table (rules/effects_table.py)", "Rust move semantics",
           "BufWriter and the kernel preserve byte order"]


def RR_PRINT(facts):
    import request_rules as RR_
    RR_.rmodel(facts)
    return RR_.RAW_PRINT


def run(ctx):
    facts = ctx.facts
    roles.bind(facts)
    import turn_rules as T, parser_rules as PRS, inline, absint
    import queue_rules as Q
    WC = T.writer_chain(facts)
    seq_file = WC.file
    swb_next = WC.next
    swb_new = WC.ctor
    sw_drop = method(facts, T_DROP, SW, "drop")

    # ---- C01.1 who may touch the shared writer handle (the Arc<Mutex<W>> fields of the turn-taking types)
    sites = 0
    for adt in (SW, SWB):
        flds = [x["name"] for x in facts.adt(adt)["variants"][0]["fields"] if re.search(r"Arc<std::sync::Mutex<", x["ty"])]
        ctx.ob("C01.1", "%s|shared-handle" % adt, "the type refers to the socket write half through one Arc<Mutex<..>>", len(flds) == 1, facts.adt(adt)["file"])
        for fld in flds:
            for f, bb, kind in facts.field_reads(adt, fld):
                sites += 1
                ctx.touch(f)
                ok = f.file == seq_file
                ctx.ob("C01.1", "%s.%s|read|%s" % (adt, fld, f.id), "the Arc<Mutex<W>> write half is read only by the turn-taking module itself", ok, f.loc(bb), None if ok else "unexpected reader of the shared write half (%s)" % kind)
            for f, bb, kind, x in facts.field_writes(adt, fld):
                sites += 1
                ok = kind == "construct" and f.file == seq_file
                ctx.ob("C01.1", "%s.%s|%s|%s" % (adt, fld, kind, f.id), "the Arc<Mutex<W>> write half is initialised only when the builder or a writer is constructed, inside the turn-taking module", ok, f.loc(bb),
                       None if ok else "unexpected %s of the shared write half" % kind)
    ctx.floor("C01.1 sites", sites, 4)
    for k, f in sorted(facts.local_fns.items()):
        rty = f.local_ty(0)
        bad = "MutexGuard" in rty and ("BufWriter" in rty or re.search(r"MutexGuard<'_, W>", rty))
        if "MutexGuard" in rty:
            ctx.ob("C01.1", "guard-escape|%s" % f.id, "no function hands out a guard of the socket-writer mutex", not bad, "%s:%d" % (f.file, f.line))
    for aid, a in sorted(facts.adts.items()):
        for v in a["variants"]:
            for fl in v["fields"]:
                # a stored guard matters here only if it can be a guard of the socket writer's mutex (a guard of the request queue's
                # mutex kept in a helper struct has nothing to do with the order of responses)
                if "MutexGuard" in fl["ty"] and (a["file"] == seq_file or "BufWriter" in fl["ty"] or re.search(r"MutexGuard<'\w+, W>", fl["ty"])):
                    ctx.ob("C01.1", "guard-stored|%s.%s" % (aid, fl["name"]), "no type stores a guard of the socket writer's mutex", False, "%s:%d" % (a["file"], a["line"]))
    # only the turn-taking module locks that mutex
    for f, bb, t in facts.all_calls(lambda t: call_is(t, LOCK)):
        if re.search(r"BufWriter|SequentialWriter|Mutex<W>", " ".join(t.get("arg_tys") or [])):
            ctx.ob("C01.1", "lock-site|%s" % f.id, "the socket-writer mutex is locked only inside the turn-taking module", f.file == seq_file, f.loc(bb))

    # ---- C01.2 / C01.3 / C01.4 the chain itself, by symbolic evaluation of its API
    T.rule_writer_chain(ctx, "C01.2", "C01.3", "C01.4")

    # ---- C01.5 no duplication
    for adt in (SW, SWB, REQ):
        for tr in (T_CLONE, T_COPY):
            ctx.ob("C01.5", "noimpl|%s|%s" % (tr, adt), "writer-owning types cannot be duplicated", not facts.has_impl(tr, adt), adt)
    cons = facts.constructions(SW)
    ctx.require(cons, "C01.5: no construction of SequentialWriter found")
    for f, bb, s in cons:
        ctx.ob("C01.5", "construct|%s" % f.id, "writers are constructed only inside the turn-taking module (by the builder's draw)", f.file == seq_file, f.loc(bb))

    # ---- C01.6 one writer per parsed request, drawn in parse order by the connection thread
    PM = PRS.pmodel(facts)
    draws = facts.callers_of(swb_next.id)
    ctx.floor("C01.6 draw sites", len(draws), 2)
    for f, bb, t in draws:
        ctx.touch(f, calls=1)
        ctx.ob("C01.6", "draw|%s" % f.id, "writers are drawn only by the connection thread's parser", f.file == PM.file, f.loc(bb))
    rd = PM.rd
    nrc = [(bb, t) for bb, t in rd.calls() if call_matches(t, r"^request::new_request$")]
    dr = [bb for bb, t in rd.calls() if call_name(t) == swb_next.id]
    ok = len(nrc) == 1 and len(dr) == 1 and not rd.in_loop(dr[0]) and rd.dominates(dr[0], nrc[0][0], unwind=False)
    ctx.ob("C01.6", "draw-once|%s" % PM.read_def, "the head reader draws exactly one writer per request, outside any loop, before building the Request", ok, "%s:%d" % (rd.file, rd.line))
    if ok:
        # the drawn writer is the one handed to new_request: evaluate from the draw to the call
        t0 = rd.term(dr[0])
        st = symex.Sym(rd)
        DRAWN = ("sym", "drawn-writer")
        st.write_key(pl_key(t0["dest"]), ("some", DRAWN))
        ps = [p for p in absint.explore(rd, t0["target"], st, stop=lambda bb, t, s: "built" if bb == nrc[0][0] else None) if p.end[0] == "stop"]
        flows = bool(ps) and all(any(absint.contains(absint.deep(p.state, p.state.operand(a)), DRAWN) for a in rd.term(nrc[0][0])["args"]) for p in ps)
        ctx.ob("C01.6", "draw-flows|%s" % PM.read_def, "the drawn writer is the one handed to new_request", flows, rd.loc(nrc[0][0]))
    for f, bb, s in facts.constructions(SWB):
        ctx.ob("C01.6", "builder-construct|%s" % f.id, "the builder is constructed only by its constructor", f.file == seq_file, f.loc(bb))
    new_calls = facts.callers_of(swb_new.id)
    cc_ctor = sorted({g.id for g, bb, s in facts.constructions(CC)})
    for f, bb, t in new_calls:
        ctx.ob("C01.6", "builder-new|%s" % f.id, "one builder per connection: it is created once, where the ClientConnection is built", f.id in cc_ctor and not f.in_loop(bb), f.loc(bb))
    ctx.require(new_calls, "C01.6: the writer builder's constructor has no caller")

    # ---- C01.7 no self-deadlock (shared with C10.4)
    full = inline.inlined(facts, PM.cc_next.id, stop=lambda d: facts.fns[d].rec.get("local") and (not PM.same_file(d) or "{closure#" in d))
    n = shared.own_deadlock_sites(ctx, "C01.7", fns=[full])
    ctx.floor("C01.7 turn-waiting call sites in the parser", n, 3)

    # ---- C01.8 respond: raw_print -> flush -> writer dropped
    respond_rules(ctx, "C01.8")
    return {}


WRITER = ("sym", "the-response-writer")


def respond_rules(ctx, rule):
    """Request::respond with its private helpers spliced in, started with the response slot holding a writer:
    on every path on which the response was printed successfully the writer is flushed afterwards, and on every path the
    writer is destroyed before respond returns (which is what releases the next response)"""
    import inline, absint
    import queue_rules as Q
    facts = ctx.facts
    r0 = facts.fn("request::Request::respond")
    same = lambda d: facts.fns[d].rec.get("local") and facts.fns[d].file == r0.file
    f = inline.inlined(facts, r0.id, stop=lambda d: facts.fns[d].rec.get("local") and not same(d), extern_ok=Q.std_small)
    ctx.touch(f)
    where = "%s:%d" % (f.file, f.line)
    slot = shared.find_slot_paths(facts, REQ, r"Option<std::boxed::Box<.?dyn std::io::Write")
    ctx.require(len(slot) == 1, "%s: response-writer slot of Request" % rule)
    st = symex.Sym(f)
    st.write_key((1,) + tuple("." + x for x in slot[0]), ("some", WRITER))
    ps = [p for p in absint.explore(f, 0, st, max_paths=4000) if p.end[0] not in ("diverge", "resume", "terminate", "unreachable")]
    ctx.paths += len(ps)
    bad_flush, bad_drop, n_print = [], [], 0
    for p in ps:
        evs = p.events
        prints = [i for i, e in enumerate(evs) if e[1] == "call" and re.search(RR_PRINT(facts), e[2])]
        if not prints:
            continue
        n_print += 1
        # did the print succeed on this path?  (its Err makes respond return early)
        pr = evs[prints[0]]
        ok_print = True
        for bb, c in p.conds:
            if c and c[0] == "variant" and c[2] in ("Err", "Break") and absint.mentions_call(c[3], pr[4]):
                ok_print = False
        flushed = [i for i, e in enumerate(evs) if i > prints[0] and e[1] == "call" and ((e[6] or "") == "std::io::Write::flush" or re.search(r"Write>::flush$", e[2]))
                   and any(absint.contains(absint.deep(p.state, a), WRITER) or (d is not None and absint.contains(d, WRITER)) for a, d in zip(e[3], e[5]))]
        dropped = [i for i, e in enumerate(evs) if e[1] == "drop" and absint.contains(e[4], WRITER)]
        if ok_print and not flushed:
            bad_flush.append(Q._ret_str(p)[:60])
        if not dropped:
            bad_drop.append(Q._ret_str(p)[:60])
        elif ok_print and flushed and min(dropped) < flushed[0]:
            bad_drop.append("writer destroyed before the flush")
    ctx.ob(rule, "%s|prints" % r0.id, "respond prints the response into the request's writer", n_print > 0, where)
    ctx.ob(rule, "%s|flush-after-print" % r0.id, "after the response is printed the writer is flushed on every non-error path before returning", n_print > 0 and not bad_flush, where, None if not bad_flush else str(bad_flush[:3]))
    ctx.ob(rule, "%s|writer-dropped-here" % r0.id, "the writer taken out of the request is destroyed before respond returns on every path (normal and error), and after the flush", n_print > 0 and not bad_drop, where,
           None if not bad_drop else str(bad_drop[:3]))
