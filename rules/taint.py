"""TAINT-BOUND: client-declared lengths must not size an allocation unless bounded by a constant.

Interprocedural, field-sensitive, flow-insensitive-within-function taint over integer-carrying
values: sources are integer parses of client text; sinks are allocation-size operands."""
import re
from core import *  # noqa
from roles import *  # noqa

SOURCE = re.compile(r"(<(usize|u64|u32|u16|u8|isize|i64|i32) as std::str::FromStr>::from_str$|impl std::str::FromStr for (usize|u64|u32|u16|isize|i64|i32)>::from_str$|core::num::<impl (usize|u64|u32|isize|i64)>::from_str_radix$"
                    r"|core::str::<impl str>::parse::<(usize|u64|u32|isize|i64)>$)")
SINKS = [
    (re.compile(r"^std::vec::from_elem(::<.*>)?$"), 1),
    (re.compile(r"^std::vec::Vec::<T>::with_capacity$"), 0),
    (re.compile(r"^std::vec::Vec::<T, A>::(with_capacity_in|reserve|reserve_exact|resize|try_reserve|try_reserve_exact)$"), 1),
    (re.compile(r"^std::vec::Vec::<T>::(reserve|reserve_exact|resize)$"), 1),
    (re.compile(r"^std::string::String::(with_capacity)$"), 0),
    (re.compile(r"^std::string::String::(reserve|reserve_exact)$"), 1),
    (re.compile(r"^std::collections::VecDeque::<T>::with_capacity$"), 0),
    (re.compile(r"^std::io::BufReader::<R>::with_capacity$"), 0),
    (re.compile(r"^std::io::BufWriter::<W>::with_capacity$"), 0),
    (re.compile(r"^std::iter::repeat_n|std::iter::Iterator::take$"), 1),
]
INTISH = re.compile(r"\b(usize|u64|u32|u16|isize|i64|i32)\b")
COMPARE = {"Lt", "Le", "Gt", "Ge", "Eq", "Ne"}
MAX_BOUND = 1 << 20     # largest constant accepted as a buffer-sized bound (1 MiB)
MIN_CALL = re.compile(r"(std::cmp::min|std::cmp::Ord::min|::min)$")


class Taint:
    def __init__(self, facts, fns):
        self.facts = facts
        self.fns = fns                     # dict id -> Fn to analyse
        self.t = set()                     # (fn id, local)
        self.fields = set()                # (adt, field)
        self.ret = set()                   # fn ids returning tainted
        self.params = set()                # (fn id, param local)
        self.sources = []
        self.run()

    def intish(self, f, l):
        return bool(INTISH.search(f.local_ty(l)))

    def place_tainted(self, f, p):
        if (f.id, p["l"]) in self.t:
            return True
        for a, n in self.facts._place_base_adts(f, p):
            if (a, n) in self.fields:
                return True
        return False

    def op_tainted(self, f, o):
        p = op_place(o)
        return p is not None and self.place_tainted(f, p)

    def carrier(self, f, l):
        """a lazy iterator (or a reference to one): it hands what it was built over to whatever consumes it"""
        return bool(re.search(r"std::iter::\w+<.*\{closure@", f.local_ty(l)))

    def mark(self, f, l):
        if not self.intish(f, l) and not self.carrier(f, l):
            return False
        if (f.id, l) in self.t:
            return False
        self.t.add((f.id, l))
        return True

    def run(self):
        facts = self.facts
        for fid, f in self.fns.items():
            for bb, t in f.calls():
                if SOURCE.search(call_name(t)) or SOURCE.search(t.get("res_name") or ""):
                    if not t["dest"]["p"]:
                        self.t.add((fid, t["dest"]["l"]))
                        self.sources.append((f, bb))
        # any integer produced from the text of a header value (whatever parser is used): calls with an integer-carrying
        # result whose arguments derive from `Header.value`
        for fid, f in self.fns.items():
            for bb, t in f.calls():
                if t["dest"]["p"] or not self.intish(f, t["dest"]["l"]) or (fid, t["dest"]["l"]) in self.t:
                    continue
                if re.search(r"::(len|count|capacity|position|find|rfind)$", call_name(t)):
                    continue
                for a in t["args"]:
                    o = f.origin(a)
                    if any(x[0] == "field" and x[2] == "value" for x in origin_walk(o)) and any(
                            x[0] == "call" and re.search(r"(as_str|bytes|chars|as_bytes|deref)$", x[1]) for x in origin_walk(o)):
                        self.t.add((fid, t["dest"]["l"]))
                        self.sources.append((f, bb))
                        break
        # numbers reported by the chunk decoder (a dependency that parses the client's bytes: `remaining_chunks_size` is the size the
        # client announced for the current chunk): any integer-carrying result of a call into a non-std dependency on a value that wraps a reader
        for fid, f in self.fns.items():
            for bb, t in f.calls():
                n = call_name(t)
                if t["dest"]["p"] or not self.intish(f, t["dest"]["l"]) or (fid, t["dest"]["l"]) in self.t:
                    continue
                if n in facts.local_fns or re.match(r"^<?(std|core|alloc)::", n) or re.search(r"::(len|count|capacity|position|find|rfind)$", n):
                    continue
                if re.match(r"^<?chunked_transfer::", n) or (t.get("res_name") or "").startswith("chunked_transfer::"):
                    self.t.add((fid, t["dest"]["l"]))
                    self.sources.append((f, bb))
        changed = True
        rounds = 0
        while changed and rounds < 50:
            changed = False
            rounds += 1
            for fid, f in self.fns.items():
                for l in range(1, f.argc + 1):
                    if (fid, l) in self.params and self.mark(f, l):
                        changed = True
                for bb, i, s in f.assigns():
                    r = s["rhs"]
                    if r["rv"] == "binop" and r["op"] in COMPARE:
                        continue
                    srcs = [p for p, kind in rvalue_places(r)]
                    if not any(self.place_tainted(f, p) for p in srcs):
                        continue
                    lhs = s["lhs"]
                    if not lhs["p"]:
                        if self.mark(f, lhs["l"]):
                            changed = True
                    else:
                        chain = facts._place_base_adts(f, lhs)
                        if chain and chain[-1][0]:
                            if chain[-1] not in self.fields:
                                self.fields.add(chain[-1]); changed = True
                        elif self.mark(f, lhs["l"]):
                            changed = True
                    if r["rv"] == "agg" and r.get("agg") == "adt" and r.get("adt") in facts.adts:
                        for n, o in zip(r.get("fields") or [], r["ops"]):
                            if self.op_tainted(f, o) and (r["adt"], n) not in self.fields:
                                self.fields.add((r["adt"], n)); changed = True
                for bb, t in f.calls():
                    targs = [i for i, a in enumerate(t["args"]) if self.op_tainted(f, a)]
                    callee = t.get("res") if t.get("res") in self.fns else (t.get("callee") if t.get("callee") in self.fns else None)
                    dest = t["dest"]
                    res_tainted = False
                    if callee:
                        g = self.fns[callee]
                        for i in targs:
                            if (callee, i + 1) not in self.params:
                                self.params.add((callee, i + 1)); changed = True
                        if callee in self.ret:
                            res_tainted = True
                    else:
                        if targs:
                            res_tainted = True
                        # closure arguments whose body returns a tainted value
                        for a in t["args"]:
                            o = f.origin(a)
                            if o[0] == "agg" and o[1] in self.fns and o[1] in self.ret:
                                res_tainted = True
                    if res_tainted:
                        if not dest["p"]:
                            if self.mark(f, dest["l"]):
                                changed = True
                            elif not callee and (fid, dest["l"]) not in self.t and re.search(r"std::iter::|\{closure@", f.local_ty(dest["l"])):
                                # a lazy iterator over tainted items (`.map(|h| parse(h))`): it carries them to whatever consumes it
                                self.t.add((fid, dest["l"])); changed = True
                    if targs and not callee:
                        # a closure handed to an opaque callee together with a tainted value (the items of a tainted iterator, the payload of a
                        # tainted Option / Result) receives it as its argument
                        for a in t["args"]:
                            o = f.origin(a)
                            if o[0] == "agg" and o[1] in self.fns and "{closure" in str(o[1]):
                                cg = self.fns[o[1]]
                                for l_ in range(2, cg.argc + 1):
                                    if (o[1], l_) not in self.params:
                                        self.params.add((o[1], l_)); changed = True
                    if targs and not callee:
                        # a tainted value handed to an opaque callee together with a `&mut` place may be stored there
                        # (Option::get_or_insert, mem::replace, Vec::push ...)
                        for a in t["args"]:
                            al = op_local(a)
                            if al is None:
                                continue
                            d = f.single_def(al)
                            for _ in range(4):
                                if d and d[0] == "assign" and d[3]["rv"] == "ref" and d[3].get("mut"):
                                    tl = d[3]["pl"]["l"]
                                    if d[3]["pl"]["p"] and d[3]["pl"]["p"] == ["*"]:
                                        d = f.single_def(tl)     # reborrow `&mut *_x`
                                        continue
                                    if not d[3]["pl"]["p"] or all(isinstance(e, dict) and "n" in e for e in d[3]["pl"]["p"]):
                                        if not d[3]["pl"]["p"]:
                                            if self.mark(f, tl):
                                                changed = True
                                        else:
                                            chain = facts._place_base_adts(f, d[3]["pl"])
                                            if chain and chain[-1][0] and chain[-1] not in self.fields:
                                                self.fields.add(chain[-1]); changed = True
                                break
                # returns
                if (fid, 0) in self.t and fid not in self.ret:
                    self.ret.add(fid); changed = True


def sink_sites(f):
    for bb, t in f.calls():
        n = call_name(t)
        for r, idx in SINKS:
            if r.search(n) and idx < len(t["args"]):
                yield bb, t, idx
                break


def origin_eq(a, b, depth=0):
    """structural equality of origins, ignoring the block of pure calls"""
    if depth > 12 or a[0] != b[0]:
        return a == b
    k = a[0]
    if k == "call":
        return a[1] == b[1] and len(a[2]) == len(b[2]) and all(origin_eq(x, y, depth + 1) for x, y in zip(a[2], b[2]))
    if k in ("field", "downcast"):
        return a[2] == b[2] and origin_eq(a[1], b[1], depth + 1)
    if k in ("deref", "ref", "index"):
        return origin_eq(a[1], b[1], depth + 1)
    return a == b


def bounded_by_constant(f, bb, operand):
    """is the value `operand` used at block bb known to be <= some constant there?"""
    o = f.origin(operand)
    # min(n, K)
    for x in origin_walk(o):
        if x[0] == "call" and MIN_CALL.search(x[1]) and any(a[0] == "const" and isinstance(a[1], int) and a[1] <= MAX_BOUND for a in x[2]):
            return "min(.., %s)" % [a[1] for a in x[2] if a[0] == "const"][0]
    dom = f.dominators(False)
    for b in sorted(dom.get(bb, ())):
        bs = bool_switch(f, b)
        if not bs:
            continue
        c = f.origin(bs[0])
        if c[0] != "binop" or c[1] not in ("Lt", "Le", "Gt", "Ge"):
            continue
        l, r = c[2], c[3]
        if r[0] == "const" and isinstance(r[1], int) and origin_eq(l, o):
            upper_on_true = c[1] in ("Lt", "Le")
        elif l[0] == "const" and isinstance(l[1], int) and origin_eq(r, o):
            upper_on_true = c[1] in ("Gt", "Ge")
        else:
            continue
        edge = bs[1] if upper_on_true else bs[2]
        other = bs[2] if upper_on_true else bs[1]
        if edge != other and f.dominates(edge, bb, unwind=False):
            k = r[1] if r[0] == "const" else l[1]
            if k > MAX_BOUND:
                continue      # a "bound" of gigabytes does not bound anything in proportion to received data
            return "dominated by `n %s %s`" % ("<=" if c[1] in ("Le", "Ge") else "<", k)
    return None
