"""C20 — shutdown stops accepting but not answering; idle workers are reclaimed."""
import re, operator
from core import *  # noqa
from roles import *  # noqa
import roles, shared, symex, inline, absint
import queue_rules as Q
import pool_rules as PR
import server_rules as S

EXPLANATION = (
    "Ordering / ownership / structure decided on MIR (all time bounds are not), with the accept thread, the pool, its worker and its counters bound by "
    "role and every body analysed with its helpers and small std combinators spliced in: Server::drop sets the close flag before the self-connection that "
    "wakes the accept thread, attempts that connection on every path and, for a UNIX listener with a path, removes the socket path on every path (variant "
    "propagation from `the listener is UNIX / IP`); the accept loop re-reads the same flag before every accept and, on leaving, drops the listener and the "
    "pool it owns; the only shutdown(Both) is on the throw-away self-connection, connection sockets are closed only by their halves' destructor, so "
    "handed-out requests stay answerable; workers wait with a constant timeout exactly when more than the fixed minimum are alive and exit only after a "
    "timed-out wait with an empty queue; the pool's destructor raises the live counter above the minimum and wakes everyone; counters are otherwise "
    "stepped only in pairs (released on every exit incl. unwinding); threads are created only for the accept loop and by the pool.")
TRUSTED = ["rustc MIR / drop elaboration", "std atomics / Condvar semantics", "closing a listener makes the kernel refuse new connections"]

LADDR = "connection::ListenAddr"
ADDR = ("sym", "unix-address")
IPADDR = ("sym", "ip-address")


def static_value(facts, name):
    for s in facts.d["statics"]:
        if s["id"] == name:
            for b in s["mir"]["blocks"]:
                for st in b["stmts"]:
                    if st["s"] == "assign" and st["lhs"] == {"l": 0, "p": []} and st["rhs"]["rv"] == "use":
                        return op_const(st["rhs"]["op"])
    return None


def int_of_origin(facts, o):
    """integer behind an origin: a literal, an evaluated named constant, or a read of a local static"""
    for x in origin_walk(o):
        if x[0] == "const":
            if isinstance(x[1], int) and not isinstance(x[1], bool):
                return x[1]
    return None


def statics_read(f, o, facts):
    """value of a local static read somewhere in the origin (`*&STATIC`)"""
    vals = []
    for x in origin_walk(o):
        if x[0] == "const" and isinstance(x[2], str):
            for s in facts.d["statics"]:
                if s["id"] in x[2] or x[2].startswith("{alloc"):
                    pass
    return vals


def field_of_type(adt, rx):
    xs = [x["name"] for x in adt["variants"][0]["fields"] if re.search(rx, x["ty"])]
    return xs[0] if len(xs) == 1 else None


def run(ctx):
    facts = ctx.facts
    roles.bind(facts)
    P = PR.model(facts)
    SM = S.smodel(facts)
    srv = facts.adt(SERVER)
    close_f = field_of_type(srv, r"^std::sync::Arc<std::sync::atomic::Atomic(Bool|<bool>)>$")
    addr_f = field_of_type(srv, r"^connection::ListenAddr$")
    ctx.require(close_f and addr_f, "C20: the Server has no close flag / listening address field")

    # ---- C20.1 Server::drop
    d0 = method(facts, T_DROP, SERVER, "drop")
    f = inline.inlined(facts, d0.id, extern_ok=Q.std_small)
    ctx.touch(f)
    where = "%s:%d" % (f.file, f.line)
    stores = [bb for bb, t in f.calls() if call_matches(t, r"atomic::Atomic(::<bool>|Bool)::store$") and close_f in arg_origin_fields(f, t) and op_const(t["args"][1]) is True]
    connects = [bb for bb, t in f.calls() if call_matches(t, r"^std::net::TcpStream::connect|^std::os::unix::net::UnixStream::connect")]
    ctx.ob("C20.1", "%s|sets-close-flag" % d0.id, "dropping the server sets the close flag", len(stores) == 1, where)
    ok = bool(stores) and bool(connects) and all(f.dominates(stores[0], c, unwind=False) for c in connects)
    ctx.ob("C20.1", "%s|flag-before-wakeup" % d0.id, "the flag is set before the self-connection that wakes the accept thread (otherwise the thread would go back to accept)", ok, where)
    for c in connects:
        o = f.origin(f.term(c)["args"][0])
        # ... the stored address itself, not an address computed from parts of it (a rebuilt `loopback:port` is refused when the server is
        # bound to another interface, and the accept thread is never woken)
        rebuilt = [short(x[1]) for x in origin_calls(o) if not re.search(r"(as_pathname|unwrap|expect|deref|as_ref|borrow|clone|to_owned|as_path|Option::<T>::\w+|Result::<T, E>::\w+)$", x[1])]
        ctx.ob("C20.1", "%s|connects-to-own-address|%s" % (d0.id, "unix" if "unix" in call_name(f.term(c)) else "tcp"), "the wake-up connection targets the server's own listening address (the stored address itself)",
               addr_f in origin_fields(o) and not rebuilt, f.loc(c), None if not rebuilt else "address computed through %s" % rebuilt[:3])
    la = facts.adt(LADDR)
    for v in la["variants"]:
        kind = v["name"]
        st = symex.Sym(f)
        payload = ADDR if kind != "IP" else IPADDR
        st.write_key((1, "*", "." + addr_f), ("agg", LADDR, kind, {v["fields"][0]["name"] if v["fields"] else "0": payload}))
        paths = [p for p in absint.explore(f, 0, st) if p.end[0] == "return"]
        ctx.paths += len(paths)
        want = r"^std::os::unix::net::UnixStream::connect" if kind == "Unix" else r"^std::net::TcpStream::connect"
        bad = [p for p in paths if not any(re.search(want, e[2]) for e in p.calls())]
        ctx.ob("C20.1", "%s|always-wakes-accept-thread|%s" % (d0.id, kind), "a wake-up connection to the listening address is attempted on every path (%s listener)" % kind, bool(paths) and not bad, where,
               None if not bad else "a path returns without connecting")
        if kind == "Unix":
            # paths on which the address has a pathname must remove it
            bad = []
            n_named = 0
            for p in paths:
                pn = [e for e in p.calls() if re.search(r"SocketAddr::as_pathname$", e[2])]
                unnamed = any(c and c[0] == "variant" and c[2] == "None" and any(absint.contains(st_v, e[4]) for e in pn for st_v in [p.state.read_key(c[1])]) for bb, c in p.conds)
                named = bool(pn) and not any(c and c[0] == "variant" and c[2] == "None" for bb, c in p.conds)
                if named:
                    n_named += 1
                    if not any(re.search(r"^std::fs::remove_file", e[2]) for e in p.calls()):
                        bad.append("returns without remove_file")
            ctx.ob("C20.1", "%s|unix-path-removed-on-every-path" % d0.id, "for a UNIX listener the socket path is removed on every path through Server::drop (also when the wake-up connection fails)",
                   n_named > 0 and not bad, where, None if not bad and n_named else (str(bad[:2]) if bad else "no path found on which the address has a pathname"))
        else:
            bad = [p for p in paths if any(re.search(r"^std::fs::remove_file", e[2]) for e in p.calls())]
            ctx.ob("C20.1", "%s|no-file-removed-for-tcp" % d0.id, "nothing is removed from the file system for a TCP listener", not bad, where)

    # ---- C20.2 accept loop
    a = SM.a
    ctx.touch(a)
    accepts = a.call_blocks(lambda t: call_matches(t, r"connection::Listener::accept$"))
    loads = [(bb, t) for bb, t in a.calls() if call_matches(t, r"atomic::Atomic(::<bool>|Bool)::load$")]
    ctx.ob("C20.2", "accept-thread|shape", "the accept thread has one accept call and reads the close flag", len(accepts) == 1 and bool(loads), "%s:%d" % (a.file, a.line))
    if len(accepts) == 1 and loads:
        lb, lt = loads[0]
        bs = bool_switch(a, lt["target"])
        sb_ = lt["target"]
        if bs is None:
            # the branch on the flag may come later (the loaded value passed through `!`, `then(..)`, a helper): the first switch whose
            # scrutinee derives from this load
            for b2 in sorted(a.reach([lt["target"]], unwind=False)):
                bs2 = bool_switch(a, b2)
                if bs2 and any(x[0] == "call" and x[3] == lb for x in origin_walk(a.origin(bs2[0]))):
                    bs, sb_ = bs2, b2
                    break
        ctx.require(bs is not None, "C20.2: flag load is not branched on")
        cont = bs[2] if accepts[0] in a.reach([bs[2]], blocked={lb}, unwind=False) else bs[1]
        stop = bs[1] if cont == bs[2] else bs[2]
        o = a.origin(bs[0])
        neg = o[0] == "unop" and o[1] == "Not"
        cont_when_false = (cont == bs[2]) != neg
        # ... and the accept is made on the "not set" side of that branch (a flag read before a blocking accept but only looked at after it
        # returns is stale by then)
        ok = a.in_loop(lb) and a.dominates(lb, accepts[0], unwind=False) and cont_when_false and a.dominates(cont, accepts[0], unwind=False)
        ctx.ob("C20.2", "accept-thread|flag-checked-before-every-accept", "the accept loop tests the close flag before each accept and leaves when it is set", ok, a.loc(lb))
        r_ = a.reach([a.normal_target(accepts[0])], blocked={lb}, unwind=False)
        ctx.ob("C20.2", "accept-thread|no-accept-without-check", "no second accept happens without re-testing the flag", accepts[0] not in r_, a.loc(accepts[0]))
        # every way round in the accept thread passes the flag test: a second loop inside it (waiting for a free slot, retrying) that does
        # not look at the flag keeps the thread -- and with it the listening socket -- alive after the server was dropped
        blind = []
        for b2, t2 in a.calls():
            if a.blocks[b2]["cleanup"] or not a.in_loop(b2) or b2 == lb:
                continue
            tg = a.normal_target(b2)
            if tg is not None and b2 in a.reach([tg], blocked={lb}, unwind=False):
                blind.append("%s (%s)" % (short(call_name(t2)), a.loc(b2)))
        ctx.ob("C20.2", "accept-thread|every-cycle-tests-the-flag", "every loop of the accept thread re-tests the close flag on each round", not blind, a.loc(lb), None if not blind else str(blind[:3]))
        r_stop = a.reach([stop], unwind=False)
        ctx.ob("C20.2", "accept-thread|exit-returns", "once the flag is set the thread returns (without accepting again)", accepts[0] not in r_stop and any(x in r_stop for x in a.returns()), a.loc(stop))
        # the flag loaded is the clone of the server's close flag
        fl = SM.fl
        clos = [(bb, s) for bb, i, s in fl.assigns() if s["rhs"]["rv"] == "agg" and s["rhs"].get("closure") == SM.accept_def]
        ctx.require(len(clos) == 1, "C20.2: accept closure construction")
        cb, cs = clos[0]
        caps = dict(zip(cs["rhs"].get("fields") or [], cs["rhs"]["ops"]))
        of = a.origin(lt["args"][0])
        cap_name = sorted(origin_fields(of) & set(caps))
        okc = False
        if cap_name:
            oc = fl.origin(caps[cap_name[0]])
            srvc = [(bb, s) for bb, i, s in fl.assigns() if s["rhs"]["rv"] == "agg" and s["rhs"].get("adt") == SERVER]
            if srvc:
                r = srvc[0][1]["rhs"]
                oclose = fl.origin(r["ops"][r["fields"].index(close_f)])
                roots_c = {x[3] for x in origin_calls(oc) if re.search(r"Arc::<T>::new$", x[1])}
                roots_s = {x[3] for x in origin_calls(oclose) if re.search(r"Arc::<T>::new$", x[1])}
                loc_c = {x[1] for x in origin_walk(oc) if x[0] == "local"}
                loc_s = {x[1] for x in origin_walk(oclose) if x[0] == "local"}
                okc = bool(roots_c & roots_s) or bool(loc_c & loc_s)
        ctx.ob("C20.2", "accept-thread|same-flag", "the flag the accept thread reads is the one Server::drop sets", okc, fl.loc(cb))
        # listener and pool are owned by the thread and dropped when it returns
        own = {}
        for name, op in caps.items():
            own[name] = fl.local_ty(op_local(op)) if op_local(op) is not None else "?"
        def holds_listener(ty):
            ty = (ty or "").lstrip("&").replace("mut ", "")
            return "connection::Listener" in ty or (ty in facts.adts and bool(shared.find_slot_paths(facts, ty, r"connection::Listener")))
        has_listener = any(holds_listener(t) for t in own.values())
        pool_locals = [i for i, l in enumerate(a.locals) if l["ty"] == P.tp]
        pool_drops = [bb for bb, t in a.drops() if not t["pl"]["p"] and t["pl"]["l"] in pool_locals and not a.blocks[bb]["cleanup"]]
        lst_drops = [bb for bb, t in a.drops() if (holds_listener(t["ty"]) or (t["pl"]["l"] == 1 and not t["pl"]["p"])) and not a.blocks[bb]["cleanup"]]
        moved_out = [u for u in a.uses().get(1, []) if u[0] == "stmt" and u[4] == "move" and any(holds_listener(e.get("ty")) for e in u[3]["rhs"].get("op", {}).get("pl", {"p": []})["p"] if isinstance(e, dict))]
        if not lst_drops and not moved_out:
            # a by-value closure environment that is never moved out of is destroyed by the caller's
            # drop glue of the closure (FnOnce::call_once shim) when the body returns
            lst_drops = list(a.returns())
        r_ = a.reach([stop], blocked=set(pool_drops), unwind=False)
        okp = bool(pool_drops) and not any(x in r_ for x in a.returns())
        r2 = a.reach([stop], blocked=set(lst_drops), unwind=False)
        okl = has_listener and bool(lst_drops) and not any(x in r2 for x in a.returns())
        ctx.ob("C20.2", "accept-thread|pool-dropped-on-exit", "leaving the accept loop destroys the worker pool", okp, a.loc(stop))
        ctx.ob("C20.2", "accept-thread|listener-closed-on-exit", "leaving the accept loop destroys (closes) the listening socket, which the thread owns", okl, a.loc(stop), str(own))

    # ---- C20.3 handed-out requests stay answerable
    both = []
    for g, bb, t in facts.all_calls(lambda t: t.get("name") == "shutdown"):
        for x in t["args"]:
            o = g.origin(x)
            if o[0] == "agg" and o[1] == "std::net::Shutdown" and o[4] == "Both":
                both.append((g, bb))
    own = shared.server_drop_own_sites(facts)
    okb = bool(both) and all((g.id, bb) in own for g, bb in both)
    # and what it shuts down is the connection it has just opened to itself: on the abstract paths of drop, for either kind of listener
    n_sh = 0
    for v in la["variants"]:
        kind = v["name"]
        st = symex.Sym(f)
        payload = ADDR if kind != "IP" else IPADDR
        st.write_key((1, "*", "." + addr_f), ("agg", LADDR, kind, {v["fields"][0]["name"] if v["fields"] else "0": payload}))
        for p in absint.explore(f, 0, st, deep_events=True):
            for e in p.calls():
                if re.search(r"::shutdown$", e[2]) and len(e[3]) > 1:
                    how = absint.deep(p.state, e[3][1])
                    if how and how[0] == "agg" and how[2] == "Both":
                        n_sh += 1
                        recv = [absint.deep(p.state, e[3][0])] + ([e[8][0]] if len(e) > 8 and e[8] else []) + ([e[5][0]] if e[5] and e[5][0] is not None else [])
                        if not any(x and x[0] == "call" and re.search(r"^std::net::TcpStream::connect|^std::os::unix::net::UnixStream::connect", x[1]) for r_ in recv for x in absint.walk_terms(r_)):
                            okb = False
    okb = okb and n_sh > 0
    ctx.ob("C20.3", "shutdown-both-sites", "the only full shutdown is the one on Server::drop's throw-away self-connection", okb, d0.file, str([g.id for g, bb in both]))
    for key, g in ((d0.id, f), ("accept-thread", a)):
        has_writer = any(re.search(r"SequentialWriter<|BufWriter<", l["ty"]) for l in g.locals)
        ctx.ob("C20.3", "%s|owns-no-writer" % key, "neither Server::drop nor the accept thread owns a connection's write half", not has_writer, "%s:%d" % (g.file, g.line))
    ftys = " ".join(fl_["ty"] for v in srv["variants"] for fl_ in v["fields"])
    ctx.ob("C20.3", "Server|fields", "the Server holds only the close flag, the queue and its address (no sockets of connections)", not re.search(r"TcpStream|RefinedTcpStream|ClientConnection|JoinHandle", ftys), SERVER, ftys)

    # ---- C20.4 worker retirement
    w = P.w
    ctx.touch(w)
    timed = [bb for bb, t in w.calls() if call_is(t, CV_WAIT_T)]
    untimed = [bb for bb, t in w.calls() if call_is(t, CV_WAIT)]
    ctx.ob("C20.4", "worker|waits", "the worker has a timed wait (surplus workers) and an untimed one (the fixed minimum)", len(timed) == 1 and len(untimed) == 1, "%s:%d" % (w.file, w.line), "%d timed, %d untimed" % (len(timed), len(untimed)))
    MIN = None
    if len(timed) == 1 and len(untimed) == 1 and P.live_field:
        # decided by evaluation: with the live-worker counter reading n, which of the two waits does the worker reach first?  (however the
        # decision is spelled: a comparison in place, a helper returning a bool or an enum, a match on it)
        def first_waits(n):
            def on_call(bb, t, args, st2):
                if re.search(PR.ATOMIC_LOAD, call_name(t)) and args:
                    d = absint.deep(st2, args[0])
                    if any(x and x[0] == "field" and x[2] == P.live_field for x in absint.walk_terms(d)) or \
                            any(isinstance(seg, str) and seg == "." + P.live_field for x in absint.walk_terms(args[0]) if x and x[0] == "ref" for seg in x[1]):
                        return ("const", n, "%d_usize" % n, None)
                return None
            def stop(bb, t, st2):
                if t["t"] == "call" and call_is(t, CV_WAIT_T):
                    return "timed"
                if t["t"] == "call" and call_is(t, CV_WAIT):
                    return "untimed"
            kinds = set()
            periods = []
            for p in absint.explore(w, 0, None, on_call=on_call, stop=stop, max_visits=2, max_paths=6000):
                if p.end[0] == "stop":
                    kinds.add(p.end[2])
                    if p.end[2] == "timed":
                        t_ = w.term(p.blocks[-1])
                        periods.append(absint.deep(p.state, p.state.operand(t_["args"][2])))
            return kinds, periods
        table = {}
        all_periods = []
        for n in list(range(0, 13)) + [100, 999999999]:
            k_, pr_ = first_waits(n)
            table[n] = k_
            all_periods += pr_
        unt = [n for n, k_ in table.items() if k_ == {"untimed"}]
        tim = [n for n, k_ in table.items() if k_ == {"timed"}]
        ok = bool(unt) and bool(tim) and len(unt) + len(tim) == len(table) and max(unt) < min(tim) and max(unt) >= 1
        if ok:
            MIN = max(unt)
        detail = "waits reached first, by live count: %s" % {n: "/".join(sorted(k_)) or "none" for n, k_ in sorted(table.items())}
        ctx.counts["minimum workers"] = MIN if isinstance(MIN, int) else -1
        ctx.ob("C20.4", "worker|timed-wait-iff-above-minimum", "a worker waits with a timeout exactly when more than the fixed minimum (%s) of workers exist, and indefinitely otherwise" % MIN, ok, w.loc(timed[0]), None if ok else detail)
        varies = [symex.sym_str(x)[:80] for x in all_periods if not (x and x[0] in ("dur", "const") or (x and x[0] == "call" and re.search(r"Duration::from_(millis|secs|micros|nanos)$|Duration::new$", x[1]) and all(absint.const_of(a) is not None for a in x[2])))]
        ctx.ob("C20.4", "worker|idle-period-constant", "the idle period is a constant", bool(all_periods) and not varies, w.loc(timed[0]), None if not varies else str(varies[:2]))
    td = P.drop
    ctx.ob("C20.4", "pool|has-destructor", "the pool has a destructor that retires its workers", td is not None, P.tp)
    if td is not None and isinstance(MIN, int):
        td = inline.inlined(facts, td.id, extern_ok=Q.std_small)       # with the private helpers it stores / notifies through
        ctx.touch(td)
        st = [(bb, t2) for bb, t2 in td.calls() if call_matches(t2, r"atomic::Atomic(::<usize>|Usize)::store$") and P.counter_of(td, td.origin(t2["args"][0])) == P.live_field]
        na = [bb for bb, t2 in td.calls() if call_is(t2, "std::sync::Condvar::notify_all")]
        def stored(t2):
            o_ = td.origin(t2["args"][1])
            return o_[1] if o_[0] == "const" and isinstance(o_[1], int) and not isinstance(o_[1], bool) else None
        ok = len(st) == 1 and stored(st[0][1]) is not None and stored(st[0][1]) > MIN and bool(na) and td.dominates(st[0][0], na[0], unwind=False)
        ctx.ob("C20.4", "pool-drop|retires-everyone", "dropping the pool raises the live counter above the minimum, then wakes every parked worker (so each re-evaluates and takes the timed branch)", ok, "%s:%d" % (td.file, td.line))
    # a dispatch wakes ONE worker: waking all of them restarts the idle period of every worker that finds nothing to do
    for g2, bb2, t2 in facts.all_calls(lambda t2: call_is(t2, "std::sync::Condvar::notify_all")):
        if g2.file == P.file:
            okn = td is not None and shared.private_to(facts, P.drop.id, g2.id)
            ctx.ob("C20.4", "notify_all|%s" % g2.id, "only the pool's destructor wakes all workers; dispatching a connection wakes one", okn, g2.loc(bb2),
                   None if okn else "every dispatch wakes every idle worker, each of which then starts a fresh idle period: with one connection per idle period no surplus worker ever retires")
    PR.rule_counter_discipline(ctx, "C20.4")
    incs, decs, _ = P.counter_events(w)
    live_incs = [bb for bb, c, h in incs if c == P.live_field]
    ctx.ob("C20.4", "worker|counted-once", "a worker is counted alive exactly once, from its start", len(live_incs) == 1 and not w.in_loop(live_incs[0]), "%s:%d" % (w.file, w.line))
    PR.rule_worker_loop(ctx, "C20.4")

    # ---- C20.5 thread creation sites
    sites = [(g, bb) for g, bb, t2 in facts.all_calls(lambda t2: call_matches(t2, r"^std::thread::(spawn|Builder::spawn\w*|scope)"))]
    ctx.floor("C20.5 thread creation sites", len(sites), 2)
    in_fl = {(SM.fl.src_of(b), SM.fl.blocks[b].get("obb")) for b in range(SM.fl.n) if not SM.fl.blocks[b].get("synthetic")}
    for g, bb in sites:
        ok = g.file == P.file or (g.id, bb) in in_fl
        ctx.ob("C20.5", "thread-spawn|%s" % g.id, "threads are created only for the accept loop and by the worker pool (never per request)", ok and not g.in_loop(bb), g.loc(bb))
    # who starts workers: the pool's constructor (the fixed minimum) and dispatch (no idle worker)
    spawners = {g.id for g, bb in sites if g.file == P.file}
    for sid in sorted(spawners):
        for g, bb, t2 in facts.callers_of(sid):
            ok = g.file == P.file
            ctx.ob("C20.5", "worker-start-caller|%s" % g.id, "workers are started only by the pool's own code", ok, g.loc(bb))
    if P.f_ctor is not None and isinstance(MIN, int):
        fc = P.f_ctor
        rng = [(bb, s) for bb, i, s in fc.assigns() if s["rhs"]["rv"] == "agg" and str(s["rhs"].get("adt", "")).endswith("ops::Range")]
        ok = False
        if rng:
            r = rng[0][1]["rhs"]
            ostart, oend = fc.origin(r["ops"][0]), fc.origin(r["ops"][1])
            end = int_of_origin(facts, oend)
            if end is None:
                sts = [st["rhs"]["op"].get("static") for blk in fc.blocks for st in blk["stmts"] if st["s"] == "assign" and st["rhs"]["rv"] == "use" and st["rhs"]["op"].get("static")]
                vals = [static_value(facts, s) for s in sts]
                end = vals[0] if len(vals) == 1 else None
            ok = ostart[0] == "const" and ostart[1] == 0 and end == MIN
        calls = [bb for bb, t2 in fc.calls() if call_matches(t2, PR.THREAD_SPAWN)]
        ok = ok and len(calls) == 1 and fc.in_loop(calls[0])
        ctx.ob("C20.5", "%s|starts-min-threads" % P.ctor.id, "a new pool starts exactly the fixed minimum of workers", ok, "%s:%d" % (fc.file, fc.line))
    return {}
