"""C20 — shutdown stops accepting but not answering; idle workers are reclaimed."""
import re
from core import *  # noqa
from roles import *  # noqa
import roles, shared, symex

EXPLANATION = (
    "Ordering / ownership / structure decided on MIR (all time bounds are not): Server::drop sets the close flag before the self-connection that "
    "wakes the accept thread, attempts that connection on every path and removes the UNIX socket path; the accept loop re-reads the same flag before "
    "every accept and, on leaving, drops the listener and the pool it owns; the only shutdown(Both) is on the throw-away self-connection, connection "
    "sockets are closed only by their halves' destructor, so handed-out requests stay answerable; workers wait with the 5 s timeout exactly when more "
    "than MIN_THREADS (4) are active and exit only after a timed-out wait with an empty queue; the pool's destructor raises active_tasks above "
    "MIN_THREADS and wakes everyone; active_tasks is otherwise changed only by the per-thread registration guard (dropped on every exit incl. unwinding); "
    "threads are created only for the accept loop and by the pool.")
TRUSTED = ["rustc MIR / drop elaboration", "std atomics / Condvar semantics", "closing a listener makes the kernel refuse new connections"]


def static_value(facts, name):
    for s in facts.d["statics"]:
        if s["id"] == name:
            for b in s["mir"]["blocks"]:
                for st in b["stmts"]:
                    if st["s"] == "assign" and st["lhs"] == {"l": 0, "p": []} and st["rhs"]["rv"] == "use":
                        return op_const(st["rhs"]["op"])
    return None


def const_or_static(facts, f, o):
    """integer value of an origin that is a literal or a read of a local static"""
    for x in origin_walk(o):
        if x[0] == "const" and isinstance(x[1], int) and not isinstance(x[1], bool):
            return x[1]
    return None


def run(ctx):
    facts = ctx.facts
    roles.bind(facts)
    MIN = static_value(facts, "util::task_pool::MIN_THREADS")
    ctx.require(isinstance(MIN, int), "C20: static MIN_THREADS not found")
    ctx.counts["MIN_THREADS"] = MIN

    # ---- C20.1 Server::drop
    f = method(facts, T_DROP, SERVER, "drop")
    ctx.touch(f)
    stores = [bb for bb, t in f.calls() if call_matches(t, r"atomic::Atomic(::<bool>|Bool)::store$") and "close" in arg_origin_fields(f, t) and op_const(t["args"][1]) is True]
    connects = [bb for bb, t in f.calls() if call_matches(t, r"^std::net::TcpStream::connect|^std::os::unix::net::UnixStream::connect")]
    ctx.ob("C20.1", "%s|sets-close-flag" % f.id, "dropping the server sets the close flag", len(stores) == 1, "%s:%d" % (f.file, f.line))
    ok = bool(stores) and bool(connects) and all(f.dominates(stores[0], c, unwind=False) for c in connects)
    ctx.ob("C20.1", "%s|flag-before-wakeup" % f.id, "the flag is set before the self-connection that wakes the accept thread (otherwise the thread would go back to accept)", ok, "%s:%d" % (f.file, f.line))
    reach = f.reach([0], blocked=set(connects), unwind=False)
    unwraps = set(f.call_blocks(lambda t: call_matches(t, r"Option::<T>::unwrap$")))
    ok = bool(connects) and not any(r in reach for r in f.returns())
    ctx.paths += 1
    ctx.ob("C20.1", "%s|always-wakes-accept-thread" % f.id, "a wake-up connection to the listening address is attempted on every path (TCP and UNIX)", ok, "%s:%d" % (f.file, f.line))
    # connects go to the server's own address
    for c in connects:
        o = f.origin(f.term(c)["args"][0])
        ctx.ob("C20.1", "%s|connects-to-own-address|%s" % (f.id, "unix" if "unix" in call_name(f.term(c)) else "tcp"), "the wake-up connection targets the server's own listening address", "listening_addr" in origin_fields(o), f.loc(c))
    # UNIX: the socket path is removed on every normal path (the only ways around it: a TCP listener, an unnamed address)
    rm0 = set(bb for bb, t in f.calls() if call_matches(t, r"^std::fs::remove_file"))
    skip = set()
    for bb in sorted(f.live_blocks()):
        sw = switch_on_discr(f, bb)
        if not sw or f.blocks[bb]["cleanup"]:
            continue
        rv, m, otherwise, rest = sw
        if rv.get("adt") == "connection::ListenAddr":
            ipt = m.get("IP", otherwise if "IP" in rest else None)
            # only the *last* test of the listener kind may be skipped through its IP arm: an IP arm that later
            # joins the Unix path again does not excuse anything; so block IP arms from which no further ListenAddr test is reachable
            if ipt is not None:
                later = [b2 for b2 in f.reach([ipt], unwind=False) if b2 != bb and switch_on_discr(f, b2) and switch_on_discr(f, b2)[0].get("adt") == "connection::ListenAddr"]
                if not later:
                    skip.add(ipt)
        if rv.get("adt") == "std::option::Option" and origin_has_call(f.origin_place(rv["pl"]), r"as_pathname$"):
            nt = m.get("None", otherwise if "None" in rest else None)
            if nt is not None:
                skip.add(nt)
    r_all = f.reach([0], blocked=rm0 | skip, unwind=False)
    ok_all = bool(rm0) and not any(x in r_all for x in f.returns())
    ctx.paths += 1
    ctx.ob("C20.1", "%s|unix-path-removed-on-every-path" % f.id, "for a UNIX listener the socket path is removed on every path through Server::drop (also when the wake-up connection fails)",
           ok_all, "%s:%d" % (f.file, f.line), None if ok_all else "a path reaches `return` without remove_file: %s" % f.path([0], f.returns(), blocked=rm0 | skip, unwind=False))
    # UNIX: remove_file on every normal path of the Unix arm
    rm = [bb for bb, t in f.calls() if call_matches(t, r"^std::fs::remove_file")]
    okrm = False
    for bb in sorted(f.live_blocks()):
        sw = switch_on_discr(f, bb)
        if sw and sw[0].get("adt") == "connection::ListenAddr" and rm and f.dominates(bb, rm[0], unwind=False):
            rv, m, otherwise, rest = sw
            ut = m.get("Unix", otherwise if "Unix" in rest else None)
            if ut is not None and rm[0] in f.reach([ut], unwind=False):
                # the only way around remove_file on the Unix arm is an unnamed address (as_pathname() == None)
                r_ = f.reach([ut], blocked=set(rm), unwind=False)
                escapes = [x for x in f.returns() if x in r_]
                guarded = True
                if escapes:
                    guarded = False
                    for b2 in r_:
                        s2 = switch_on_discr(f, b2)
                        if s2 and origin_has_call(f.origin_place(s2[0]["pl"]), r"as_pathname$"):
                            guarded = True
                okrm = guarded
    ctx.ob("C20.1", "%s|removes-unix-path" % f.id, "for a UNIX listener the socket path is removed (whenever the address has a path)", okrm, "%s:%d" % (f.file, f.line))

    # ---- C20.2 accept loop
    acc = facts.find_fns(r"^Server::from_listener::\{closure#0\}$")
    ctx.require(len(acc) == 1, "C20.2: accept thread closure")
    a = acc[0]
    ctx.touch(a)
    accepts = a.call_blocks(lambda t: call_matches(t, r"connection::Listener::accept$"))
    loads = [(bb, t) for bb, t in a.calls() if call_matches(t, r"atomic::Atomic(::<bool>|Bool)::load$")]
    ctx.require(len(accepts) == 1 and loads, "C20.2: accept/load not found")
    lb, lt = loads[0]
    bs = bool_switch(a, lt["target"])
    ctx.require(bs is not None, "C20.2: flag load is not branched on")
    # which edge continues to accept?
    cont = bs[2] if accepts[0] in a.reach([bs[2]], blocked={lb}, unwind=False) else bs[1]
    stop = bs[1] if cont == bs[2] else bs[2]
    o = a.origin(bs[0])
    neg = o[0] == "unop" and o[1] == "Not"
    # `while !flag`: continue when flag is false
    cont_when_false = (cont == bs[2]) != neg
    ok = a.in_loop(lb) and a.dominates(lb, accepts[0], unwind=False) and cont_when_false
    ctx.ob("C20.2", "%s|flag-checked-before-every-accept" % a.id, "the accept loop tests the close flag before each accept and leaves when it is set", ok, a.loc(lb))
    # from accept's return, the only way back to accept passes the load again
    r_ = a.reach([a.normal_target(accepts[0])], blocked={lb}, unwind=False)
    ctx.ob("C20.2", "%s|no-accept-without-check" % a.id, "no second accept happens without re-testing the flag", accepts[0] not in r_, a.loc(accepts[0]))
    r_stop = a.reach([stop], unwind=False)
    ctx.ob("C20.2", "%s|exit-returns" % a.id, "once the flag is set the thread returns (without accepting again)", accepts[0] not in r_stop and any(x in r_stop for x in a.returns()), a.loc(stop))
    # the flag loaded is the clone of the server's close flag
    fl = facts.fn("Server::from_listener")
    clos = [(bb, s) for bb, i, s in fl.assigns() if s["rhs"]["rv"] == "agg" and s["rhs"].get("closure") == a.id]
    ctx.require(len(clos) == 1, "C20.2: accept closure construction")
    cb, cs = clos[0]
    caps = dict(zip(cs["rhs"].get("fields") or [], cs["rhs"]["ops"]))
    of = a.origin(lt["args"][0])
    cap_name = sorted(origin_fields(of) & set(caps))
    okc = False
    if cap_name:
        oc = fl.origin(caps[cap_name[0]])
        srv = [(bb, s) for g, bb, s in facts.constructions(SERVER) if g.id == fl.id]
        if srv:
            r = srv[0][1]["rhs"]
            oclose = fl.origin(r["ops"][r["fields"].index("close")])
            # both derive from the same Arc::new(AtomicBool::new(false))
            roots_c = {x[3] for x in origin_calls(oc) if re.search(r"Arc::<T>::new$", x[1])}
            roots_s = {x[3] for x in origin_calls(oclose) if re.search(r"Arc::<T>::new$", x[1])}
            loc_c = {x[1] for x in origin_walk(oc) if x[0] == "local"}
            loc_s = {x[1] for x in origin_walk(oclose) if x[0] == "local"}
            okc = bool(roots_c & roots_s) or bool(loc_c & loc_s) or (origin_has_call(oc, r"Clone>?::clone$") and bool({y[3] for x in origin_calls(oc) for y in origin_calls(x[2][0] if x[2] else ("unknown",)) if re.search(r"Arc::<T>::new$", y[1])} & roots_s))
    ctx.ob("C20.2", "%s|same-flag" % a.id, "the flag the accept thread reads is the one Server::drop sets", okc, fl.loc(cb))
    # listener and pool are owned by the closure and dropped when it returns
    own = {}
    for name, op in caps.items():
        own[name] = fl.local_ty(op_local(op)) if op_local(op) is not None else "?"
    has_listener = any("connection::Listener" in t for t in own.values())
    pool_locals = [i for i, l in enumerate(a.locals) if l["ty"] == "util::task_pool::TaskPool"]
    pool_drops = [bb for bb, t in a.drops() if not t["pl"]["p"] and t["pl"]["l"] in pool_locals and not a.blocks[bb]["cleanup"]]
    lst_drops = [bb for bb, t in a.drops() if ("connection::Listener" in t["ty"] or (t["pl"]["l"] == 1 and not t["pl"]["p"])) and not a.blocks[bb]["cleanup"]]
    moved_out = [u for u in a.uses().get(1, []) if u[0] == "stmt" and u[4] == "move" and "server" in pl_fields(u[3]["rhs"].get("op", {}).get("pl", {"p": []}))]
    if not lst_drops and not moved_out:
        # a by-value closure environment that is never moved out of is destroyed by the caller's
        # drop glue of the closure (FnOnce::call_once shim) when the body returns
        lst_drops = list(a.returns())
    r_ = a.reach([stop], blocked=set(pool_drops), unwind=False)
    okp = bool(pool_drops) and not any(x in r_ for x in a.returns())
    r2 = a.reach([stop], blocked=set(lst_drops), unwind=False)
    okl = has_listener and bool(lst_drops) and not any(x in r2 for x in a.returns())
    ctx.ob("C20.2", "%s|pool-dropped-on-exit" % a.id, "leaving the accept loop destroys the worker pool", okp, a.loc(stop))
    ctx.ob("C20.2", "%s|listener-closed-on-exit" % a.id, "leaving the accept loop destroys (closes) the listening socket, which the thread owns", okl, a.loc(stop), str(own))

    # ---- C20.3 handed-out requests stay answerable
    both = []
    for g, bb, t in facts.all_calls(lambda t: t.get("name") == "shutdown"):
        for x in t["args"]:
            o = g.origin(x)
            if o[0] == "agg" and o[1] == "std::net::Shutdown" and o[4] == "Both":
                both.append((g, bb))
    ctx.ob("C20.3", "shutdown-both-sites", "the only full shutdown is the one on Server::drop's throw-away self-connection", [g.id for g, bb in both] == [f.id], f.file, str([g.id for g, bb in both]))
    for g in (f, a):
        tys = " ".join(l["ty"] for l in g.locals)
        ok = "SequentialWriter<" not in tys and "request::Request" not in tys.replace("request::Request>", "") or g.id == a.id
        has_writer = any(re.search(r"SequentialWriter<|BufWriter<", l["ty"]) for l in g.locals)
        ctx.ob("C20.3", "%s|owns-no-writer" % g.id, "neither Server::drop nor the accept thread owns a connection's write half", not has_writer, "%s:%d" % (g.file, g.line))
    srv = facts.adt(SERVER)
    ftys = " ".join(fl_["ty"] for v in srv["variants"] for fl_ in v["fields"])
    ctx.ob("C20.3", "Server|fields", "the Server holds only the close flag, the queue and its address (no sockets of connections)", not re.search(r"TcpStream|RefinedTcpStream|ClientConnection|JoinHandle", ftys), SERVER, ftys)

    # ---- C20.4 worker retirement
    w = facts.find_fns(r"^util::task_pool::TaskPool::add_thread::\{closure#0\}$")[0]
    ctx.touch(w)
    timed = [bb for bb, t in w.calls() if call_is(t, CV_WAIT_T)]
    untimed = [bb for bb, t in w.calls() if call_is(t, CV_WAIT)]
    ctx.require(len(timed) == 1 and len(untimed) == 1, "C20.4: worker waits (%d timed, %d untimed)" % (len(timed), len(untimed)))
    dom = w.dominators(False)
    dec = None
    for b in sorted(dom[timed[0]] & dom[untimed[0]], key=lambda b: -len(dom[b])):
        bs2 = bool_switch(w, b)
        if bs2:
            dec = (b, bs2)
            break
    ctx.require(dec is not None, "C20.4: decision between timed and untimed wait")
    b, bs2 = dec
    o = w.origin(bs2[0])
    ok = False
    detail = origin_str(o)
    if o[0] == "binop" and o[1] in ("Le", "Lt", "Gt", "Ge"):
        l, r = o[2], o[3]
        lhs_active = origin_has_call(l, r"atomic::Atomic(::<usize>|Usize)::load$") and "active_tasks" in origin_fields(l)
        rhs_active = origin_has_call(r, r"atomic::Atomic(::<usize>|Usize)::load$") and "active_tasks" in origin_fields(r)
        other = r if lhs_active else l
        is_min = any(x[0] == "const" and x[2].find("alloc") >= 0 for x in origin_walk(other)) or const_or_static(facts, w, other) == MIN
        statics = [s.get("static") for blk in w.blocks for st in blk["stmts"] if st["s"] == "assign" and st["rhs"]["rv"] == "use" for s in [st["rhs"]["op"]] if s.get("static")]
        is_min = is_min and ("util::task_pool::MIN_THREADS" in statics or const_or_static(facts, w, other) == MIN)
        import operator
        ops = {"Le": operator.le, "Lt": operator.lt, "Gt": operator.gt, "Ge": operator.ge}
        bad = []
        if (lhs_active or rhs_active) and is_min:
            for n in (0, 1, MIN - 1, MIN, MIN + 1, MIN + 2, 100, 999999999):
                val = ops[o[1]](n, MIN) if lhs_active else ops[o[1]](MIN, n)
                goes_timed = (bs2[1] if val else bs2[2])
                is_timed = timed[0] in w.reach([goes_timed], blocked={b}, unwind=False) and untimed[0] not in w.reach([goes_timed], blocked={b}, unwind=False)
                if is_timed != (n > MIN):
                    bad.append(n)
            ok = not bad
            detail += " mismatching active counts: %s" % bad
    ctx.ob("C20.4", "%s|timed-wait-iff-above-minimum" % w.id, "a worker waits with a timeout exactly when more than MIN_THREADS (%d) workers exist, and indefinitely otherwise" % MIN, ok, w.loc(b), detail)
    t = w.term(timed[0])
    od = w.origin(t["args"][2])
    ms = [x for x in origin_calls(od) if re.search(r"Duration::from_millis$", x[1])]
    ctx.ob("C20.4", "%s|idle-period-5s" % w.id, "the idle period is 5000 ms", bool(ms) and ms[0][2][0][0] == "const" and ms[0][2][0][1] == 5000, w.loc(timed[0]), origin_str(od))
    td = method(facts, T_DROP, TP, "drop")
    ctx.touch(td)
    st = [(bb, t2) for bb, t2 in td.calls() if call_matches(t2, r"atomic::Atomic(::<usize>|Usize)::store$") and "active_tasks" in arg_origin_fields(td, t2)]
    na = [bb for bb, t2 in td.calls() if call_is(t2, "std::sync::Condvar::notify_all")]
    ok = len(st) == 1 and isinstance(op_const(st[0][1]["args"][1]), int) and op_const(st[0][1]["args"][1]) > MIN and bool(na) and td.dominates(st[0][0], na[0], unwind=False)
    ctx.ob("C20.4", "%s|pool-drop-retires-everyone" % td.id, "dropping the pool raises active_tasks above the minimum, then wakes every parked worker (so each re-evaluates and takes the timed branch)", ok, "%s:%d" % (td.file, td.line))
    # a dispatch wakes ONE worker: waking all of them restarts the idle period of every worker that finds nothing to do, so
    # under light steady traffic surplus workers never reach their idle timeout
    spawn_ = roles.inherent(facts, TP, "spawn")
    for g2, bb2, t2 in facts.all_calls(lambda t2: call_is(t2, "std::sync::Condvar::notify_all")):
        if g2.rec.get("impl_self_adt") == TP or g2.id.startswith("util::task_pool::"):
            ctx.ob("C20.4", "notify_all|%s" % g2.id, "only the pool's destructor wakes all workers; dispatching a connection wakes one", g2.id == td.id, g2.loc(bb2),
                   None if g2.id == td.id else "every dispatch wakes every idle worker, each of which then starts a fresh 5 s wait: with one connection per idle period no surplus worker ever retires")
    # active_tasks writers
    shared.pool_counter_discipline(ctx, "C20.4")
    # the active guard lives for the whole worker: created before the first task, dropped on every exit including unwinding
    reg_new = roles.inherent(facts, REG, "new")
    regs = [(bb, t2) for bb, t2 in w.calls() if call_is(t2, reg_new.id)]
    act = [(bb, t2) for bb, t2 in regs if "active_tasks" in arg_origin_fields(w, t2)]
    ctx.require(len(act) == 1, "C20.4: active-thread registration in the worker")
    gl = act[0][1]["dest"]["l"]
    gd = {bb for bb, t2 in w.drops() if not t2["pl"]["p"] and t2["pl"]["l"] == gl}
    r_ = w.reach([w.normal_target(act[0][0])], blocked=gd, unwind=True)
    exits = [x for x in r_ if w.term(x)["t"] in ("return", "resume")]
    ok = not exits and not w.in_loop(act[0][0])
    ctx.ob("C20.4", "%s|active-count-released-on-every-exit" % w.id, "a worker is counted from its start until it exits, on every exit including a panicking task", ok, w.loc(act[0][0]))

    # ---- C20.5 thread creation sites
    add_thread = roles.inherent(facts, TP, "add_thread")
    spawn = roles.inherent(facts, TP, "spawn")
    tpnew = roles.inherent(facts, TP, "new")
    sites = [(g, bb) for g, bb, t2 in facts.all_calls(lambda t2: call_matches(t2, r"^std::thread::(spawn|Builder::spawn\w*|scope)"))]
    ctx.floor("C20.5 thread creation sites", len(sites), 2)
    for g, bb in sites:
        ok = g.id in (fl.id, add_thread.id)
        ctx.ob("C20.5", "thread-spawn|%s" % g.id, "threads are created only for the accept loop and by the worker pool (never per request)", ok and not g.in_loop(bb), g.loc(bb))
    for g, bb, t2 in facts.callers_of(add_thread.id):
        ok = g.id in (tpnew.id, spawn.id)
        ctx.ob("C20.5", "add_thread-caller|%s" % g.id, "workers are added only when the pool is created and by spawn's no-idle-worker branch", ok, g.loc(bb))
    # TaskPool::new starts exactly MIN_THREADS workers: loop over 0..MIN_THREADS
    rng = [(bb, s) for bb, i, s in tpnew.assigns() if s["rhs"]["rv"] == "agg" and str(s["rhs"].get("adt", "")).endswith("ops::Range")]
    ok = False
    if rng:
        r = rng[0][1]["rhs"]
        ostart, oend = tpnew.origin(r["ops"][0]), tpnew.origin(r["ops"][1])
        statics = [st["rhs"]["op"].get("static") for blk in tpnew.blocks for st in blk["stmts"] if st["s"] == "assign" and st["rhs"]["rv"] == "use" and st["rhs"]["op"].get("static")]
        ok = ostart[0] == "const" and ostart[1] == 0 and "util::task_pool::MIN_THREADS" in statics
    calls = tpnew.call_blocks(lambda t2: call_is(t2, add_thread.id))
    ok = ok and len(calls) == 1 and tpnew.in_loop(calls[0])
    ctx.ob("C20.5", "%s|starts-min-threads" % tpnew.id, "a new pool starts MIN_THREADS workers", ok, "%s:%d" % (tpnew.file, tpnew.line))
    return {}
