"""C19 — response header policy: protected names, one Content-Type, automatic Date/Server."""
import re, itertools
from core import *  # noqa
from roles import *  # noqa
import roles, shared, symex

EXPLANATION = (
    "Decision-table extraction, field-write census and provenance on MIR: add_header is walked for every header-name class x parse outcome x "
    "existing-Content-Type case and compared with DESIGN A.6 (protected names dropped, Content-Length only sets the declared length, later "
    "Content-Type replaces, everything else appended once); Response.headers is written only by new (empty vector), add_header and raw_print's "
    "automatic headers; the constructor's header list flows only through add_header; Date/Server are inserted iff absent, once; the convenience "
    "constructors declare the byte length of the very value they wrap; serialisation writes each stored header once, in order.")
TRUSTED = ["rustc MIR", "HeaderField::equiv is ASCII-case-insensitive equality (checked structurally)", "httpdate formats a valid HTTP-date"]

PROTECTED = ["Connection", "Trailer", "Transfer-Encoding", "Upgrade"]


def run(ctx):
    facts = ctx.facts
    roles.bind(facts)
    f = add_header = roles.inherent(facts, RESP, "add_header")
    rnew = roles.inherent(facts, RESP, "new")
    raw_print = roles.inherent(facts, RESP, "raw_print")
    ctx.touch(f)

    # ---- C19.1 decision table of add_header
    atoms = {}
    for bb, t in f.calls():
        if call_matches(t, r"common::HeaderField::equiv$") and t.get("target") is not None:
            lits = [c for c in arg_consts(f, t) if isinstance(c, str)]
            bs = bool_switch(f, t["target"])
            if lits and bs and op_local(bs[0]) == t["dest"]["l"]:
                recv = f.origin(t["args"][0])
                atoms[t["target"]] = ("name:" + lits[0], {True: bs[1], False: bs[2]}, recv)
    for bb in sorted(f.live_blocks()):
        if f.blocks[bb]["cleanup"]:
            continue
        sw = switch_on_discr(f, bb)
        if not sw:
            continue
        rv, m, otherwise, rest = sw
        o = f.origin_place(rv["pl"])
        if rv.get("adt") == "std::result::Result" and origin_has_call(o, r"FromStr for usize>::from_str$|parse::<usize>$"):
            atoms[bb] = ("parse-ok", {True: m.get("Ok", otherwise if "Ok" in rest else None), False: m.get("Err", otherwise if "Err" in rest else None)}, None)
        if rv.get("adt") == "std::option::Option" and origin_has_call(o, r"Iterator>?::find(::<|$)"):
            atoms[bb] = ("ct-present", {True: m.get("Some", otherwise if "Some" in rest else None), False: m.get("None", otherwise if "None" in rest else None)}, None)
    names = sorted(a[0] for a in atoms.values())
    want_names = sorted(["name:" + n for n in PROTECTED + ["Content-Length", "Content-Type"]] + ["parse-ok", "ct-present"])
    ctx.ob("C19.1", "%s|atoms" % f.id, "add_header distinguishes exactly: the four protected names, Content-Length, Content-Type, whether the length parses, whether a Content-Type exists",
           names == want_names, "%s:%d" % (f.file, f.line), str(names))
    # the name tests look at the incoming header's field
    ok = all("field" in origin_fields(a[2]) for a in atoms.values() if a[2] is not None)
    ctx.ob("C19.1", "%s|tests-incoming-name" % f.id, "the name tests are made on the header being added", ok, "%s:%d" % (f.file, f.line))
    if names == want_names:
        pushes = set(b for b, t in f.calls() if call_matches(t, r"Vec::<T(, A)?>::push$") and "headers" in arg_origin_fields(f, t))
        def atom_of(bb):
            a = atoms.get(bb)
            return (a[0], a[1]) if a else None
        bad = []
        rows = 0
        classes = PROTECTED + ["Content-Length", "Content-Type", None]
        for cls in classes:
            for parse_ok in (False, True):
                for ctp in (False, True):
                    asg = {"name:" + n: (n == cls) for n in PROTECTED + ["Content-Length", "Content-Type"]}
                    asg["parse-ok"] = parse_ok
                    asg["ct-present"] = ctp
                    ev = {"push": 0, "len": None, "replace": 0}
                    def on_block(bb):
                        if bb in pushes:
                            ev["push"] += 1
                        for s in f.stmts(bb):
                            if s["s"] == "assign":
                                fl = pl_fields(s["lhs"])
                                if fl == ["data_length"]:
                                    ev["len"] = origin_str(f.origin(s["rhs"]["op"])) if s["rhs"]["rv"] == "use" else "?"
                                if fl and fl[-1] == "value" and s["lhs"]["l"] != 0:
                                    ev["replace"] += 1
                    end, visited = shared.walk_decision(f, 0, atom_of, asg, set(f.returns()), on_block)
                    rows += 1
                    ctx.paths += 1
                    if cls in PROTECTED:
                        want = (0, False, 0)
                    elif cls == "Content-Length":
                        want = (0, parse_ok, 0)
                    elif cls == "Content-Type":
                        want = (0, False, 1) if ctp else (1, False, 0)
                    else:
                        want = (1, False, 0)
                    got = (ev["push"], ev["len"] is not None, ev["replace"])
                    if end is None or got != want:
                        bad.append((cls, parse_ok, ctp, got, want))
                    if cls == "Content-Length" and parse_ok and ev["len"] is not None and "Ok" not in ev["len"]:
                        bad.append((cls, "declared length is not the parsed value", ev["len"]))
        ctx.ob("C19.1", "%s|table" % f.id, "for every name class / parse outcome / existing Content-Type: protected names are dropped, Content-Length only sets the length, a later Content-Type replaces, anything else is appended exactly once",
               not bad, "%s:%d" % (f.file, f.line), None if not bad else str(bad[:4]))
        ctx.counts["C19.1 table rows"] = rows
        # what is pushed is the incoming header itself
        for pb in pushes:
            o = f.origin(f.term(pb)["args"][1])
            okp = origin_has_call(o, r"Into::into$|into$") or any(x == ("arg", 2) for x in origin_walk(o))
            ctx.ob("C19.1", "%s|pushes-given-header" % f.id, "the appended header is the one supplied", okp, f.loc(pb), origin_str(o))
    # equiv is a case-insensitive comparison of the whole name
    eq = roles.inherent(facts, HFIELD, "equiv")
    o = eq.origin_place({"l": 0, "p": []})
    ok = o[0] == "call" and o[1].endswith("eq_ignore_ascii_case") and len(o[2]) == 2
    ctx.ob("C19.1", "%s|case-insensitive" % eq.id, "names are compared ASCII-case-insensitively over the whole name", ok, "%s:%d" % (eq.file, eq.line), origin_str(o))
    wh = roles.inherent(facts, RESP, "with_header")
    calls = wh.call_blocks(lambda t: call_is(t, add_header.id))
    ctx.ob("C19.1", "%s|delegates" % wh.id, "with_header goes through add_header", len(calls) == 1, "%s:%d" % (wh.file, wh.line))

    # ---- C19.2 who writes Response.headers
    allowed = {rnew.id: {"construct"}, add_header.id: {"mutref"}, raw_print.id: {"mutref"}}
    movers = {roles.inherent(facts, RESP, n).id for n in ("with_data", "boxed")}
    clone = facts.trait_method(T_CLONE, RESP, "clone")
    n = 0
    for g, bb, kind, x in facts.field_writes(RESP, "headers"):
        n += 1
        if kind == "drop":
            continue
        ok = (g.id in allowed and kind in allowed[g.id]) or (g.id in movers and kind == "construct") or (g.id == clone and kind == "construct")
        ctx.ob("C19.2", "headers-write|%s|%s" % (g.id, kind), "the header list is written only by new, add_header, raw_print (automatic headers) and whole-value moves", ok, g.loc(bb))
    ctx.floor("C19.2 writes of Response.headers", n, 5)
    # new(): starts empty; the parameter flows only into add_header
    for g, bb, s in facts.constructions(RESP):
        if g.id != rnew.id:
            continue
        r = s["rhs"]
        o = g.origin(r["ops"][r["fields"].index("headers")])
        ok = o[0] == "call" and re.search(r"Vec::<T>::(with_capacity|new)$", o[1]) is not None
        ctx.ob("C19.2", "%s|starts-empty" % g.id, "a new Response starts with an empty header list (not the caller's vector)", ok, g.loc(bb), origin_str(o))
    adds = rnew.call_blocks(lambda t: call_is(t, add_header.id))
    ctx.ob("C19.2", "%s|param-through-add_header" % rnew.id, "the constructor adds the supplied headers one by one through add_header", len(adds) >= 1 and all(rnew.in_loop(b) for b in adds), "%s:%d" % (rnew.file, rnew.line))
    # uses of the `headers` parameter (local 2): only into_iter
    uses = [u for u in rnew.uses().get(2, [])]
    ok = all((u[0] == "term" and call_matches(u[2], r"IntoIterator>::into_iter$|into_iter$")) or (u[0] == "stmt" and u[4] == "move") or (u[0] == "term" and u[4] == "drop") for u in uses)
    ctx.ob("C19.2", "%s|param-only-iterated" % rnew.id, "the supplied header vector is only iterated", ok, "%s:%d" % (rnew.file, rnew.line), str([(u[0], u[-1]) for u in uses]))

    # conversions (boxed / with_data / clone ...) carry every other field over unchanged and do not go back through the constructor
    conv_fields(ctx, facts, "C19.2")

    # ---- C19.3 automatic Date / Server
    g = raw_print
    ctx.touch(g)
    inserts = [(bb, t) for bb, t in g.calls() if call_matches(t, r"Vec::<T(, A)?>::insert$") and "headers" in arg_origin_fields(g, t)]
    anys = []
    for bb, t in g.calls():
        if call_matches(t, r"Iterator>::any::<|Iterator::any$") and t.get("target") is not None:
            clo = g.origin(t["args"][1])
            lit = None
            if clo[0] == "agg":
                cf = facts.fn_opt(clo[1])
                if cf:
                    for b2, t2 in cf.calls():
                        if call_matches(t2, r"HeaderField::equiv$"):
                            ls = [c for c in arg_consts(cf, t2) if isinstance(c, str)]
                            lit = ls[0] if ls else None
            bs = bool_switch(g, t["target"])
            if lit and bs:
                anys.append((bb, lit, bs))
    for name in ("Date", "Server"):
        cand = [a for a in anys if a[1] == name]
        ok = len(cand) == 1
        detail = None
        if ok:
            bb, lit, bs = cand[0]
            # the insert of this header sits on the `absent` edge only
            mine = []
            for ib, it in inserts:
                o = g.origin(it["args"][2])
                cs = [x[1] for x in origin_walk(o) if x[0] == "const"]
                if (name == "Date" and origin_has_call(o, r"build_date_header$")) or (name == "Server" and b"Server" in cs):
                    mine.append(ib)
            # `!any(..)`: the absent edge is the false edge of `any`, unless a Not intervenes
            o = g.origin(bs[0])
            neg = o[0] == "unop" and o[1] == "Not"
            absent = bs[1] if neg else bs[2]
            present = bs[2] if neg else bs[1]
            ok = len(mine) == 1 and g.dominates(absent, mine[0], unwind=False) and not g.in_loop(mine[0]) and mine[0] not in g.reach([present], blocked={bb}, unwind=False) - g.reach([absent], blocked={bb}, unwind=False) - set()
            ok = ok and not (mine[0] in g.reach([present], blocked=set([absent]), unwind=False))
            detail = "inserts=%s" % mine
        ctx.ob("C19.3", "%s|auto-%s" % (g.id, name), "a %s header is inserted exactly when the response has none, once" % name, ok, "%s:%d" % (g.file, g.line), detail)
    bd = facts.fn("response::build_date_header")
    o = bd.origin_place({"l": 0, "p": []})
    ok = origin_has_call(o, r"SystemTime::now$") and origin_has_call(o, r"HttpDate") and b"Date" in [x[1] for x in origin_walk(o) if x[0] == "const"]
    ctx.ob("C19.3", "%s|current-time" % bd.id, "the Date header is the current system time formatted by HttpDate", ok, "%s:%d" % (bd.file, bd.line), origin_str(o)[:200])

    # ---- C19.4 constructors declare the byte length of what they wrap
    for name, len_re, wrap_re in (("from_string", r"String::len$", r"String::into_bytes$"), ("from_data", r"Vec::<T(, A)?>::len$", None)):
        c = facts.find_fns(r"^response::Response::<std::io::Cursor<std::vec::Vec<u8>>>::%s$" % name)
        ctx.require(len(c) == 1, "C19.4: constructor %s not found" % name)
        c = c[0]
        ctx.touch(c)
        calls = c.call_blocks(lambda t: call_is(t, rnew.id) or call_matches(t, r"response::Response::<R>::new$"))
        ctx.require(len(calls) == 1, "C19.4: %s does not call Response::new once" % name)
        t = c.term(calls[0])
        olen = c.origin(t["args"][3])
        odata = c.origin(t["args"][2])
        lens = [x for x in origin_calls(olen) if re.search(len_re, x[1])]
        ok = olen[0] == "agg" and olen[4] == "Some" and len(lens) == 1
        same = False
        if ok:
            # the receiver of len() and the value wrapped by the Cursor are the same local
            lrecv = lens[0][2][0]
            ll = [y for y in origin_walk(lrecv) if y[0] in ("local", "call")]
            dl = [y for y in origin_walk(odata) if y[0] in ("local", "call")]
            base_l = origin_str(lrecv).lstrip("&*")
            same = base_l in origin_str(odata)
        ctx.ob("C19.4", "%s|declares-byte-length" % c.id, "%s declares exactly the byte length (`len()`) of the value it wraps" % name, ok and same, c.loc(calls[0]),
               "len=%s data=%s" % (origin_str(olen), origin_str(odata)))
        ctx.ob("C19.4", "%s|no-char-count" % c.id, "the length is a byte length (no chars().count())", not origin_has_call(olen, r"chars|count$"), c.loc(calls[0]))
    emp = facts.find_fns(r"^response::Response::<std::io::Empty>::empty$")[0]
    calls = emp.call_blocks(lambda t: call_matches(t, r"response::Response::<R>::new$"))
    t = emp.term(calls[0])
    olen = emp.origin(t["args"][3])
    ok = olen[0] == "agg" and olen[4] == "Some" and olen[2][0][1] == 0 and origin_has_call(emp.origin(t["args"][2]), r"std::io::empty$")
    ctx.ob("C19.4", "%s|zero-length" % emp.id, "an empty response declares length 0 over an empty reader", ok, emp.loc(calls[0]))
    ff = facts.find_fns(r"^response::Response::<std::fs::File>::from_file$")[0]
    calls = ff.call_blocks(lambda t: call_matches(t, r"response::Response::<R>::new$"))
    olen = ff.origin(ff.term(calls[0])["args"][3])
    ok = origin_has_call(olen, r"File::metadata$") and not origin_has_call(olen, r"unwrap")
    ctx.ob("C19.4", "%s|metadata-length" % ff.id, "from_file declares the file's metadata length, or none if unavailable", ok, ff.loc(calls[0]), origin_str(olen))
    wd = roles.inherent(facts, RESP, "with_data")
    for g2, bb, s in facts.constructions(RESP):
        if g2.id == wd.id:
            r = s["rhs"]
            ok = g2.origin(r["ops"][r["fields"].index("reader")]) == ("arg", 2) and g2.origin(r["ops"][r["fields"].index("data_length")]) == ("arg", 3)
            ctx.ob("C19.4", "%s|stores-arguments" % wd.id, "with_data stores the reader and length it is given", ok, g2.loc(bb))

    # ---- C19.5 serialisation: each stored header once, in order
    wmh = facts.fn("response::write_message_header")
    ctx.touch(wmh)
    iters = [bb for bb, t in wmh.calls() if call_matches(t, r"<impl \[T\]>::iter$|<impl \[common::Header\]>::iter$")]
    nexts = [bb for bb, t in wmh.calls() if call_matches(t, r"slice::Iter<.*> as std::iter::Iterator>::next$")]
    ok = len(iters) == 1 and len(nexts) == 1 and wmh.in_loop(nexts[0]) and not origin_has_call(wmh.origin(wmh.term(nexts[0])["args"][0]), r"::rev$|::skip|::filter|::take")
    ctx.ob("C19.5", "%s|iterates-all-in-order" % wmh.id, "headers are written by a plain forward iteration over the list", ok, "%s:%d" % (wmh.file, wmh.line))
    if nexts:
        t = wmh.term(nexts[0])
        sw = None
        for b2 in sorted(wmh.reach([t["target"]], unwind=False)):
            s2 = switch_on_discr(wmh, b2)
            if s2 and s2[0]["pl"]["l"] == t["dest"]["l"]:
                sw = s2
                break
        ctx.require(sw is not None, "C19.5: loop match not found")
        rv, m, otherwise, rest = sw
        some_t = m.get("Some", otherwise if "Some" in rest else None)
        writes = [b for b, t2 in wmh.calls() if t2.get("callee") in ("std::io::Write::write_all", "std::io::Write::write_fmt") and b in wmh.reach([some_t], blocked={nexts[0]}, unwind=False)]
        flds = []
        for b in sorted(writes):
            o = wmh.origin(wmh.term(b)["args"][1]) if len(wmh.term(b)["args"]) > 1 else ("unknown",)
            fl = origin_fields(o)
            flds.append("field" if "field" in fl else "value" if "value" in fl else "lit")
        ok = flds.count("field") == 1 and flds.count("value") == 1 and flds.index("field") < flds.index("value") and len(flds) == 4
        ctx.ob("C19.5", "%s|name-colon-value-crlf" % wmh.id, "each header is written as name, separator, value, line end — once", ok, wmh.loc(some_t), str(flds))
        # every iteration writes (no `continue` skipping a header)
        reach = wmh.reach([some_t], blocked=set(writes[:1]), unwind=False)
        resid = set(wmh.call_blocks(lambda t2: t2.get("callee") == "std::ops::FromResidual::from_residual"))
        ctx.ob("C19.5", "%s|no-skip" % wmh.id, "no header is skipped", nexts[0] not in reach, wmh.loc(some_t))
    return {}


def conv_fields(ctx, facts, rule):
    """Every method that turns one Response into another (takes `self`/`&self` of type Response and builds a Response)
    copies status_code, headers, data_length and chunked_threshold from `self` (except the fields it is documented to
    replace), and does not rebuild through Response::new (which resets the header list and the chunking threshold)."""
    rnew = roles.inherent(facts, RESP, "new")
    replaced = {"with_data": {"reader", "data_length"}, "boxed": {"reader"}, "clone": {"reader"}}
    n = 0
    for k, g in sorted(facts.local_fns.items()):
        if g.rec.get("impl_self_adt") != RESP or g.argc < 1 or not re.search(r"response::Response<", g.local_ty(1)) or not re.search(r"response::Response<", g.local_ty(0)):
            continue
        if g.id == rnew.id:
            continue
        name = g.rec["name"]
        cons = [(bb, s2) for h, bb, s2 in facts.constructions(RESP) if h.id == g.id]
        via_new = g.call_blocks(lambda t: call_is(t, rnew.id) or call_matches(t, r"response::Response::<R>::new$"))
        if not cons and not via_new:
            continue        # builder-style methods returning `self` itself
        n += 1
        ctx.touch(g)
        ctx.ob(rule, "%s|not-through-constructor" % g.id, "%s() does not rebuild the response through Response::new (that would drop the chunking threshold and re-filter the headers)" % name,
               not via_new, "%s:%d" % (g.file, g.line))
        for bb, s2 in cons:
            r = s2["rhs"]
            for fld, o_ in zip(r["fields"], r["ops"]):
                if fld in replaced.get(name, set()):
                    continue
                o = g.origin(o_)
                ok = fld in origin_fields(o) and any(x == ("arg", 1) for x in origin_walk(o))
                ctx.ob(rule, "%s|keeps-%s" % (g.id, fld), "%s() carries `%s` over from the original response" % (name, fld), ok, g.loc(bb), origin_str(o))
    ctx.floor("%s conversion methods" % rule, n, 2)
