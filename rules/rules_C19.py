"""C19 — response header policy: protected names, one Content-Type, automatic Date/Server."""
import re, itertools
from core import *  # noqa
from roles import *  # noqa
import roles, shared, symex

EXPLANATION = (
    "Decision-table extraction, field-write census and provenance on MIR: add_header is walked for every header-name class x parse outcome x "
    "existing-Content-Type case and compared with DESIGN A.6 (protected names dropped, Content-Length only sets the declared length, later "
    "Content-Type replaces, everything else appended once); Response.headers is written only by new (empty vector), add_header and raw_print's "
    "automatic headers; the constructor's header list flows only through add_header; Date/Server are inserted iff absent, once; the convenience "
    "constructors declare the byte length of the very value they wrap; serialisation writes each stored header once, in order.")
TRUSTED = ["rustc MIR", "HeaderField::equiv is ASCII-case-insensitive equality (checked structurally)", "httpdate formats a valid HTTP-date"]

PROTECTED = ["Connection", "Trailer", "Transfer-Encoding", "Upgrade"]


def run(ctx):
    facts = ctx.facts
    roles.bind(facts)
    f = add_header = roles.inherent(facts, RESP, "add_header")
    rnew = roles.inherent(facts, RESP, "new")
    raw_print = roles.inherent(facts, RESP, "raw_print")
    ctx.touch(f)

    # ---- C19.1 decision table of add_header, by abstract evaluation for every class of incoming header name
    import inline, absint, framing_rules as FRM
    import queue_rules as Q
    fa = inline.inlined(facts, add_header.id, stop=lambda d: facts.fns[d].rec.get("local") and facts.fns[d].file != add_header.file, extern_ok=Q.std_small)
    ctx.touch(fa)
    # the functions that make up header admission: add_header and the private helpers it is built from (where the list is pushed to)
    admit = {d for dep, d in fa.inlined if "{closure" not in d} | {add_header.id}
    NAME, VALUE = ("sym", "incoming-name"), ("sym", "incoming-value")
    hdr_fields = [x["name"] for x in facts.adt(HEADER)["variants"][0]["fields"]]
    fld_field = [x["name"] for x in facts.adt(HEADER)["variants"][0]["fields"] if x["ty"] == HFIELD][0]
    val_field = [x for x in hdr_fields if x != fld_field][0]
    INCOMING = ("agg", HEADER, "Header", {fld_field: NAME, val_field: VALUE})
    import response_rules as RSP
    M0 = RSP.resp_model(facts)
    classes = PROTECTED + ["Content-Length", "Content-Type", "X-Other"]
    bad = []
    rows = 0
    lits_seen = set()
    for cls in classes:
        def on_call(bb, t, args, st, cls=cls):
            n = call_name(t)
            def val(a):
                if a[0] == "ref":
                    return st.read_key(a[1])
                if a[0] == "constref":
                    return a[1]
                return a
            if re.search(r"Into<.*>>::into$|::Into::into$|From<.*>>::from$", n) and args and args[0] == ("init", (2,)):
                return INCOMING
            if n.endswith("HeaderField::equiv") and len(args) == 2 and val(args[0]) == NAME:
                lit = absint.str_consts(absint.deep(st, args[1]))
                if len(lit) == 1:
                    lits_seen.add(lit[0])
                    r = lit[0].lower() == cls.lower()
                    return ("const", r, str(r).lower(), None)
            if re.search(r"Iterator>?::any(::<|$)|Iterator>::any$", n):
                d = absint.deep(st, ("tuple", list(args)))
                ls = set(FRM.term_lits(facts, d))
                if absint.contains(d, NAME) and len(ls) >= 2:
                    lits_seen.update(ls)
                    r = cls.lower() in {x.lower() for x in ls}
                    return ("const", r, str(r).lower(), None)
            return None
        st = symex.Sym(fa)
        ps = [p for p in absint.explore(fa, 0, st, on_call=on_call, max_paths=3000, deep_events=True) if p.end[0] == "return"]
        ctx.paths += len(ps)
        for p in ps:
            rows += 1
            parse_ok = ct_present = None
            for bb, c in p.conds:
                if not c or c[0] != "variant":
                    continue
                h = absint.head_call(c[3]) if c[3] else None
                if c[2] in ("Ok", "Err") and h is not None and FRM.INT_PARSE.search(h[1] + " " + (h[4] if len(h) > 4 else "")):
                    parse_ok = c[2] == "Ok"
                if c[2] in ("Some", "None") and h is not None and re.search(r"Iterator>::(find|position|find_map)$", h[1]) and "Content-Type" in FRM.term_lits(facts, c[3]):
                    ct_present = c[2] == "Some"
            pushes = [e for e in p.calls() if re.search(r"Vec::<T(, A)?>::push$", e[2]) and any(absint.contains(a, NAME) and absint.contains(a, VALUE) for a in (e[8] or e[3]))]
            others = [short(e[2]) for e in p.calls() if re.search(r"Vec::<T(, A)?>::(insert|remove|swap_remove|retain|clear|truncate|extend\w*|drain)$", e[2])]
            dl = p.state.read_key((1, "*") + M0.dlen_key)
            len_set = dl[0] != "init"
            replaced = [k for k, v in p.state.mem.items() if len(k) > 1 and "*" in k and k[0] not in (1, 2) and (v == VALUE or (isinstance(v, tuple) and absint.contains(v, VALUE) and not absint.contains(v, NAME)))]
            got = (len(pushes), len_set, bool(replaced), bool(others))
            if cls in PROTECTED:
                want = (0, False, False, False)
            elif cls == "Content-Length":
                want = (0, bool(parse_ok), False, False)
                if parse_ok and len_set and not FRM.is_cl_value(facts, dl[1] if dl[0] == "some" else dl):
                    bad.append((cls, "declared length is not the parsed value", symex.sym_str(dl)[:60]))
            elif cls == "Content-Type":
                want = (0, False, True, False) if ct_present else (1, False, False, False)
            else:
                want = (1, False, False, False)
            if got != want:
                bad.append((cls, "length parses=%s" % parse_ok, "Content-Type present=%s" % ct_present, "pushes/len-set/replaced/other-mutation", got, want))
    ctx.counts["C19.1 table rows"] = rows
    need = {x.lower() for x in PROTECTED + ["Content-Length", "Content-Type"]}
    ctx.ob("C19.1", "%s|atoms" % f.id, "add_header looks at the incoming header's name for: the four protected names, Content-Length and Content-Type", need <= {x.lower() for x in lits_seen},
           "%s:%d" % (f.file, f.line), str(sorted(lits_seen)))
    ctx.ob("C19.1", "%s|table" % f.id, "for every name class / parse outcome / existing Content-Type: protected names are dropped, Content-Length only sets the length, a later Content-Type replaces the existing value in place, anything else is appended exactly once",
           rows > 0 and not bad, "%s:%d" % (f.file, f.line), None if not bad else str(bad[:4]))
    # equiv is a case-insensitive comparison of the whole name
    eq = roles.inherent(facts, HFIELD, "equiv")
    o = eq.origin_place({"l": 0, "p": []})
    ok = o[0] == "call" and o[1].endswith("eq_ignore_ascii_case") and len(o[2]) == 2
    ctx.ob("C19.1", "%s|case-insensitive" % eq.id, "names are compared ASCII-case-insensitively over the whole name", ok, "%s:%d" % (eq.file, eq.line), origin_str(o))
    wh = roles.inherent(facts, RESP, "with_header")
    calls = wh.call_blocks(lambda t: call_name(t) in admit)
    ctx.ob("C19.1", "%s|delegates" % wh.id, "with_header goes through add_header", len(calls) == 1, "%s:%d" % (wh.file, wh.line))

    # ---- C19.2 who writes Response.headers
    import response_rules as RSP, inline, absint
    import queue_rules as Q
    M = RSP.resp_model(facts)
    printers = {d for dep, d in M.f.inlined}
    adders = {d for dep, d in inline.inlined(facts, add_header.id, stop=lambda d: facts.fns[d].rec.get("local") and facts.fns[d].file != add_header.file).inlined}
    n = 0
    h_owner, h_field = shared.owner_of_path(facts, RESP, M.headers_path)
    for g, bb, kind, x in facts.field_writes(h_owner, h_field):
        n += 1
        if kind == "drop":
            continue
        ok = (kind == "construct" and g.file == add_header.file) or (kind == "mutref" and (g.id in printers or g.id in adders))
        ctx.ob("C19.2", "headers-write|%s|%s" % (g.id, kind), "the header list is written only when a Response is built, by add_header (and its helpers) and by raw_print's automatic headers", ok, g.loc(bb))
    ctx.floor("C19.2 writes of Response.headers", n, 5)
    # new(): starts empty; the parameter flows only into add_header
    new_fns = {d for dep, d in inline.inlined(facts, rnew.id, stop=lambda d: facts.fns[d].rec.get("local") and facts.fns[d].file != rnew.file).inlined} | {rnew.id}
    n_cons = 0
    for g, bb, s in facts.constructions(h_owner):
        if g.id not in new_fns:
            continue
        n_cons += 1
        r = s["rhs"]
        o = g.origin(r["ops"][r["fields"].index(h_field)])
        ok = o[0] == "call" and re.search(r"Vec::<T>::(with_capacity|new)$", o[1]) is not None
        ctx.ob("C19.2", "%s|starts-empty" % g.id, "a new Response starts with an empty header list (not the caller's vector)", ok, g.loc(bb), origin_str(o))
    ctx.floor("C19.2 constructions of the header list in the constructor", n_cons, 1)
    # (with the constructor's helpers and closures spliced in, and iterator consumers such as for_each read as the loops they are)
    rn = inline.inlined(facts, rnew.id, stop=lambda d: facts.fns[d].rec.get("local") and (facts.fns[d].file != rnew.file or d in admit), extern_ok=Q.std_small)
    adds = rn.call_blocks(lambda t: call_name(t) in admit)
    ctx.ob("C19.2", "%s|param-through-add_header" % rnew.id, "the constructor adds the supplied headers one by one through add_header", len(adds) >= 1 and all(rn.in_loop(b) for b in adds), "%s:%d" % (rnew.file, rnew.line))
    # uses of the `headers` parameter (local 2): only into_iter
    uses = [u for u in rnew.uses().get(2, [])]
    ok = all((u[0] == "term" and call_matches(u[2], r"IntoIterator>::into_iter$|into_iter$")) or (u[0] == "stmt" and u[4] == "move") or (u[0] == "term" and u[4] == "drop") for u in uses)
    ctx.ob("C19.2", "%s|param-only-iterated" % rnew.id, "the supplied header vector is only iterated", ok, "%s:%d" % (rnew.file, rnew.line), str([(u[0], u[-1]) for u in uses]))

    # conversions (boxed / with_data / clone ...) carry every other field over unchanged and do not go back through the constructor
    conv_fields(ctx, facts, "C19.2")

    # ---- C19.3 automatic Date / Server (on the abstract paths of raw_print)
    g = raw_print
    import framing_rules as FRM
    ps = M.run(200, 7, False, "Identity", False)
    ctx.paths += len(ps)
    for name in ("Date", "Server"):
        bad = []
        seen_vals = set()
        for p in ps:
            S = M.summary(p)
            if not S["ok"]:
                continue
            val = None
            for bb, c in p.conds:
                hl = shared.header_lookup_atom(facts, c)
                if hl is not None and hl[0] == name:
                    val = hl[1]
                    continue
            cnt = len([1 for i, nm, v in S["headers"] if nm == name.encode()])
            seen_vals.add(val)
            if val is None or cnt != (0 if val else 1):
                bad.append("already present=%s, inserted %d" % (val, cnt))
        ctx.ob("C19.3", "%s|auto-%s" % (g.id, name), "a %s header is inserted exactly when the response has none, once" % name, seen_vals == {True, False} and not bad, "%s:%d" % (g.file, g.line), None if not bad else str(bad[:3]))
    bds = [h for k, h in facts.local_fns.items() if h.file == add_header.file and h.call_blocks(lambda t: call_matches(t, r"SystemTime::now$"))]
    ctx.require(len(bds) == 1, "C19.3: the function that builds the Date header (SystemTime::now) in the response module")
    bd = bds[0]
    o = bd.origin_place({"l": 0, "p": []})
    ok = origin_has_call(o, r"SystemTime::now$") and origin_has_call(o, r"HttpDate") and bool({b"Date", "Date"} & {x[1] for x in origin_walk(o) if x[0] == "const" and isinstance(x[1], (str, bytes))})
    ctx.ob("C19.3", "%s|current-time" % bd.id, "the Date header is the current system time formatted by HttpDate", ok, "%s:%d" % (bd.file, bd.line), origin_str(o)[:200])

    # ---- C19.4 constructors declare the byte length of what they wrap (symbolic evaluation of each constructor with its helpers spliced in)
    DATA = ("init", (1,))
    for name in ("from_string", "from_data"):
        c = facts.find_fns(r"^response::Response::<std::io::Cursor<std::vec::Vec<u8>>>::%s$" % name)
        ctx.require(len(c) == 1, "C19.4: constructor %s not found" % name)
        c = c[0]
        fc = inline.inlined(facts, c.id, stop=lambda d: facts.fns[d].rec.get("local") and (facts.fns[d].file != c.file or d in admit), extern_ok=Q.std_small)
        ctx.touch(fc)
        rets = [p for p in absint.explore(fc, 0, None, max_paths=4000) if p.end[0] == "return"]
        ok = bool(rets)
        detail = None
        for p in rets:
            r = absint.deep(p.state, p.ret())
            if not (r[0] == "agg" and r[1] == RESP):
                ok = False; detail = symex.sym_str(r)[:100]; continue
            dl = M.at(r[3], M.dlen_path)
            rd = M.at(r[3], M.reader_path)
            dl = None if dl == ("unknown",) else dl
            rd = None if rd == ("unknown",) else rd
            lens = [x for x in absint.walk_terms(dl) if x and x[0] == "call" and re.search(r"(String|Vec::<T(, A)?>|<impl str>|<impl \\[T\\]>)::len$", x[1])] if dl else []
            bytelen = dl is not None and dl[0] == "some" and len(lens) == 1 and not any(x and x[0] == "call" and re.search(r"chars|count$", x[1]) for x in absint.walk_terms(dl))
            same = bytelen and absint.contains(lens[0], DATA) and rd is not None and absint.contains(rd, DATA) and any(x and x[0] == "call" and re.search(r"std::io::Cursor::<T>::new$", x[1]) for x in absint.walk_terms(rd))
            if not same:
                ok = False
                detail = "len=%s reader=%s" % (symex.sym_str(dl)[:80] if dl else None, symex.sym_str(rd)[:80] if rd else None)
        ctx.ob("C19.4", "%s|declares-byte-length" % c.id, "%s declares exactly the byte length (`len()`) of the value it wraps" % name, ok, "%s:%d" % (c.file, c.line), detail)
    def eval_ctor(c):
        fc = inline.inlined(facts, c.id, stop=lambda d: facts.fns[d].rec.get("local") and (facts.fns[d].file != c.file or d in admit), extern_ok=Q.std_small)
        ctx.touch(fc)
        out = []
        for p in absint.explore(fc, 0, None, max_paths=4000):
            if p.end[0] == "return":
                r = absint.deep(p.state, p.ret())
                if r[0] == "agg" and r[1] == RESP:
                    out.append(r[3])
        return out
    emp = facts.find_fns(r"^response::Response::<std::io::Empty>::empty$")[0]
    rs = eval_ctor(emp)
    ok = bool(rs) and all(M.at(r, M.dlen_path) == ("some", ("const", 0, "0_usize", None)) and any(x and x[0] == "call" and x[1] == "std::io::empty" for x in absint.walk_terms(M.at(r, M.reader_path))) for r in rs)
    ctx.ob("C19.4", "%s|zero-length" % emp.id, "an empty response declares length 0 over an empty reader", ok, "%s:%d" % (emp.file, emp.line))
    ff = facts.find_fns(r"^response::Response::<std::fs::File>::from_file$")[0]
    rs = eval_ctor(ff)
    ok = bool(rs)
    for r in rs:
        dl = M.at(r, M.dlen_path)
        dl = None if dl == ("unknown",) else dl
        calls = [x[1] for x in absint.walk_terms(dl) if x and x[0] == "call"] if dl else []
        if not (dl == ("none",) or any(re.search(r"File::metadata$", c_) for c_ in calls) or any(x and x[0] == "payload" for x in absint.walk_terms(dl))):
            ok = False
        if any(re.search(r"unwrap$|expect$", c_) for c_ in calls):
            ok = False
        if not absint.contains(M.at(r, M.reader_path), ("init", (1,))):
            ok = False
    ctx.ob("C19.4", "%s|metadata-length" % ff.id, "from_file declares the file's metadata length, or none if unavailable, over that very file", ok, "%s:%d" % (ff.file, ff.line))
    wd = roles.inherent(facts, RESP, "with_data")
    rs = eval_ctor(wd)
    ok = bool(rs) and all(M.at(r, M.reader_path) == ("init", (2,)) and M.at(r, M.dlen_path) == ("init", (3,)) for r in rs)
    ctx.ob("C19.4", "%s|stores-arguments" % wd.id, "with_data stores the reader and length it is given", ok, "%s:%d" % (wd.file, wd.line))

    # ---- C19.5 serialisation: each stored header once, in order
    wmh0 = M.head_writer
    # (with the helpers of its file spliced in: a header line may have a writer of its own)
    wmh = inline.inlined(facts, wmh0.id, stop=lambda d: facts.fns[d].rec.get("local") and facts.fns[d].file != wmh0.file)
    ctx.touch(wmh)
    iters = [bb for bb, t in wmh.calls() if call_matches(t, r"<impl \[T\]>::iter$|<impl \[common::Header\]>::iter$|<impl std::iter::IntoIterator for &'a \[T\]>::into_iter$|IntoIterator for &'a std::vec::Vec<T(, A)?>>::into_iter$")]
    nexts = [bb for bb, t in wmh.calls() if call_matches(t, r"slice::Iter<.*> as std::iter::Iterator>::next$")]
    BAD_ADAPTOR = r"::rev$|::skip|::filter|::take|::step_by$|::cycle$|::zip$|::flat_map$|::dedup"
    ok = len(iters) == 1 and len(nexts) == 1 and wmh.in_loop(nexts[0]) and not origin_has_call(wmh.origin(wmh.term(nexts[0])["args"][0]), BAD_ADAPTOR)
    if not iters and not nexts:
        # the head writer takes "anything that yields &Header" (`I: IntoIterator<Item = &Header>`): it must draw from exactly that parameter,
        # forwards, and every caller must hand it a plain concatenation of lists in which the response's own header list occurs once
        gi = [(bb, t) for bb, t in wmh.calls() if t.get("callee") == "std::iter::IntoIterator::into_iter" and t["args"] and wmh.origin(t["args"][0])[0] == "arg"]
        gn = [bb for bb, t in wmh.calls() if t.get("callee") == "std::iter::Iterator::next" and t["args"]
              and any(x[0] == "call" and len(x) > 3 and x[3] in [b_ for b_, _ in gi] for x in origin_walk(wmh.origin(t["args"][0])))]
        if len(gi) == 1 and len(gn) == 1 and wmh.in_loop(gn[0]) and not origin_has_call(wmh.origin(wmh.term(gn[0])["args"][0]), BAD_ADAPTOR):
            argn = wmh.origin(gi[0][1]["args"][0])[1]
            list_fields = [x["name"] for x in facts.adt(RESP)["variants"][0]["fields"] if re.search(r"Vec<common::Header>", x["ty"])]
            sites = list(facts.callers_of(wmh0.id))
            ok = bool(sites) and len(list_fields) == 1
            for h_, b_, t_ in sites:
                if argn - 1 >= len(t_["args"]):
                    ok = False
                    continue
                o_ = h_.origin(t_["args"][argn - 1])
                own = [x for x in origin_walk(o_) if x[0] == "field" and x[2] == list_fields[0]] if list_fields else []
                if origin_has_call(o_, BAD_ADAPTOR) or len(own) != 1:
                    ok = False
            nexts, iters = gn, [b_ for b_, _ in gi]
    ctx.ob("C19.5", "%s|iterates-all-in-order" % wmh.id, "headers are written by a plain forward iteration over the list", ok, "%s:%d" % (wmh.file, wmh.line))
    if nexts:
        t = wmh.term(nexts[0])
        sw = None
        for b2 in sorted(wmh.reach([t["target"]], unwind=False)):
            s2 = switch_on_discr(wmh, b2)
            if s2 and s2[0]["pl"]["l"] == t["dest"]["l"]:
                sw = s2
                break
        ctx.require(sw is not None, "C19.5: loop match not found")
        rv, m, otherwise, rest = sw
        some_t = m.get("Some", otherwise if "Some" in rest else None)
        writes = [b for b, t2 in wmh.calls() if t2.get("callee") in ("std::io::Write::write_all", "std::io::Write::write_fmt") and b in wmh.reach([some_t], blocked={nexts[0]}, unwind=False)]
        flds = []
        for b in sorted(writes):
            o = wmh.origin(wmh.term(b)["args"][1]) if len(wmh.term(b)["args"]) > 1 else ("unknown",)
            fl = origin_fields(o)
            flds.append("field" if "field" in fl else "value" if "value" in fl else "lit")
        ok = flds.count("field") == 1 and flds.count("value") == 1 and flds.index("field") < flds.index("value") and len(flds) == 4
        ctx.ob("C19.5", "%s|name-colon-value-crlf" % wmh.id, "each header is written as name, separator, value, line end — once", ok, wmh.loc(some_t), str(flds))
        # every iteration writes (no `continue` skipping a header)
        reach = wmh.reach([some_t], blocked=set(writes[:1]), unwind=False)
        resid = set(wmh.call_blocks(lambda t2: t2.get("callee") == "std::ops::FromResidual::from_residual"))
        ctx.ob("C19.5", "%s|no-skip" % wmh.id, "no header is skipped", nexts[0] not in reach, wmh.loc(some_t))
    # ---- C19.6 every response goes through the response printer: nothing else in the crate writes a status line (a response written by hand
    # carries none of the automatic headers and none of the header policy)
    import rules_C04
    members = {d for dep, d in wmh.inlined} | {wmh0.id}
    n6 = 0
    for k, g in sorted(facts.local_fns.items()):
        if k.startswith("test") or "::tests::" in k or "::test::" in k:
            continue
        for bb, t in g.calls():
            lit = None
            if t.get("callee") == "std::io::Write::write_fmt":
                tpl, x = rules_C04.fmt_template(g, t)
                if tpl and any(isinstance(y, str) and "HTTP/" in y for y in tpl):
                    lit = "".join(y if y != "ARG" else "{}" for y in tpl)
            elif t.get("callee") in ("std::io::Write::write_all", "std::io::Write::write") and len(t["args"]) > 1:
                for c in arg_consts(g, t):
                    if isinstance(c, (bytes, str)) and (c[:5] in (b"HTTP/", "HTTP/")):
                        lit = str(c)
            if lit is not None:
                n6 += 1
                ctx.ob("C19.6", "status-line|%s" % re.sub(r"::\{closure#\d+\}", "", g.id), "a status line is written only by the response printer's head writer (every response gets the automatic headers and the header policy)",
                       re.sub(r"::\{closure#\d+\}", "", g.id) in members, g.loc(bb), lit[:60])
    ctx.floor("C19.6 places that write a status line", n6, 1)
    return {}


def conv_fields(ctx, facts, rule):
    """Every method that turns one Response into another (takes `self`/`&self` of type Response and builds a Response)
    copies status_code, headers, data_length and chunked_threshold from `self` (except the fields it is documented to
    replace), and does not rebuild through Response::new (which resets the header list and the chunking threshold)."""
    rnew = roles.inherent(facts, RESP, "new")
    replaced = {"with_data": {"reader", "data_length"}, "boxed": {"reader"}, "clone": {"reader"}}
    n = 0
    for k, g in sorted(facts.local_fns.items()):
        if g.rec.get("impl_self_adt") != RESP or g.argc < 1 or not re.search(r"response::Response<", g.local_ty(1)) or not re.search(r"response::Response<", g.local_ty(0)):
            continue
        if g.id == rnew.id:
            continue
        name = g.rec["name"]
        cons = [(bb, s2) for h, bb, s2 in facts.constructions(RESP) if h.id == g.id]
        via_new = g.call_blocks(lambda t: call_is(t, rnew.id) or call_matches(t, r"response::Response::<R>::new$"))
        if not cons and not via_new:
            continue        # builder-style methods returning `self` itself
        n += 1
        ctx.touch(g)
        ctx.ob(rule, "%s|not-through-constructor" % g.id, "%s() does not rebuild the response through Response::new (that would drop the chunking threshold and re-filter the headers)" % name,
               not via_new, "%s:%d" % (g.file, g.line))
        for bb, s2 in cons:
            r = s2["rhs"]
            for fld, o_ in zip(r["fields"], r["ops"]):
                if fld in replaced.get(name, set()):
                    continue
                o = g.origin(o_)
                ok = fld in origin_fields(o) and any(x == ("arg", 1) for x in origin_walk(o))
                ctx.ob(rule, "%s|keeps-%s" % (g.id, fld), "%s() carries `%s` over from the original response" % (name, fld), ok, g.loc(bb), origin_str(o))
    ctx.floor("%s conversion methods" % rule, n, 2)
