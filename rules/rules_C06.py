"""C06 — exactly one final response per delivered request; a dropped request gets a 500."""
import re
from core import *  # noqa
from roles import *  # noqa
import roles, shared, symex, inline, absint
import queue_rules as Q
import request_rules as RR
import framing_rules as FRM

EXPLANATION = (
    "Typestate of the Request's response slot decided by abstract path exploration of its public API (each method with the private helpers of its "
    "file spliced in, started with the slot occupied resp. empty; independent of helper structure and of how the slot is stored): respond / into_writer / "
    "upgrade take the Request by value and leave the slot empty by the time the consumed Request is destroyed, so its destructor cannot answer again; "
    "respond and upgrade print exactly one response (the application's) into the request's own writer, into_writer hands that writer out; no borrowing "
    "method empties the slot; the destructor answers an empty 500 exactly once iff the slot is still occupied, before anything that may wait for the "
    "client, and writes nothing otherwise; Request cannot be cloned or built outside new_request; a new Request starts with an occupied slot; the "
    "statuses the library generates by itself are {400,408,417,505} in the parser and {500,100} in the request module.")
TRUSTED = ["rustc MIR / move semantics (a by-value `self` cannot be used again)", "unwinding is enabled (panic=unwind) for the panicking-handler clause",
           "the socket accepts the bytes"]


def run(ctx):
    facts = ctx.facts
    roles.bind(facts)
    RM = RR.rmodel(facts)
    FM = FRM.fmodel(facts)
    consuming = {}
    for name in ("respond", "into_writer", "upgrade"):
        g = RM.methods.get(name)
        ctx.ob("C06.3", "api|%s" % name, "Request::%s exists" % name, g is not None, RM.file)
        if g is not None:
            consuming[name] = g
            ctx.ob("C06.3", "by-value|%s" % g.id, "%s takes the Request by value" % name, g.argc >= 1 and g.local_ty(1) == REQ, "%s:%d" % (g.file, g.line), g.local_ty(1))
    for k, g in sorted(facts.local_fns.items()):
        if g.rec.get("impl_self_adt") == REQ and g.rec.get("impl_trait") is None and g.rec.get("vis_pub") and g.argc >= 1 and g.local_ty(1) == REQ:
            ok = g.rec["name"] in consuming or g.local_ty(0) == REQ
            ctx.ob("C06.3", "consuming-api|%s" % g.id, "the only public methods consuming a Request are respond / into_writer / upgrade (and builders returning it)", ok, "%s:%d" % (g.file, g.line))

    # ---- C06.1/C06.2/C06.5 consuming methods: one answer, slot empty when the consumed Request dies
    for name, g in sorted(consuming.items()):
        extra = {(2,): RR.RESPONSE} if name == "respond" else ({(3,): RR.RESPONSE} if name == "upgrade" else {})
        f, ps = RM.run(g, extra=extra)
        ctx.touch(f, paths=len(ps))
        where = "%s:%d" % (g.file, g.line)
        bad_slot, bad_print, bad_ret = [], [], []
        for p in ps:
            if p.end[0] != "return":
                bad_slot.append(Q._ret_str(p))
                continue
            # the consumed Request is destroyed inside the method: its destructor must find the slot empty
            drops = RR.request_drops(p)
            for i, v in drops:
                if v != ("none",):
                    bad_slot.append("the Request is destroyed with its response slot still holding %s" % symex.sym_str(v)[:60])
            if not drops:
                # moved out (e.g. into the returned stream)?  then the slot must be empty in what remains
                if RM.slot_at_end(g, p, RM.wslot) != ("none",) and not absint.contains(absint.deep(p.state, p.ret()), RR.WRITER):
                    bad_slot.append("slot not emptied")
            pr = RM.final_prints(p)
            if name in ("respond", "upgrade"):
                if len(pr) != 1:
                    bad_print.append("%d responses printed" % len(pr))
                else:
                    i, e = pr[0]
                    if not RM.arg_mentions(p, e, 0, RR.RESPONSE):
                        bad_print.append("prints something else than the application's response")
                    if not RM.arg_mentions(p, e, 1, RR.WRITER):
                        bad_print.append("prints into something else than the request's own writer")
            else:
                if pr:
                    bad_print.append("into_writer prints a response")
            if name in ("into_writer", "upgrade"):
                if not absint.contains(absint.deep(p.state, p.ret()), RR.WRITER):
                    bad_ret.append(symex.sym_str(p.ret())[:80])
        ctx.ob("C06.2", "%s|slot-empty-when-consumed" % g.id, "%s empties the response slot before the consumed Request is destroyed, on every path (so the destructor cannot answer a second time)" % name,
               bool(ps) and not bad_slot, where, None if not bad_slot else str(bad_slot[:3]))
        if name in ("respond", "upgrade"):
            ctx.ob("C06.5", "%s|prints-once" % g.id, "%s prints exactly one response: the application's, into this request's own writer" % name, bool(ps) and not bad_print, where, None if not bad_print else str(bad_print[:3]))
        else:
            ctx.ob("C06.5", "%s|prints-nothing" % g.id, "into_writer itself writes no response", bool(ps) and not bad_print, where, None if not bad_print else str(bad_print[:3]))
        if name in ("into_writer", "upgrade"):
            ctx.ob("C06.5", "%s|returns-own-writer" % g.id, "%s hands out this request's own writer" % name, bool(ps) and not bad_ret, where, None if not bad_ret else str(bad_ret[:3]))
        # with the slot already empty these methods cannot be reached (by-value self); nothing to check

    # ---- C06.1 borrowing methods keep the slot occupied
    n = 0
    for name, g in sorted(RM.methods.items()):
        if g.argc < 1 or not g.local_ty(1).startswith("&") or REQ not in g.local_ty(1):
            continue
        if not g.rec.get("vis_pub"):
            continue
        f, ps = RM.run(g)
        n += 1
        bad = [Q._ret_str(p)[:60] for p in ps if p.end[0] == "return" and RM.slot_at_end(g, p, RM.wslot) != ("some", RR.WRITER)]
        ctx.ob("C06.1", "borrowing-api|%s" % g.id, "a method that only borrows the Request leaves its response slot occupied (it cannot be `answered` that way)", not bad, "%s:%d" % (g.file, g.line),
               None if not bad else str(bad[:2]))
    ctx.floor("C06.1 public borrowing methods of Request", n, 5)
    # who touches the slot at all: only the request module
    for fld_path in (RM.wslot,):
        owner = REQ
        for seg in fld_path:
            for g, bb, kind in facts.field_reads(owner, seg):
                ctx.ob("C06.1", "slot-user|%s" % g.id, "the response slot is touched only inside the request module", g.file == RM.file, g.loc(bb))
            nxt = [x["ty"] for x in facts.adt(owner)["variants"][0]["fields"] if x["name"] == seg]
            owner = nxt[0] if nxt and nxt[0] in facts.adts else owner

    # ---- C06.6 construction
    cons = [(g, bb, s) for g, bb, s in facts.constructions(REQ)]
    ctx.require(cons, "C06.1: Request is never constructed")
    for g, bb, s in cons:
        ctx.ob("C06.6", "construct|%s" % g.id, "a Request is constructed only by new_request (and its helpers)", g.file == FM.nr0.file and g.id in [d for dep, d in FM.nr.inlined], g.loc(bb))
    oks = [r for r in FM.rows if r["kind"] == "ok"]
    occupied = all(absint.deep(r["path"].state, functools_get(r["request"], RM.wslot))[0] == "some" for r in oks)
    ctx.ob("C06.1", "%s|slot-starts-occupied" % FM.nr0.id, "a new Request starts with an occupied response slot", bool(oks) and occupied, "%s:%d" % (FM.nr0.file, FM.nr0.line))
    callers = facts.callers_of(FM.nr0.id)
    import parser_rules as PRS
    PM = PRS.pmodel(facts)
    for g, bb, t in callers:
        ok = g.file == PM.file or g.id.startswith("test::")
        ctx.ob("C06.6", "new_request-caller|%s" % g.id, "requests are created only by the connection parser (and the TestRequest conversion)", ok, g.loc(bb))
    ctx.floor("C06.6 new_request callers", len(callers), 1)
    for tr in (T_CLONE, T_COPY):
        ctx.ob("C06.6", "noimpl|%s" % tr, "a Request cannot be duplicated", not facts.has_impl(tr, REQ), REQ)

    # ---- C06.4 Drop
    g = RM.drop
    where = "%s:%d" % (g.file, g.line)
    f, ps = RM.run(g, writer="some")
    ctx.touch(f, paths=len(ps))
    bad, early = [], []
    for p in ps:
        pr = RM.final_prints(p)
        if len(pr) != 1:
            bad.append("%d responses printed" % len(pr))
            continue
        i, e = pr[0]
        if RM.status_consts(p, e) != {500}:
            bad.append("status %s" % sorted(RM.status_consts(p, e)))
        if not RM.arg_mentions(p, e, 1, RR.WRITER):
            bad.append("not printed into the request's own writer")
        if RM.slot_at_end(g, p, RM.wslot) != ("none",):
            bad.append("slot still occupied after the automatic answer")
        for j, ev in enumerate(p.events[:i]):
            if ev[1] == "call" and (re.search(RR.RAW_PRINT, ev[2]) or ((ev[6] or "").startswith("std::io::Write::") and RM.arg_mentions(p, ev, 0, RR.WRITER))):
                continue        # writing into the request's own writer (an interim response) is not waiting for the client's body
            if ev[1] in ("call", "drop") and not f.blocks[ev[0]].get("synthetic"):
                eff = facts.effects_at(f, ev[0], creator=False) & {"BLOCK-IO", "WAIT-TURN-R", "CV-WAIT", "SLEEP"}
                if eff:
                    early.append((f.loc(ev[0]), sorted(eff)))
            if ev[1] == "drop" and absint.contains(ev[4], RR.READER):
                early.append((f.loc(ev[0]), "body reader destroyed"))
    ctx.ob("C06.4", "%s|occupied-answers-500-once" % g.id, "an unanswered Request is answered by its destructor on every path, exactly once, with an empty 500 into its own writer", bool(ps) and not bad, where, None if not bad else str(bad[:3]))
    ctx.ob("C06.4", "%s|answer-before-draining" % g.id, "the automatic 500 is written before the body reader is destroyed and before anything that may wait for the client", not early, where, None if not early else str(early[:3]))
    f, ps = RM.run(g, writer="none")
    touched = []
    for p in ps:
        for e in p.calls():
            if re.search(RR.RAW_PRINT, e[2]) or (e[6] or "").startswith("std::io::Write::") or re.search(r" as std::io::Write>::(write|flush|write_all)", e[2]):
                touched.append(short(e[2]))
    ctx.ob("C06.4", "%s|answered-stays-silent" % g.id, "a Request that was already answered writes nothing when destroyed", bool(ps) and not touched, where, None if not touched else str(touched[:3]))

    # ---- C06.7 where the library prints a response by itself: only in the connection parser's next() (error answers, C10.1),
    # in respond / upgrade (the application's response), as_reader (interim 100, C18) and the destructor (automatic 500)
    roots = [PM.nxt] + [RM.fn(RM.methods[n]) for n in ("respond", "upgrade", "as_reader") if n in RM.methods] + [RM.fn(RM.drop)]
    allowed = set()
    for r in roots:
        for b2 in range(r.n):
            blk = r.blocks[b2]
            if blk.get("synthetic"):
                continue
            t2 = blk["term"]
            if t2["t"] == "call" and call_matches(t2, RR.RAW_PRINT):
                allowed.add((r.src_of(b2), blk.get("obb", b2)))
    n = 0
    for g2, bb2, t2 in facts.all_calls(lambda t: call_matches(t, RR.RAW_PRINT)):
        if g2.id.startswith("test::") or g2.file == facts.adt(RESP)["file"]:
            continue
        sc = {x[1] for x in origin_walk(g2.origin(t2["args"][0])) if x[0] == "const" and isinstance(x[1], int) and not isinstance(x[1], bool) and 100 <= x[1] <= 599}
        if sc and all(c <= 199 for c in sc):
            continue        # an interim response (100 Continue) is not an answer; where it may be sent is C18's subject
        n += 1
        ctx.ob("C06.7", "prints-a-response|%s" % g2.id, "the library prints a response only in the connection parser's error arms, respond, upgrade, as_reader and the Request's destructor (never while building a request or elsewhere)",
               (g2.id, bb2) in allowed, g2.loc(bb2))
    ctx.floor("C06.7 sites printing a final response", n, 2)   # (respond and the destructor at least; the parser's answers may share one site)
    # ---- C06.8 flushing the request's writer takes its turn and flushes the socket (the writer chain's rule C01.2, taken over)
    import rules_C01, engine
    c2_ = engine.Ctx("C06", "quick", facts, 0)
    try:
        rules_C01.run(c2_)
        n_ = engine.take_over(ctx, c2_.obs, lambda o: (o.rule == "C01.2" and "flush" in o.key) or o.rule == "C01.8", "C06.8", "a response that was printed reaches the wire when the answering call returns: ")
        ctx.floor("C06.8 obligations on the writer's flush", n_, 1)
    except CheckerError as e:
        raise CheckerError("C06.8 (the turn-taking writer could not be evaluated): %s" % e)
    return {}


def functools_get(rq, path):
    v = ("agg", REQ, "Request", rq)
    for seg in path:
        if v[0] == "agg" and seg in v[3]:
            v = v[3][seg]
        else:
            return ("unknown",)
    return v
