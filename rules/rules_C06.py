"""C06 — exactly one final response per delivered request; a dropped request gets a 500."""
import re
from core import *  # noqa
from roles import *  # noqa
import roles, shared, symex
from rules_C01 import find_respond_impl

EXPLANATION = (
    "Typestate of Request.response_writer decided by census on MIR (for every handler program): the slot is filled once at construction and "
    "emptied only by one private helper, reached only through methods that take the Request by value or through Drop; Drop answers 500 iff "
    "the slot is still occupied and touches no writer otherwise; respond/upgrade/Drop print exactly one response each; the extracted writer "
    "is dropped on every exit so successors are released; Request cannot be cloned or built elsewhere; the statuses the library itself "
    "generates are exactly {400,408,417,505 (parser), 500 (Drop), 100 (as_reader)}.")
TRUSTED = ["rustc MIR / move semantics (a by-value `self` cannot be used again)", "unwinding is enabled (panic=unwind) for the panicking-handler clause",
           "the socket accepts the bytes"]


def run(ctx):
    facts = ctx.facts
    roles.bind(facts)
    nr = facts.fn("request::new_request")
    rdrop = method(facts, T_DROP, REQ, "drop")
    respond = roles.inherent(facts, REQ, "respond")
    into_writer = roles.inherent(facts, REQ, "into_writer")
    upgrade = roles.inherent(facts, REQ, "upgrade")
    as_reader = roles.inherent(facts, REQ, "as_reader")
    respond_impl = find_respond_impl(facts)

    # ---- C06.1 / C06.2 slot census
    ts = shared.slot_typestate(facts, "response_writer")
    ctx.floor("C06.1 functions emptying the response slot", len(ts["emptiers"]), 1)
    for e in sorted(ts["emptiers"]):
        ef = facts.fns[e]
        ctx.touch(ef)
        ok = ef.rec.get("impl_self_adt") == REQ and not ef.rec.get("vis_pub")
        ctx.ob("C06.1", "slot-emptier|%s" % e, "the response slot is emptied only by a private helper of Request", ok or e in (into_writer.id, upgrade.id, respond.id), "%s:%d" % (ef.file, ef.line))
    for g, bb, why in ts["bad"]:
        ctx.ob("C06.2", "slot-emptied-without-consuming|%s" % g.id, "whoever empties the response slot consumes the Request (so it cannot be answered again)", False, g.loc(bb) if bb else "%s:%d" % (g.file, g.line), why)
    ctx.ob("C06.2", "slot-emptiers-consume", "every path to emptying the response slot goes through a method taking the Request by value, or through Drop", not ts["bad"], "%s:%d" % (respond_impl.file, respond_impl.line))
    allowed_users = {upgrade.id, as_reader.id, rdrop.id} | ts["emptiers"]
    for u in sorted(ts["users"]):
        uf = facts.fns[u]
        ctx.ob("C06.1", "slot-user|%s" % u, "the response slot is borrowed only by upgrade (101), as_reader (100-continue) and Drop's occupancy test", u in allowed_users, "%s:%d" % (uf.file, uf.line))
    cons = [(g, bb, s) for g, bb, s in facts.constructions(REQ)]
    ctx.require(cons, "C06.1: Request is never constructed")
    for g, bb, s in cons:
        ctx.ob("C06.6", "construct|%s" % g.id, "a Request is constructed only by new_request", g.id == nr.id, g.loc(bb))
        r = s["rhs"]
        o = g.origin(r["ops"][r["fields"].index("response_writer")])
        ok = o[0] == "agg" and o[4] == "Some"
        ctx.ob("C06.1", "%s|slot-starts-occupied" % g.id, "a new Request starts with an occupied response slot", ok, g.loc(bb), origin_str(o))
    callers = facts.callers_of(nr.id)
    cc_read = roles.inherent(facts, CC, "read")
    for g, bb, t in callers:
        ok = g.id == cc_read.id or g.id.startswith("test::<impl std::convert::From<test::TestRequest> for request::Request>::from")
        ctx.ob("C06.6", "new_request-caller|%s" % g.id, "requests are created only by the connection parser (and the TestRequest conversion)", ok, g.loc(bb))
    ctx.floor("C06.6 new_request callers", len(callers), 1)

    # ---- C06.3 signatures
    for g in (respond, into_writer, upgrade):
        ctx.ob("C06.3", "by-value|%s" % g.id, "%s takes the Request by value" % g.rec["name"], g.argc >= 1 and g.local_ty(1) == REQ, "%s:%d" % (g.file, g.line), g.local_ty(1))
    for k, g in sorted(facts.local_fns.items()):
        if g.rec.get("impl_self_adt") == REQ and g.rec.get("impl_trait") is None and g.rec.get("vis_pub") and g.argc >= 1:
            st = g.local_ty(1)
            if st == REQ:
                ok = g.id in (respond.id, into_writer.id, upgrade.id) or g.local_ty(0) == REQ
                ctx.ob("C06.3", "consuming-api|%s" % g.id, "the only public methods consuming a Request are respond / into_writer / upgrade (and builders returning it)", ok, "%s:%d" % (g.file, g.line))

    # ---- C06.4 Drop
    f = rdrop
    ctx.touch(f)
    tests = [(bb, t) for bb, t in f.calls() if call_is(t, "std::option::Option::<T>::is_some", "std::option::Option::<T>::is_none") and "response_writer" in arg_origin_fields(f, t)]
    sw_alt = None
    if not tests:
        for bb in sorted(f.live_blocks()):
            sw = switch_on_discr(f, bb)
            if sw and "response_writer" in origin_fields(f.origin_place(sw[0]["pl"])):
                sw_alt = (bb, sw)
    ctx.ob("C06.4", "%s|tests-slot" % f.id, "Drop looks at the response slot", bool(tests) or sw_alt is not None, "%s:%d" % (f.file, f.line))
    occ = emp = None
    if tests:
        bb, t = tests[0]
        bs = bool_switch(f, t["target"])
        ctx.require(bs is not None, "C06.4: slot test not branched on")
        occ, emp = (bs[1], bs[2]) if t["name"] == "is_some" else (bs[2], bs[1])
    elif sw_alt:
        bb, (rv, m, otherwise, rest) = sw_alt
        occ = m.get("Some", otherwise if "Some" in rest else None)
        emp = m.get("None", otherwise if "None" in rest else None)
    if occ is not None:
        ri = set(f.call_blocks(lambda t: call_is(t, respond_impl.id)))
        reach = f.reach([occ], blocked=ri, unwind=False)
        ok = bool(ri) and not any(r in reach for r in f.returns())
        ctx.ob("C06.4", "%s|occupied-answers" % f.id, "an unanswered Request is answered by its destructor on every path", ok, f.loc(occ))
        for b in ri:
            o = f.origin(f.term(b)["args"][1])
            codes = [x for x in origin_calls(o) if re.search(r"response::Response::<std::io::Empty>::(empty|new_empty)", x[1])]
            c = None
            if codes and codes[0][2]:
                a0 = codes[0][2][0]
                c = a0[1] if a0[0] == "const" else (a0[2][0][1] if a0[0] == "agg" and a0[2] and a0[2][0][0] == "const" else None)
            ctx.ob("C06.4", "%s|answers-500" % f.id, "the automatic answer is an empty 500", c == 500, f.loc(b), origin_str(o))
            ctx.ob("C06.4", "%s|answers-once" % f.id, "the destructor answers once", not f.in_loop(b) and len(ri) == 1, f.loc(b))
        # nothing that waits for the client may come before the automatic answer: destroying (draining) the body
        # reader first would make the 500 wait for body bytes the client may never send
        inst = facts.mono_instance(f.id)
        before = f.reach([occ], blocked=ri, unwind=False)
        early = []
        for b in sorted(before):
            if f.blocks[b]["cleanup"]:
                continue
            t2 = f.term(b)
            if t2["t"] in ("call", "drop"):
                eff = facts.call_effects(inst, b) & {"BLOCK-IO", "WAIT-TURN-R", "CV-WAIT", "SLEEP"}
                if eff:
                    early.append((f.loc(b), sorted(eff)))
        for g2, b2, kind, x in facts.field_writes(REQ, "data_reader"):
            if g2.id == f.id and b2 in before and kind in ("assign", "drop", "mutref", "calldest"):
                early.append((f.loc(b2), "body reader replaced/destroyed"))
        ctx.ob("C06.4", "%s|answer-before-draining" % f.id, "the automatic 500 is written before the body reader is destroyed (its destructor may wait for body bytes the client never sends)",
               not early, f.loc(occ), None if not early else str(early[:3]))
        r_emp = f.reach([emp], unwind=False)
        touched = [b for b in r_emp if f.term(b)["t"] == "call" and (call_is(f.term(b), respond_impl.id) or f.term(b).get("trait") == T_WRITE or call_matches(f.term(b), r"raw_print$"))]
        ctx.ob("C06.4", "%s|answered-stays-silent" % f.id, "a Request that was already answered writes nothing when destroyed", not touched, f.loc(emp))

    # ---- exactly one response per answering path
    for g, what in ((respond_impl, "respond_impl"), (upgrade, "upgrade")):
        rps = g.call_blocks(lambda t: call_matches(t, r"response::Response::<R>::raw_print$"))
        ok = len(rps) == 1 and not g.in_loop(rps[0])
        ctx.ob("C06.5", "%s|prints-once" % g.id, "%s prints exactly one response" % what, ok, "%s:%d" % (g.file, g.line))
    ris = respond.call_blocks(lambda t: call_is(t, respond_impl.id))
    ctx.ob("C06.5", "%s|responds-once" % respond.id, "respond() answers exactly once", len(ris) == 1 and not respond.in_loop(ris[0]), "%s:%d" % (respond.file, respond.line))
    # the response given to respond() is the one printed
    if ris:
        o = respond.origin(respond.term(ris[0])["args"][1])
        ctx.ob("C06.5", "%s|prints-given-response" % respond.id, "what respond() prints is the application's response", o == ("arg", 2), respond.loc(ris[0]), origin_str(o))
    g = respond_impl
    rps = g.call_blocks(lambda t: call_matches(t, r"raw_print$"))
    if rps:
        t = g.term(rps[0])
        o0 = g.origin(t["args"][0])
        ctx.ob("C06.5", "%s|prints-given-response" % g.id, "respond_impl prints the response it was given", o0 == ("arg", 2), g.loc(rps[0]), origin_str(o0))
        ow = g.origin(t["args"][1])
        okw = any(x[0] == "call" and x[1] in ts["emptiers"] for x in origin_walk(ow))
        ctx.ob("C06.5", "%s|prints-into-own-writer" % g.id, "the response goes to this request's own writer", okw, g.loc(rps[0]), origin_str(ow))
    # into_writer hands out exactly the extracted writer
    o = into_writer.origin_place({"l": 0, "p": []})
    sl = shared.backward_slice_locals(into_writer, [0])
    okw = any(d[0] == "call" and call_name(d[2]) in ts["emptiers"] for l in sl for d in into_writer.defs().get(l, []))
    ctx.ob("C06.5", "%s|returns-own-writer" % into_writer.id, "into_writer returns this request's writer", okw, "%s:%d" % (into_writer.file, into_writer.line), origin_str(o))

    # ---- C06.6 no Clone
    for tr in (T_CLONE, T_COPY):
        ctx.ob("C06.6", "noimpl|%s" % tr, "a Request cannot be duplicated", not facts.has_impl(tr, REQ), REQ)

    # ---- C06.7 statuses generated by the library itself
    expected = {"<client::ClientConnection as std::iter::Iterator>::next": {400, 408, 417, 505}, rdrop.id: {500}, as_reader.id: {100}}
    found = {}
    for k, g in sorted(facts.local_fns.items()):
        if g.id.startswith("test::") or re.search(r"common::StatusCode", g.id) or g.id.startswith("response::"):
            continue
        for bb, c in shared.status_consts_in(g):
            if isinstance(c, int):
                found.setdefault(g.id, set()).add(c)
    for fid in sorted(set(found) | set(expected)):
        ok = found.get(fid, set()) == expected.get(fid, set())
        ctx.ob("C06.7", "lib-status|%s" % fid, "the library generates a response of its own only at the documented places with the documented status", ok, fid,
               "found %s expected %s" % (sorted(found.get(fid, ())), sorted(expected.get(fid, ()))))
    return {}
