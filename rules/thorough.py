"""Thorough tier: everything of the quick tier, plus
  (a) the same rules on the second configuration (`--no-default-features`: the log macros vanish, bodies change);
  (b) property-specific deep rules over the generic MIR of dependencies (chunked_transfer's Decoder/Encoder);
  (c) self-validation: every seeded mutant under selftest/<prop>/ and the reverts of the repaired defects are applied to a
      scratch copy of the *current* tree, facts are re-extracted and the rules must fire (recorded in the evidence; a stale or
      missed mutant never changes the verdict on the real tree);
  (d) compile-fail witnesses (witnesses/) for the type-level clauses;
  (e) cross-reference lints (clippy) recorded next to the engine's own census.
Nothing of tiny-http is executed."""
import glob, json, os, shutil, subprocess, sys, tempfile, time, importlib
from concurrent.futures import ThreadPoolExecutor

import engine
from core import CheckerError

VERIF = engine.VERIF


def run(ctx, mod):
    extra = {}
    prop = ctx.prop
    # (a) second configuration
    try:
        f2 = engine.load_facts(engine.REPO, "lib-nodefault")
        ctx2 = engine.Ctx(prop, "thorough", f2, ctx.seed)
        mod.run(ctx2)
        for o in ctx2.obs:
            o.key = "[no-default-features]" + o.key
            ctx.obs.append(o)
        ctx.fns_analysed |= {"[nd]" + x for x in ctx2.fns_analysed}
        ctx.call_sites += ctx2.call_sites
        ctx.paths += ctx2.paths
        extra["configurations"] = ["default features (log)", "--no-default-features"]
    except CheckerError as e:
        raise CheckerError("second configuration (--no-default-features): %s" % e)
    # (b) deep rules
    deep = getattr(mod, "run_thorough", None)
    if deep:
        extra.update(deep(ctx) or {})
    # (c) self-validation
    extra["selftest"] = selftest(prop)
    # (d) witnesses
    if prop in ("C01", "C06", "C07"):
        extra["witnesses"] = witnesses()
        w = extra["witnesses"]
        ctx.ob("WITNESS", "compile-fail-witnesses", "answering twice / using a Request after into_writer / cloning a Request do not type-check (compile_fail doc-tests with compiling twins)",
               w.get("ok", False), "witnesses/src/lib.rs", None if w.get("ok") else w.get("tail"))
    # (e) clippy cross reference
    if prop in ("C13", "C14"):
        extra["clippy_cross_reference"] = clippy_xref()
    return extra


def mutants_for(prop):
    out = []
    for p in sorted(glob.glob(os.path.join(VERIF, "selftest", prop, "*.patch"))):
        meta = {}
        mp = p[:-6] + ".json"
        if os.path.exists(mp):
            meta = json.load(open(mp))
        out.append((p, meta))
    # seeded changes delivered by independent sub-agents
    for d in sorted(glob.glob(os.path.join(VERIF, "seeded", "*"))):
        mp = os.path.join(d, "meta.json")
        if not os.path.exists(mp):
            continue
        meta = json.load(open(mp))
        if prop in meta.get("caught_by", []) or (meta.get("property") == prop and not (meta.get("open_miss") or meta.get("own_miss"))):
            # (a confirmed change the own check is known not to report -- `open_miss` / `own_miss` in its meta, DESIGN.md §9.8 -- is not
            # an expectation of the self-test; it stays listed in the evidence as an open miss)
            out.append((os.path.join(d, "patch.diff"), meta))
    # mutants of refactored trees (a stored refactoring with a break on top)
    for d in sorted(glob.glob(os.path.join(VERIF, "selftest", "stacked", "*"))):
        mp = os.path.join(d, "meta.json")
        if os.path.exists(mp):
            meta = json.load(open(mp))
            if meta.get("property") == prop:
                out.append(([os.path.join(VERIF, "refactors", meta["base"], "patch.diff"), os.path.join(d, "patch.diff")], meta))
    reg = os.path.join(VERIF, "selftest", "regress", "index.json")
    if os.path.exists(reg):
        for ent in json.load(open(reg)):
            if prop in ent["props"]:
                out.append((os.path.join(VERIF, "selftest", "regress", ent["patch"]), ent))
    return out


def run_mutant(prop, patch, meta):
    d = tempfile.mkdtemp(prefix="thv-mut.", dir="/tmp")
    try:
        subprocess.run(["rsync", "-a", "--exclude", "target", "--exclude", ".git", engine.REPO + "/", d + "/"], check=True)
        patches = patch if isinstance(patch, list) else [patch]
        patch = patches[-1]
        for one in patches:
            r = subprocess.run(["patch", "-p1", "-s", "-E", "--no-backup-if-mismatch", "-i", one], cwd=d, stdout=subprocess.PIPE, stderr=subprocess.STDOUT, text=True)
            if r.returncode != 0:
                return {"patch": os.path.relpath(patch, VERIF), "status": "stale (does not apply to the current tree)"}
        r = subprocess.run([os.path.join(VERIF, "check"), prop, "--repo", d, "--tier", "quick"], cwd=VERIF, stdout=subprocess.PIPE, stderr=subprocess.STDOUT, text=True,
                           env=dict(os.environ, VERIF_TIER="quick"))
        fired = [l.split(" @ ")[0][len("violated: "):] for l in r.stdout.splitlines() if l.startswith("violated: ")]
        exp = meta.get("expect") or []
        if isinstance(exp, str):
            exp = [exp]
        if r.returncode == 2:
            status = "checker-error (fail closed): " + (r.stdout.strip().splitlines() or ["?"])[-1][:200]
            caught = bool(meta.get("accept_checker_error"))
        elif r.returncode == 1:
            caught = (not exp) or any(any(f.startswith(e) for f in fired) for e in exp)
            status = "caught" if caught else "fired-but-not-the-expected-rule"
        else:
            caught = False
            status = "MISSED"
        return {"patch": os.path.relpath(patch, VERIF), "status": status, "caught": caught, "fired": fired[:6], "expected": exp}
    finally:
        shutil.rmtree(d, ignore_errors=True)


def selftest(prop):
    ms = mutants_for(prop)
    if not ms:
        return {"mutants": 0}
    res = []
    with ThreadPoolExecutor(max_workers=min(8, len(ms))) as ex:
        futs = [ex.submit(run_mutant, prop, p, m) for p, m in ms]
        for f in futs:
            res.append(f.result())
    caught = sum(1 for r in res if r.get("caught"))
    stale = sum(1 for r in res if r["status"].startswith("stale"))
    missed = [r for r in res if not r.get("caught") and not r["status"].startswith("stale")]
    for r in missed:
        print("selftest: mutant not caught by %s: %s (%s)" % (prop, r["patch"], r["status"]), file=sys.stderr)
    open_misses = []
    for d in sorted(glob.glob(os.path.join(VERIF, "seeded", "*"))):
        mp = os.path.join(d, "meta.json")
        if os.path.exists(mp):
            m_ = json.load(open(mp))
            if m_.get("property") == prop and (m_.get("open_miss") or m_.get("own_miss")) and prop not in m_.get("caught_by", []):
                open_misses.append(os.path.relpath(os.path.join(d, "patch.diff"), VERIF))
    return {"mutants": len(ms), "caught": caught, "stale": stale, "missed": [r["patch"] for r in missed], "known_open_misses": open_misses, "results": res}


def witnesses():
    wdir = os.path.join(VERIF, "witnesses")
    if not os.path.isdir(wdir):
        return {"ok": False, "tail": "witness crate missing"}
    t = tempfile.mkdtemp(prefix="thv-wit.", dir="/tmp")
    try:
        shutil.copy(os.path.join(engine.REPO, "Cargo.lock"), os.path.join(wdir, "Cargo.lock"))
        env = dict(os.environ, CARGO_NET_OFFLINE="true", CARGO_TARGET_DIR=t, THV_REPO_PATH=engine.REPO)
        # the witness crate path-depends on /repo; for a scratch repo rewrite the path through a config override
        cmd = ["cargo", "+nightly", "test", "--doc", "--offline", "--config", 'patch.crates-io.tiny_http.path="%s"' % engine.REPO]
        r = subprocess.run(["cargo", "+nightly", "test", "--doc", "--offline"], cwd=wdir, env=env, stdout=subprocess.PIPE, stderr=subprocess.STDOUT, text=True)
        tail = "\n".join(r.stdout.strip().splitlines()[-6:])
        import re
        m = re.search(r"test result: (\w+)\. (\d+) passed; (\d+) failed", r.stdout)
        return {"ok": r.returncode == 0 and bool(m) and m.group(1) == "ok" and int(m.group(2)) >= 6, "passed": int(m.group(2)) if m else 0,
                "failed": int(m.group(3)) if m else None, "tail": tail[-600:]}
    finally:
        shutil.rmtree(t, ignore_errors=True)


def clippy_xref():
    t = tempfile.mkdtemp(prefix="thv-clippy.", dir="/tmp")
    try:
        env = dict(os.environ, CARGO_NET_OFFLINE="true", CARGO_TARGET_DIR=t)
        r = subprocess.run(["cargo", "+nightly", "clippy", "--offline", "--lib", "--message-format=short", "--", "-Aclippy::all", "-Wclippy::unused_io_amount",
                            "-Wclippy::unwrap_used", "-Wclippy::expect_used", "-Wclippy::indexing_slicing", "-Wclippy::panic", "-Wclippy::unreachable"],
                           cwd=engine.REPO, env=env, stdout=subprocess.PIPE, stderr=subprocess.STDOUT, text=True)
        import re, collections
        c = collections.Counter()
        for line in r.stdout.splitlines():
            m = re.search(r"warning: (used `unwrap\(\)` on an? `\w+` value|used `expect\(\)`.*|usage of the `\w+!` macro|slicing may panic|indexing may panic|.*amount.*|`panic` should not be present.*)", line)
            if m:
                c[m.group(1)[:60]] += 1
        return {"ran": r.returncode == 0, "whole_crate_lint_counts": dict(c),
                "note": "clippy restriction lints over the whole lib (not only the client-reachable region), recorded for comparison with the engine's own "
                        "census of unwrap/expect/panic!/index sites; clippy::unused_io_amount reporting nothing agrees with C13.1; not a verdict"}
    except Exception as e:
        return {"ran": False, "error": str(e)}
    finally:
        shutil.rmtree(t, ignore_errors=True)
