"""Client-reachable region of local functions and panic-site enumeration (C14/C15)."""
import re
from core import *  # noqa
from roles import *  # noqa
import roles

PANIC_CALLS = re.compile(
    r"^(std::option::Option::<T>::(unwrap|expect)|std::result::Result::<T, E>::(unwrap|expect|unwrap_err|expect_err)"
    r"|core::panicking::\w+|std::rt::begin_panic\w*|core::panicking::assert_failed.*|std::process::(abort|exit)"
    r"|core::slice::index::\w+|core::str::slice_error_fail\w*)$")
INDEX_CALLS = re.compile(r"^(std::ops::Index::index|std::ops::IndexMut::index_mut)$")
ARITH_PANIC = re.compile(r"^<std::time::(Duration|Instant|SystemTime) as std::ops::(Sub|Add|Mul|Div)(<.*>)?>::(sub|add|mul|div)$|^std::time::Duration::(from_secs_f32|from_secs_f64|new)$")
SORT_WITH_COMPARATOR = re.compile(r"<impl \[T\]>::(sort_by|sort_unstable_by|sort_by_key|sort_unstable_by_key|sort_by_cached_key|select_nth_unstable_by|binary_search_by)$")
OTHER_PANICKY = re.compile(r"std::vec::Vec::<T(, A)?>::(remove|insert|swap_remove|split_off|drain|truncate_front)$|std::collections::VecDeque::<T(, A)?>::(remove|insert|swap)$"
                           r"|core::slice::<impl \[T\]>::(split_at|split_at_mut|copy_from_slice|clone_from_slice|swap|chunks|windows)$|core::str::<impl str>::(split_at)$"
                           r"|std::cell::RefCell::<T>::(borrow|borrow_mut)$|std::string::String::(remove|insert|insert_str|truncate|split_off|drain)$")


def entry_fns(facts):
    e = []
    e += facts.find_fns(r"^Server::from_listener::\{closure#0\}::\{closure#0\}$")
    e.append(method(facts, T_ITER, CC, "next"))
    for n in ("as_reader", "respond", "into_writer", "upgrade"):
        e.append(roles.inherent(facts, REQ, n))
    e.append(method(facts, T_DROP, REQ, "drop"))
    for n in ("recv", "recv_timeout", "try_recv", "unblock"):
        e.append(facts.fn("Server::" + n))
    e.append(method(facts, T_ITER, "IncomingRequests", "next"))
    # Read / Write / Drop impls of every local type (they may sit inside a Request's reader/writer)
    for i in facts.impls:
        if i["trait"] in (T_READ, T_WRITE) and i["self_adt"] and i["self_adt"] in facts.adts:
            for it in i["items"]:
                f = facts.fn_opt(it)
                if f:
                    e.append(f)
    # Drop impls that run when a Request, a queued message or a connection goes away
    seen = set()
    work = [i["id"] for i in facts.instances if i and i["kind"] == "drop_glue" and i.get("drop_adt") in (REQ, CC, "Message")
            and not i.get("drop_ty", "").startswith("std::")]
    while work:
        x = work.pop()
        if x in seen:
            continue
        seen.add(x)
        inst = facts.instances[x]
        if inst["kind"] == "item" and inst["def"].endswith("as std::ops::Drop>::drop") and inst["def"] in facts.local_fns:
            e.append(facts.fns[inst["def"]])
        for bb, kind, to, ed in facts.inst_callees(inst):
            if to is not None and (facts.instances[to]["kind"] == "drop_glue" or facts.instances[to]["def"].endswith("as std::ops::Drop>::drop")):
                work.append(to)
    return e


def local_callees(facts, f):
    out = set()
    for bb, t in f.calls():
        for n in (t.get("res"), t.get("callee")):
            if n and n in facts.local_fns:
                out.add(n)
        # closures / fn items passed as arguments
        for a in t["args"]:
            if a.get("k") == "const" and a.get("fn") in facts.local_fns:
                out.add(a["fn"])
        # unresolved trait calls on Read/Write: every local impl
        if t.get("res") is None and t.get("trait") in (T_READ, T_WRITE):
            for i in facts.impls:
                if i["trait"] == t["trait"]:
                    for it in i["items"]:
                        if it.endswith("::" + t["name"]) and it in facts.local_fns:
                            out.add(it)
    for bb, i, s in f.assigns():
        r = s["rhs"]
        if r["rv"] == "agg" and r.get("closure") in facts.local_fns:
            out.add(r["closure"])
        for o in (r.get("ops") or []) + [r.get("op")] if r.get("op") else (r.get("ops") or []):
            if isinstance(o, dict) and o.get("k") == "const" and o.get("fn") in facts.local_fns:
                out.add(o["fn"])
    # drops of local types with Drop impls
    for bb, t in f.drops():
        for m in re.findall(r"([A-Za-z_][\w]*(?:::[A-Za-z_][\w]*)*)", t["ty"]):
            if m in facts.adts and facts.adts[m]["has_drop"]:
                d = facts.drop_fn(m)
                if d:
                    out.add(d.id)
    return out


def client_region(facts):
    if hasattr(facts, "_region"):
        return facts._region
    seen = {}
    work = [(f, None) for f in entry_fns(facts)]
    while work:
        f, parent = work.pop()
        if f.id in seen:
            continue
        seen[f.id] = parent
        for n in sorted(local_callees(facts, f)):
            if n not in seen:
                work.append((facts.fns[n], f.id))
    facts._region = seen
    return seen


def chain(region, fid, limit=8):
    out = [fid]
    while region.get(out[-1]) and len(out) < limit:
        out.append(region[out[-1]])
    return out[::-1]


def panic_sites(facts, f):
    """[(bb, kind, description, term)] for every construct of f that can panic"""
    out = []
    for bb in sorted(f.live_blocks()):
        if f.blocks[bb]["cleanup"]:
            continue
        t = f.term(bb)
        if t["t"] == "assert":
            k = re.split(r"[ ({]", t["kind"])[0]
            out.append((bb, "assert:" + k, t["msg"][:60], t))
        elif t["t"] == "call":
            n = call_name(t)
            c = t.get("callee") or ""
            if PANIC_CALLS.match(n) or PANIC_CALLS.match(c):
                out.append((bb, "call:" + short(n), short(n), t))
            elif INDEX_CALLS.match(c):
                out.append((bb, "index", short(t.get("res_name") or n), t))
            elif ARITH_PANIC.match(t.get("res_name") or n) or ARITH_PANIC.match(n):
                out.append((bb, "arith", short(t.get("res_name") or n), t))
            elif OTHER_PANICKY.search(n):
                out.append((bb, "call:" + short(n), short(n), t))
            elif SORT_WITH_COMPARATOR.search(n):
                out.append((bb, "sort-comparator", short(n), t))
    return out
