"""C18 — 100 Continue is sent exactly when the application first asks for the body."""
import re
from core import *  # noqa
from roles import *  # noqa
import roles, shared, symex

EXPLANATION = (
    "Flag census and must-pass-through on MIR: Request.must_send_continue is written only at construction (from the Expect decision) and "
    "cleared in as_reader; on the flag's true edge as_reader builds a bodiless 100 response, prints it into the request's own writer, flushes "
    "and clears the flag on every normal path before handing out the body reader, and touches no writer on the false edge; no other "
    "Request method reads the flag or builds a 100; a request expecting 100-continue is never pre-read at parse time; 1xx responses cannot be "
    "chunked or carry a body (shared decision rules).")
TRUSTED = ["rustc MIR", "move semantics: final-response paths consume the Request, so the interim response precedes them"]


def run(ctx):
    facts = ctx.facts
    roles.bind(facts)
    nr = facts.fn("request::new_request")
    as_reader = roles.inherent(facts, REQ, "as_reader")
    FLAG = "must_send_continue"

    # ---- C18.1 who writes the flag
    n = 0
    for f, bb, kind, x in facts.field_writes(REQ, FLAG):
        n += 1
        ctx.touch(f)
        if kind == "construct":
            ok = f.id == nr.id
            r = x["rhs"]
            o = f.origin(r["ops"][r["fields"].index(FLAG)])
            # the expects_continue local: true only on the `100-continue` arm
            ctx.ob("C18.1", "flag-init|%s" % f.id, "the flag is initialised by new_request", ok, f.loc(bb))
            l = [y[1] for y in origin_walk(o) if y[0] == "local"]
            okv = False
            if l:
                defs = [d for d in f.defs().get(l[0], []) if d[0] == "assign"]
                trues = [d for d in defs if op_const(d[3].get("op", {})) is True]
                falses = [d for d in defs if op_const(d[3].get("op", {})) is False]
                okv = len(trues) >= 1 and len(trues) + len(falses) == len(defs)
                for d in trues:
                    tb = d[1]
                    good = False
                    for cb, t in f.calls():
                        if call_matches(t, r"eq_ignore_ascii_case$") and "100-continue" in arg_consts(f, t) and t.get("target") is not None:
                            bs = bool_switch(f, t["target"])
                            if bs and bs[1] != bs[2] and f.dominates(bs[1], tb, unwind=False):
                                good = True
                    okv = okv and good
            ctx.ob("C18.1", "flag-value|%s" % f.id, "the flag is true exactly when an `Expect: 100-continue` header was recognised", okv, f.loc(bb), origin_str(o))
        else:
            ok = f.id == as_reader.id and kind == "assign" and x["rhs"]["rv"] == "use" and op_const(x["rhs"]["op"]) is False
            ctx.ob("C18.1", "flag-write|%s" % f.id, "after construction the flag is only ever cleared, and only by as_reader", ok, f.loc(bb))
    ctx.floor("C18.1 flag writes", n, 1)
    clears_ = [1 for g_, b_, k_, x_ in facts.field_writes(REQ, FLAG) if g_.id == as_reader.id and k_ == "assign"]
    ctx.ob("C18.1", "flag-cleared-by-as_reader", "as_reader clears the flag (so the interim response is sent once)", bool(clears_), "%s:%d" % (as_reader.file, as_reader.line))
    for f, bb, kind in facts.field_reads(REQ, FLAG):
        ctx.ob("C18.3", "flag-read|%s" % f.id, "only as_reader consults the flag (answering without asking for the body sends no interim response)", f.id == as_reader.id, f.loc(bb))

    # ---- C18.2 as_reader
    f = as_reader
    ctx.touch(f)
    sw = None
    for bb in sorted(f.live_blocks()):
        bs = bool_switch(f, bb)
        if bs and FLAG in origin_fields(f.origin(bs[0])):
            sw = (bb, bs)
            break
    ctx.require(sw is not None, "C18.2: as_reader does not branch on the flag")
    bb, bs = sw
    t_edge, f_edge = bs[1], bs[2]
    rps = [b for b, t in f.calls() if call_matches(t, r"raw_print$")]
    flushes = [b for b, t in f.calls() if t.get("callee") == "std::io::Write::flush" or call_matches(t, r"as std::io::Write>::flush$|impl std::io::Write for .*>::flush$")]
    clears = [b for g, b, kind, x in facts.field_writes(REQ, FLAG) if g.id == f.id and kind == "assign"]
    ctx.require(rps, "C18.2: raw_print not found in as_reader")
    for nm_, bl_ in (("flush", flushes), ("clear of the flag", clears)):
        if not bl_:
            ctx.ob("C18.2", "%s|has-%s" % (f.id, nm_.split()[0]), "as_reader performs the %s" % nm_, False, "%s:%d" % (f.file, f.line))
    if not (flushes and clears):
        return {}
    rets = f.returns()
    for name, blocks in (("prints", rps), ("flushes", flushes), ("clears-flag", clears)):
        reach = f.reach([t_edge], blocked=set(blocks), unwind=False)
        ok = not any(r in reach for r in rets)
        ctx.paths += 1
        ctx.ob("C18.2", "%s|true-edge-%s" % (f.id, name), "when the flag is set, as_reader %s before returning, on every normal path" % name, ok, f.loc(t_edge))
    # order: print -> flush -> clear
    ok = all(f.dominates(rps[0], fl, unwind=False) for fl in flushes) and all(any(f.dominates(fl, c, unwind=False) for fl in flushes) for c in clears)
    ctx.ob("C18.2", "%s|order" % f.id, "the interim response is printed, then flushed, then the flag is cleared", ok, f.loc(rps[0]))
    # what is printed: status 100, no body, into the request's own writer
    t = f.term(rps[0])
    o_resp = f.origin(t["args"][0])
    codes = [c for b, c in shared.status_consts_in(f)]
    ctx.ob("C18.2", "%s|status-100" % f.id, "the interim response has status 100", codes == [100] and origin_has_call(o_resp, r"Response::<std::io::Empty>::(new_empty|empty)"), f.loc(rps[0]), str(codes))
    ow = f.origin(t["args"][1])
    ctx.ob("C18.2", "%s|own-writer" % f.id, "it is written to this request's response writer", "response_writer" in origin_fields(ow), f.loc(rps[0]), origin_str(ow))
    ctx.ob("C18.2", "%s|no-body" % f.id, "it is printed without a body", op_const(t["args"][4]) is True, f.loc(rps[0]))
    for fl in flushes:
        ofl = f.origin(f.term(fl)["args"][0])
        ctx.ob("C18.2", "%s|flushes-own-writer" % f.id, "the flush is on the same writer", "response_writer" in origin_fields(ofl), f.loc(fl))
    # false edge: no writer operation
    # (blocks reachable from the false edge that are not also behind the true edge's work: the join is shared)
    r_false = f.reach([f_edge], unwind=False)
    touched = [b for b in r_false if b in rps or b in flushes]
    ctx.ob("C18.2", "%s|false-edge-silent" % f.id, "when the flag is clear, as_reader writes nothing", not touched, f.loc(f_edge))
    # the returned reader is the request's data_reader
    o = f.origin_place({"l": 0, "p": []})
    ctx.ob("C18.2", "%s|returns-body-reader" % f.id, "as_reader returns the request's body reader", "data_reader" in origin_fields(o), "%s:%d" % (f.file, f.line), origin_str(o))
    ctx.ob("C18.2", "%s|not-in-loop" % f.id, "the interim response is sent at most once per call", not f.in_loop(rps[0]), f.loc(rps[0]))

    # ---- C18.3 no other interim response
    for g, bb, s in facts.constructions(STATUS):
        c = op_const(s["rhs"]["ops"][0])
        if c == 100:
            ctx.ob("C18.3", "status-100|%s" % g.id, "a 100 status is built only by as_reader", g.id == f.id, g.loc(bb))
    for k, g in sorted(facts.local_fns.items()):
        for bb, t in g.calls():
            if call_matches(t, r"Response::<std::io::Empty>::(empty|new_empty)") and t["args"]:
                c = op_const(t["args"][0])
                if c == 100:
                    ctx.ob("C18.3", "status-100-call|%s" % g.id, "a 100 response is built only by as_reader", g.id == f.id, g.loc(bb))

    # ---- C18.4 never pre-read when the client waits for 100
    pre = [bb for bb, t in nr.calls() if t.get("callee") == "std::io::Read::read" and nr.in_loop(bb)]
    ctx.ob("C18.4", "%s|preread-exists" % nr.id, "(anchor) new_request pre-reads small bodies", bool(pre), "%s:%d" % (nr.file, nr.line), nontrivial=False)
    for i, pb in enumerate(pre):
        dom = nr.dominators(False)
        ok = False
        for b in dom[pb]:
            bs2 = bool_switch(nr, b)
            if not bs2 or bs2[1] == bs2[2]:
                continue
            o = nr.origin(bs2[0])
            locs = [y[1] for y in origin_walk(o) if y[0] == "local"]
            if not locs:
                continue
            # same local as the one initialising the flag
            flag_init = None
            for g, bb2, kind, x in facts.field_writes(REQ, FLAG):
                if kind == "construct" and g.id == nr.id:
                    oo = g.origin(x["rhs"]["ops"][x["rhs"]["fields"].index(FLAG)])
                    flag_init = [y[1] for y in origin_walk(oo) if y[0] == "local"]
            if flag_init and locs[0] == flag_init[0] and nr.dominates(bs2[2], pb, unwind=False):
                ok = True
        ctx.ob("C18.4", "%s|no-preread-when-expecting|%d" % (nr.id, i), "the body of a request that expects 100-continue is not read at parse time (the client has not sent it yet)", ok, nr.loc(pb))

    # ---- C18.5 interim responses are never chunked and carry no body
    cte = facts.fn("response::choose_transfer_encoding")
    ok = False
    for bb in sorted(cte.live_blocks()):
        bs2 = bool_switch(cte, bb)
        if not bs2:
            continue
        o = cte.origin(bs2[0])
        if o[0] == "binop" and o[1] == "Lt" and o[3][0] == "const" and o[3][1] == 200:
            outs = shared.eval_from(cte, bs2[1])
            if outs and all(st.read_key((0,))[0] == "agg" and st.read_key((0,))[2] == "Identity" for p, st in outs):
                ok = True
    ctx.ob("C18.5", "%s|1xx-identity" % cte.id, "a 1xx response is never chunked", ok, "%s:%d" % (cte.file, cte.line))
    return {}
