"""C18 — 100 Continue is sent exactly when the application first asks for the body."""
import re
from core import *  # noqa
from roles import *  # noqa
import roles, shared, symex

EXPLANATION = (
    "Flag census and must-pass-through on MIR: Request.must_send_continue is written only at construction (from the Expect decision) and "
    "cleared in as_reader; on the flag's true edge as_reader builds a bodiless 100 response, prints it into the request's own writer, flushes "
    "and clears the flag on every normal path before handing out the body reader, and touches no writer on the false edge; no other "
    "Request method reads the flag or builds a 100; a request expecting 100-continue is never pre-read at parse time; 1xx responses cannot be "
    "chunked or carry a body (shared decision rules).")
TRUSTED = ["rustc MIR", "move semantics: final-response paths consume the Request, so the interim response precedes them"]


def run(ctx):
    facts = ctx.facts
    roles.bind(facts)
    import request_rules as RR, framing_rules as FRM, absint, inline
    import queue_rules as Q
    RM = RR.rmodel(facts)
    FM = FRM.fmodel(facts)
    as_reader = RM.methods.get("as_reader")
    ctx.require(as_reader is not None, "C18: Request::as_reader not found")
    where = "%s:%d" % (as_reader.file, as_reader.line)

    # ---- the flag: the bool field of Request that as_reader's behaviour depends on
    bools = shared.find_slot_paths(facts, REQ, r"^bool$")        # (at any depth of private sub-structs)
    flag = None
    flag_path = None
    behaviour = {}
    for b in bools:
        outs = {}
        for val in (True, False):
            f, ps = RM.run(as_reader, extra={RM.key(RM.self_base(as_reader), b): ("const", val, str(val).lower(), None)})
            outs[val] = (f, ps)
        np_t = [len(RM.prints(p)) for p in outs[True][1]]
        np_f = [len(RM.prints(p)) for p in outs[False][1]]
        if np_t != np_f:
            flag_path = b
            flag = b[-1]
            behaviour = outs
    ctx.ob("C18.2", "%s|has-continue-flag" % as_reader.id, "as_reader's sending of the interim response depends on one boolean field of the Request", flag is not None, where)
    if flag is None:
        return {}
    FLAGKEY = RM.key(RM.self_base(as_reader), flag_path)
    FLAG_OWNER, _ = shared.owner_of_path(facts, REQ, flag_path)

    # ---- C18.1 who writes the flag; its initial value
    n = 0
    for f, bb, kind, x in facts.field_writes(FLAG_OWNER, flag):
        n += 1
        ctx.touch(f)
        if kind == "construct":
            ctx.ob("C18.1", "flag-init|%s" % f.id, "the flag is initialised where the Request is built", f.file == FM.nr0.file, f.loc(bb))
        else:
            ok = f.file == RM.file and kind == "assign" and x["rhs"]["rv"] == "use" and op_const(x["rhs"]["op"]) is False
            ctx.ob("C18.1", "flag-write|%s" % f.id, "after construction the flag is only ever cleared, and only inside the request module", ok, f.loc(bb))
    ctx.floor("C18.1 flag writes", n, 1)
    bad = []
    rows = 0
    for A in FRM.assignments():
        W = FRM.want(A)
        if W["kind"] != "ok":
            continue
        needed = [h for h, on in (("Transfer-Encoding", A["te"]), ("Content-Length", A["cl"] is not None), ("Expect", A["expect"] != "absent"), ("Connection", A["upgrade"])) if on and h in FM.scan_headers]
        if len(needed) > FM.max_visits - 1:
            continue
        rows += 1
        for r in FM.rows:
            if r["end"] == "return" and r["kind"] == "ok" and FM.compatible(r, A):
                v = absint.const_of(absint.deep(r["path"].state, FRM.term_at(("agg", REQ, "Request", r["request"]), flag_path)))
                if v is not W["continue"]:
                    bad.append((A, v))
    ctx.ob("C18.1", "flag-value|%s" % FM.nr0.id, "the flag is true exactly when an `Expect: 100-continue` header was recognised", rows > 0 and not bad, "%s:%d" % (FM.nr0.file, FM.nr0.line), None if not bad else str(bad[:3]))
    for f, bb, kind in facts.field_reads(FLAG_OWNER, flag):
        ctx.ob("C18.3", "flag-read|%s" % f.id, "only the request module consults the flag, and only on the way to the body (answering without asking for the body sends no interim response)",
               f.file == RM.file and f.id in [d for dep, d in RM.fn(as_reader).inlined], f.loc(bb))

    # ---- C18.2 as_reader with the flag set: print 100 (no body) into the own writer, flush it, clear the flag; with it clear: silent
    f, ps = behaviour[True]
    ctx.touch(f, paths=len(ps))
    bad = []
    for p in ps:
        if p.end[0] != "return":
            continue
        pr = RM.prints(p)
        if len(pr) != 1:
            bad.append("%d interim responses" % len(pr))
            continue
        i, e = pr[0]
        if RM.status_consts(p, e) != {100}:
            bad.append("status %s" % sorted(RM.status_consts(p, e)))
        if not RM.arg_mentions(p, e, 1, RR.WRITER):
            bad.append("not written to this request's response writer")
        nb = shared.print_call_args(facts, p.state, e).get("suppress")
        if nb is None or absint.const_of(nb) is not True:
            bad.append("printed with a body")
        fl = [j for j, ev in enumerate(p.events) if j > i and ev[1] == "call" and ((ev[6] or "") == "std::io::Write::flush" or re.search(r"Write>::flush$", ev[2])) and RM.arg_mentions(p, ev, 0, RR.WRITER)]
        if not fl and e[2] not in shared.flushing_printers(facts):
            bad.append("not flushed (the client would keep waiting for the 100)")
        v = p.state.read_key(FLAGKEY)
        if absint.const_of(v) is not False:
            bad.append("flag not cleared: the interim response would be sent again")
        if not absint.contains(absint.deep(p.state, p.ret()), RR.READER) and not any(x and x[0] == "ref" for x in absint.walk_terms(p.ret())):
            bad.append("does not return the body reader")
    ctx.ob("C18.2", "%s|flag-set" % as_reader.id, "with the flag set, as_reader prints exactly one bodiless 100 into the request's own writer, flushes it, clears the flag and returns the body reader, on every path",
           bool(ps) and not bad, where, None if not bad else str(bad[:3]))
    f, ps = behaviour[False]
    touched = []
    for p in ps:
        for e in p.calls():
            if re.search(RR.RAW_PRINT, e[2]) or (e[6] or "").startswith("std::io::Write::"):
                touched.append(short(e[2]))
    ctx.ob("C18.2", "%s|flag-clear-silent" % as_reader.id, "with the flag clear, as_reader writes nothing", bool(ps) and not touched, where, None if not touched else str(touched[:3]))
    # the body reader is what as_reader returns
    okr = all(any(isinstance(x, tuple) and x and x[0] == "ref" and any(seg == "." + RM.rslot[-1] for seg in x[1] if isinstance(seg, str)) for x in absint.walk_terms(p.ret())) or absint.contains(absint.deep(p.state, p.ret()), RR.READER)
              for p in ps if p.end[0] == "return")
    ctx.ob("C18.2", "%s|returns-body-reader" % as_reader.id, "as_reader returns the request's body reader", bool(ps) and okr, where)

    # ---- C18.3 no other interim response
    for g, bb, s in facts.constructions(STATUS):
        c = op_const(s["rhs"]["ops"][0])
        if c == 100:
            ctx.ob("C18.3", "status-100|%s" % g.id, "a 100 status is built only on as_reader's path", g.id in [d for dep, d in RM.fn(as_reader).inlined], g.loc(bb))
    for k, g in sorted(facts.local_fns.items()):
        for bb, t in g.calls():
            if call_matches(t, r"Response::<std::io::Empty>::(empty|new_empty)") and t["args"]:
                c = op_const(t["args"][0])
                if c == 100:
                    ctx.ob("C18.3", "status-100-call|%s" % g.id, "a 100 response is built only on as_reader's path", g.id in [d for dep, d in RM.fn(as_reader).inlined], g.loc(bb))
    # respond / into_writer / Drop send no interim response
    for name in ("respond", "into_writer"):
        g = RM.methods.get(name)
        if g is None:
            continue
        extra = {RM.key(RM.self_base(g), flag_path): ("const", True, "true", None)}
        f, ps = RM.run(g, extra=extra)
        st = set()
        for p in ps:
            for i, e in RM.prints(p):
                st |= RM.status_consts(p, e)
        ctx.ob("C18.3", "%s|no-interim" % g.id, "answering without asking for the body sends no interim response", 100 not in st, "%s:%d" % (g.file, g.line))

    # ---- C18.4 never pre-read when the client waits for 100
    bad = []
    for A in FRM.assignments():
        if A["expect"] != "100":
            continue
        needed = [h for h, on in (("Transfer-Encoding", A["te"]), ("Content-Length", A["cl"] is not None), ("Expect", True), ("Connection", A["upgrade"])) if on and h in FM.scan_headers]
        if len(needed) > FM.max_visits - 1:
            continue
        for r in FM.rows:
            if r["end"] in ("return", "cut") and FM.compatible(r, A) and r["reads"] > 0:
                bad.append(A)
    ctx.ob("C18.4", "%s|no-preread-when-expecting" % FM.nr0.id, "the body of a request that expects 100-continue is not read at parse time (the client has not sent it yet)", not bad, "%s:%d" % (FM.nr0.file, FM.nr0.line),
           None if not bad else str(bad[:3]))
    ctx.ob("C18.4", "%s|preread-exists" % FM.nr0.id, "(anchor) new_request reads small bodies at parse time", any(r["reads"] > 0 for r in FM.rows), "%s:%d" % (FM.nr0.file, FM.nr0.line), nontrivial=False)

    # ---- C18.6 the interim response reaches the wire: the printer writes a head for a 100 status on every successful path (whatever the
    # request's version: it may not be dropped silently)
    import response_rules as RSP
    RM_ = RSP.resp_model(facts)
    bad6, n6 = [], 0
    for te_ in ("Identity", "Chunked"):
        for pth in RM_.run(100, 0, True, te_, False):
            S_ = RM_.summary(pth)
            if not S_["ok"]:
                continue
            n6 += 1
            if S_["head"] is None:
                bad6.append("returns Ok without having written the head")
    ctx.ob("C18.6", "%s|interim-head-written" % RM_.rp.id, "printing a 100 response writes its head on every successful path", n6 > 0 and not bad6, "%s:%d" % (RM_.rp.file, RM_.rp.line), None if not bad6 else bad6[0])

    # ---- C18.5 interim responses are never chunked and carry no body
    import rules_C05
    CM = rules_C05.chooser_model(facts)
    cte = CM.cte
    bad5 = []
    for stt in (100, 101, 102, 199):
        for ver in ((1, 0), (1, 1), (2, 0)):
            for ln in (None, 0, 5, 100000):
                outs, npaths = CM.outcomes(ver, stt, ln, 32768)
                ctx.paths += npaths
                if outs != {"Identity"}:
                    bad5.append((stt, ver, ln, sorted(outs)))
    ctx.ob("C18.5", "%s|1xx-identity" % cte.id, "a 1xx response is never chunked, whatever the request's TE header, version and the body length say", not bad5, "%s:%d" % (cte.file, cte.line), None if not bad5 else str(bad5[:3]))
    # ---- C18.7 flushing the request's writer takes its turn and flushes the socket (the writer chain's rule C01.2, taken over)
    import rules_C01, engine
    c2_ = engine.Ctx("C18", "quick", facts, 0)
    try:
        rules_C01.run(c2_)
        n_ = engine.take_over(ctx, c2_.obs, lambda o: o.rule == "C01.2" and "flush" in o.key, "C18.7", "the interim response reaches the wire at once: ")
        ctx.floor("C18.7 obligations on the writer's flush", n_, 1)
    except CheckerError as e:
        raise CheckerError("C18.7 (the turn-taking writer could not be evaluated): %s" % e)
    return {}
