"""Path-sensitive pruning of infeasible MIR paths: propagation of enum variants, boolean
constants and copy-equivalences along each path (a small abstract interpretation; no solver).

Used to discharge `assert!(x.is_some())` / `x.unwrap()` style sites whose safety follows from an
earlier `match` on the same (or a copied) value, and to prune drop-elaboration diamonds."""
from core import pl_key, op_place, op_const, op_local, switch_on_discr, bool_switch, call_name

MAX_STATES = 96


def _is_prefix(a, b):
    return len(a) <= len(b) and b[:len(a)] == a


class State:
    __slots__ = ("facts", "eq")

    def __init__(self, facts=None, eq=None):
        self.facts = dict(facts or {})   # place key -> ('v', variant) | ('c', const) | ('r', target key, mut)
        self.eq = set(eq or ())          # {(a, b)}: copy equivalence of places, both directions stored

    def freeze(self):
        return (frozenset(self.facts.items()), frozenset(self.eq))

    def clone(self):
        return State(self.facts, self.eq)

    def kill(self, key):
        for k in [k for k in self.facts if _is_prefix(key, k) or _is_prefix(k, key) and k != key and False]:
            del self.facts[k]
        for k in [k for k in self.facts if _is_prefix(key, k)]:
            del self.facts[k]
        self.eq = {(a, b) for a, b in self.eq if not (_is_prefix(key, a) or _is_prefix(key, b) or _is_prefix(a, key) or _is_prefix(b, key))}

    def copy_facts(self, src, dst):
        for k, v in list(self.facts.items()):
            if _is_prefix(src, k):
                self.facts[dst + k[len(src):]] = v

    def learn(self, key, val, depth=0):
        self.facts[key] = val
        if depth > 6:
            return
        for a, b in list(self.eq):
            if _is_prefix(a, key):
                k2 = b + key[len(a):]
                if self.facts.get(k2) != val:
                    self.learn(k2, val, depth + 1)

    def variant(self, key):
        v = self.facts.get(key)
        return v[1] if v and v[0] == "v" else None

    def const(self, key):
        v = self.facts.get(key)
        return v[1] if v and v[0] == "c" else None


class PathSim:
    def __init__(self, f, unwind=False):
        self.f = f
        self.unwind = unwind
        self.at = {}       # bb -> list of State (entry)
        self.edges_taken = set()
        self._run()

    def _join_cap(self, bb, st):
        lst = self.at.setdefault(bb, [])
        fz = st.freeze()
        for s in lst:
            if s.freeze() == fz:
                return False
        if len(lst) >= MAX_STATES:
            # merge: keep only facts common with the first state (sound: fewer facts)
            base = lst[0]
            common = {k: v for k, v in base.facts.items() if st.facts.get(k) == v}
            if common == base.facts:
                return False
            base.facts = common
            base.eq = base.eq & st.eq
            return True
        lst.append(st)
        return True

    def exec_stmts(self, bb, st):
        f = self.f
        for s in f.stmts(bb):
            if s["s"] != "assign":
                if s["s"] == "setdiscr":
                    st.learn(pl_key(s["lhs"]), ("v", s["variant"]))
                continue
            lhs = pl_key(s["lhs"])
            r = s["rhs"]
            k = r["rv"]
            new_fact = None
            copies = []
            if k == "agg":
                if r["agg"] == "adt" and r.get("variant") is not None:
                    new_fact = ("v", r["variant"])
                    names = r.get("fields") or []
                    for n, o in zip(names, r["ops"]):
                        p = op_place(o)
                        if p is not None:
                            copies.append((pl_key(p), lhs + ("as " + r["variant"], "." + n)))
                        elif op_const(o) is not None and isinstance(op_const(o), (bool, int)):
                            copies.append((("const", op_const(o)), lhs + ("as " + r["variant"], "." + n)))
                elif r["agg"] == "tuple":
                    for i, o in enumerate(r["ops"]):
                        p = op_place(o)
                        if p is not None:
                            copies.append((pl_key(p), lhs + (".%d" % i,)))
            elif k == "use":
                p = op_place(r["op"])
                c = op_const(r["op"])
                if p is not None:
                    copies.append((pl_key(p), lhs))
                elif isinstance(c, (bool, int)):
                    new_fact = ("c", c)
            elif k in ("ref", "rawptr"):
                new_fact = ("r", pl_key(r["pl"]), bool(r.get("mut")))
            elif k == "unop" and r["op"] == "Not":
                p = op_place(r["a"])
                if p is not None and isinstance(st.const(pl_key(p)), bool):
                    new_fact = ("c", not st.const(pl_key(p)))
            elif k == "binop" and r["op"] in ("Eq", "Ne"):
                va = self._opval(st, r["a"])
                vb = self._opval(st, r["b"])
                if va is not None and vb is not None:
                    new_fact = ("c", (va == vb) if r["op"] == "Eq" else (va != vb))
            # gather facts to copy before killing the destination
            staged = []
            for src, dst in copies:
                if src[0] == "const":
                    staged.append((dst, ("c", src[1]), None))
                    continue
                for kk, vv in list(st.facts.items()):
                    if _is_prefix(src, kk):
                        staged.append((dst + kk[len(src):], vv, None))
                staged.append((None, None, (src, dst)))
            st.kill(lhs)
            if new_fact is not None:
                st.facts[lhs] = new_fact
            for dst, vv, eqp in staged:
                if eqp is not None:
                    st.eq.add((eqp[0], eqp[1]))
                    st.eq.add((eqp[1], eqp[0]))
                else:
                    st.facts[dst] = vv
        return st

    def _opval(self, st, o):
        c = op_const(o)
        if isinstance(c, (bool, int)):
            return c
        p = op_place(o)
        if p is not None:
            return st.const(pl_key(p))
        return None

    def _run(self):
        f = self.f
        start = State()
        self.at[0] = [start]
        self._drain([(0, start)])

    def _drain(self, work):
        f = self.f
        steps = 0
        while work:
            bb, st0 = work.pop()
            steps += 1
            if steps > 200000:
                break
            st = self.exec_stmts(bb, st0.clone())
            t = f.term(bb)
            outs = []
            if t["t"] == "switch":
                sw = switch_on_discr(f, bb)
                handled = False
                if sw:
                    rv, m, otherwise, rest = sw
                    key = pl_key(rv["pl"])
                    known = st.variant(key)
                    all_targets = [(v, b) for v, b in m.items()]
                    if known is not None:
                        tgt = m.get(known, otherwise if known in rest or known not in m else None)
                        if tgt is not None:
                            outs.append((tgt, st))
                        handled = True
                    else:
                        for v, b in all_targets:
                            s2 = st.clone()
                            s2.learn(key, ("v", v))
                            outs.append((b, s2))
                        if rest:
                            s2 = st.clone()
                            if len(rest) == 1:
                                s2.learn(key, ("v", rest[0]))
                            outs.append((otherwise, s2))
                        handled = True
                if not handled:
                    bs = bool_switch(f, bb)
                    p = op_place(t["discr"])
                    if bs and p is not None:
                        key = pl_key(p)
                        c = st.const(key)
                        if isinstance(c, bool):
                            outs.append((bs[1] if c else bs[2], st))
                        else:
                            s1 = st.clone(); s1.learn(key, ("c", True)); outs.append((bs[1], s1))
                            s2 = st.clone(); s2.learn(key, ("c", False)); outs.append((bs[2], s2))
                    else:
                        c = self._opval(st, t["discr"])
                        if isinstance(c, int) and not isinstance(c, bool):
                            tg = dict((v, b) for v, b in t["targets"])
                            outs.append((tg.get(c, t["otherwise"]), st))
                        else:
                            for s in f.raw_succs(bb, False):
                                outs.append((s, st.clone()))
            elif t["t"] == "call":
                self._call(st, t)
                if t.get("target") is not None:
                    outs.append((t["target"], st))
                if self.unwind and isinstance(t.get("unwind"), int):
                    outs.append((t["unwind"], st0.clone()))
            elif t["t"] in ("drop", "assert"):
                if t["t"] == "drop":
                    st.kill(pl_key(t["pl"]))
                if t["t"] == "assert":
                    # cannot continue on the normal edge if the condition is known to fail
                    c = self._opval(st, t["cond"])
                    if isinstance(c, bool) and c != t["expected"]:
                        pass
                    else:
                        outs.append((t["target"], st))
                else:
                    outs.append((t["target"], st))
                if self.unwind and isinstance(t.get("unwind"), int):
                    outs.append((t["unwind"], st0.clone()))
            elif t["t"] == "goto":
                outs.append((t["target"], st))
            for tgt, s2 in outs:
                self.edges_taken.add((bb, tgt))
                if self._join_cap(tgt, s2):
                    work.append((tgt, s2))

    def _call(self, st, t):
        name = call_name(t)
        dest = pl_key(t["dest"])
        res = None
        # mutable references handed to a call may change their target
        targets = []
        for a in t["args"]:
            p = op_place(a)
            if p is None:
                continue
            v = st.facts.get(pl_key(p))
            if v and v[0] == "r":
                targets.append((v[1], v[2]))
        if name in ("std::option::Option::<T>::is_some", "std::option::Option::<T>::is_none",
                    "std::result::Result::<T, E>::is_ok", "std::result::Result::<T, E>::is_err") and targets:
            var = st.variant(targets[0][0])
            if var is not None:
                want = {"is_some": "Some", "is_none": "None", "is_ok": "Ok", "is_err": "Err"}[name.rsplit("::", 1)[1]]
                res = ("c", var == want)
        elif name == "std::option::Option::<T>::take" and targets:
            old = st.variant(targets[0][0])
            st.kill(targets[0][0])
            st.facts[targets[0][0]] = ("v", "None")
            if old is not None:
                res = ("v", old)
            targets = []
        elif name in ("std::option::Option::<T>::as_mut", "std::option::Option::<T>::as_ref", "std::result::Result::<T, E>::as_ref",
                      "std::result::Result::<T, E>::as_mut") and targets:
            var = st.variant(targets[0][0])
            if var is not None:
                res = ("v", var)
            targets = []
        elif name in ("std::mem::swap",) and len(targets) == 2:
            a, b = targets[0][0], targets[1][0]
            fa = {k[len(a):]: v for k, v in st.facts.items() if _is_prefix(a, k)}
            fb = {k[len(b):]: v for k, v in st.facts.items() if _is_prefix(b, k)}
            st.kill(a); st.kill(b)
            for suf, v in fb.items():
                st.facts[a + suf] = v
            for suf, v in fa.items():
                st.facts[b + suf] = v
            targets = []
        elif name == "std::mem::replace" and targets:
            a = targets[0][0]
            fa = {k[len(a):]: v for k, v in st.facts.items() if _is_prefix(a, k)}
            src = op_place(t["args"][1]) if len(t["args"]) > 1 else None
            fs = {}
            if src is not None:
                sk = pl_key(src)
                fs = {k[len(sk):]: v for k, v in st.facts.items() if _is_prefix(sk, k)}
            st.kill(a)
            for suf, v in fs.items():
                st.facts[a + suf] = v
            st.kill(dest)
            for suf, v in fa.items():
                st.facts[dest + suf] = v
            return
        if (t.get("callee") or "") == "std::ops::FromResidual::from_residual":
            # `?` on the error side: the residual of a Result is an Err, of an Option a None
            rty = self.f.local_ty(t["dest"]["l"]) if not t["dest"]["p"] else ""
            if rty.startswith("std::result::Result<"):
                res = ("v", "Err")
            elif rty.startswith("std::option::Option<"):
                res = ("v", "None")
        for tk, mut in targets:
            if mut:
                st.kill(tk)
        st.kill(dest)
        if res is not None:
            st.facts[dest] = res

    def forward_from(self, bb):
        """blocks reachable from `bb` on paths that are variant/flag-consistent with the states in
        which `bb` itself is reached (e.g. the epilogue actually executed after a given assignment)"""
        seeds = self.at.get(bb, [])
        saved_at, saved_edges = self.at, self.edges_taken
        self.at, self.edges_taken = {}, set()
        try:
            f = self.f
            work = []
            for s in seeds:
                self.at.setdefault(bb, []).append(s)
                work.append((bb, s))
            self._drain(work)
            return set(self.at)
        finally:
            self.at, self.edges_taken = saved_at, saved_edges

    # ---- queries
    def reachable(self, bb):
        return bb in self.at

    def states_before_term(self, bb):
        return [self.exec_stmts(bb, s.clone()) for s in self.at.get(bb, [])]
