"""Small symbolic evaluator over MIR paths (a term-domain abstract interpretation, no solver).

Used for provenance rules on short, loop-free functions: which value ends up in which field.
Models moves/copies, references, aggregates, field projection, and a handful of std helpers
(mem::swap / replace / take, Option::take, clone, channel, Some/None, Box::new, into/from identity,
unwrap).  Everything else becomes an opaque ('call', name, args) term.
"""
import re
from core import pl_key, op_place, op_const, call_name, CheckerError

IDENTITY_CALLS = (
    "std::boxed::Box::<T>::new",
    "<T as std::convert::Into<U>>::into",
    "<T as std::convert::From<T>>::from",
    "std::convert::identity",
)


class Sym:
    def __init__(self, f):
        self.f = f
        self.mem = {}      # place key -> value
        self.counter = 0
        self.calls = []    # (bb, name, args values, result value)

    def clone(self):
        s = Sym(self.f)
        s.mem = dict(self.mem)
        s.counter = self.counter
        s.calls = list(self.calls)
        if hasattr(self, "assumed"):
            s.assumed = dict(self.assumed)
        return s

    # ---- memory
    def init_val(self, key):
        return ("init", key)

    def read_key(self, key):
        """value stored at an exact place key (projecting through known aggregates / refs)"""
        if key in self.mem:
            return self.mem[key]
        # longest stored prefix, projected; if nothing on the way was ever written, the place
        # still holds its value from function entry
        for n in range(len(key) - 1, 0, -1):
            if key[:n] in self.mem:
                v = self.mem[key[:n]]
                for i in range(n, len(key)):
                    v = self.project(v, key[i], key[:i + 1])
                return v
        # a place of which only parts were written (`self.slot = ..` with `*self` otherwise untouched), read as a whole (`helper(self)`):
        # its entry value overlaid with the parts written since
        subs = {k[len(key):]: v for k, v in self.mem.items() if len(k) > len(key) and k[:len(key)] == key and all(isinstance(e, str) and e.startswith(".") for e in k[len(key):])}
        if subs:
            return ("overlay", self.init_val(key), subs)
        return self.init_val(key)

    def project(self, base, last, key):
        if base[0] == "init" and isinstance(base[1], tuple):
            # a projection of a place that still holds its entry value is the place one step deeper -- which may have been written
            k2 = base[1] + (last,)
            if k2 in self.mem:
                return self.mem[k2]
            if any(len(k) > len(k2) and k[:len(k2)] == k2 for k in self.mem):
                return self.read_key(k2)
            if isinstance(last, str) and last.startswith(".") and not any(isinstance(e, str) and e.startswith("as ") for e in base[1][-1:]):
                # a field of what a place held on entry is what the field's place held on entry (a Copy newtype passed by value)
                return ("init", k2)
        if base[0] == "overlay":
            d = base[2]
            if (last,) in d:
                return d[(last,)]
            inner = self.project(base[1], last, key)
            deeper = {k[1:]: v for k, v in d.items() if k[0] == last and len(k) > 1}
            return ("overlay", inner, deeper) if deeper else inner
        if last == "*":
            if base[0] == "ref":
                return self.read_key(base[1])
            if base[0] == "constref":
                return base[1]
            if base[0] == "box":
                return base[1]
            if base[0] == "const":
                return base          # `&*"literal"`: the literal itself
            return ("deref", base)
        if isinstance(last, str) and last.startswith("."):
            name = last[1:]
            if base[0] == "agg":
                if name in base[3]:
                    return base[3][name]
            if base[0] == "tuple" and name.isdigit() and int(name) < len(base[1]):
                return base[1][int(name)]
            if base[0] == "variant" and name in base[3]:
                return base[3][name]
            if base[0] == "closure" and name in base[2]:
                return base[2][name]
            return ("field", base, name)
        if isinstance(last, str) and last.startswith("as "):
            v = last[3:]
            if base[0] == "agg" and base[2] == v:
                return ("variant", base[1], v, base[3])
            if base[0] == "some" and v == "Some":
                return ("variant", "Option", "Some", {"0": base[1]})
            return ("downcast", base, v)
        return ("index", base)

    def resolve_key(self, key):
        """follow refs so that `(*_5).x` where _5 = &mut (*_1).y becomes the key of (*_1).y.x"""
        out = (key[0],)
        for e in key[1:]:
            if e == "*":
                v = self.mem.get(out)
                if v is not None and v[0] == "ref":
                    out = v[1]
                    continue
            out = out + (e,)
        return out

    def write_key(self, key, val):
        key = self.resolve_key(key)
        # drop stale sub-places
        for k in [k for k in self.mem if len(k) > len(key) and k[:len(key)] == key]:
            del self.mem[k]
        # writing into a known aggregate held by an ancestor further up (`(*self).turns.last = ..` with the whole `*self` known):
        # rebuild that ancestor
        if len(key) > 2:
            for n in range(len(key) - 2, 0, -1):
                anc = key[:n]
                if anc in self.mem and self.mem[anc][0] in ("agg", "tuple"):
                    path = key[n:]
                    if all(isinstance(e, str) and e.startswith(".") for e in path):
                        def set_in(v, path, val):
                            name = path[0][1:]
                            if v[0] == "agg" and name in v[3]:
                                sub = val if len(path) == 1 else set_in(v[3][name], path[1:], val)
                                if sub is None:
                                    return None
                                d = dict(v[3]); d[name] = sub
                                return ("agg", v[1], v[2], d)
                            if v[0] == "tuple" and name.isdigit() and int(name) < len(v[1]):
                                sub = val if len(path) == 1 else set_in(v[1][int(name)], path[1:], val)
                                if sub is None:
                                    return None
                                xs = list(v[1]); xs[int(name)] = sub
                                return ("tuple", xs)
                            return None
                        nv = set_in(self.mem[anc], path, val)
                        if nv is not None:
                            self.mem[anc] = nv
                            return
                    break
        # writing into a value that was copied whole while only some of its parts were known (an entry value, possibly overlaid with the
        # parts written before the copy): the part written now replaces what the overlay says about it
        for n in range(len(key) - 1, 0, -1):
            anc = key[:n]
            if anc in self.mem:
                av = self.mem[anc]
                path = key[n:]
                if av[0] in ("overlay", "init") and all(isinstance(e, str) and e.startswith(".") for e in path):
                    inner, subs = (av[1], dict(av[2])) if av[0] == "overlay" else (av, {})
                    for k_ in [k_ for k_ in subs if k_[:len(path)] == path or path[:len(k_)] == k_]:
                        if len(k_) <= len(path) and k_ != path:
                            # a shorter overlay entry covers this place: write inside it when it is an aggregate, else give up the merge
                            break
                        del subs[k_]
                    else:
                        subs[tuple(path)] = val
                        self.mem[anc] = ("overlay", inner, subs)
                        return
                break
        # writing into a known aggregate held by the parent: rebuild the parent
        if len(key) > 1:
            parent = key[:-1]
            last = key[-1]
            if parent in self.mem and isinstance(last, str) and last.startswith("."):
                pv = self.mem[parent]
                if pv[0] == "agg":
                    d = dict(pv[3]); d[last[1:]] = val
                    self.mem[parent] = ("agg", pv[1], pv[2], d)
                    return
                if pv[0] == "tuple" and last[1:].isdigit():
                    xs = list(pv[1]); i = int(last[1:])
                    if i < len(xs):
                        xs[i] = val
                        self.mem[parent] = ("tuple", xs)
                        return
        self.mem[key] = val

    def read_place(self, p):
        return self.read_key(self.resolve_key(pl_key(p)))

    def operand(self, o):
        if o["k"] == "const":
            if "promoted" in o and getattr(self.f, "promoted", None) and o["promoted"] < len(self.f.promoted):
                return ("constref", promoted_value(self.f, o["promoted"]))
            if "const_def" in o:
                v = named_const_value(self.f.facts, o["const_def"])
                if v is not None:
                    return v
            if o.get("static") and re.match(r"^&(?!mut )", o.get("ty", "")):
                v = static_scalar(self.f.facts, o["static"])
                if v is not None:
                    return ("constref", v)
            if o.get("ty", "").startswith("std::option::Option<") and o.get("v", "").startswith("{transmute(0x0000000000000000)"):
                return ("none",)      # the all-zero constant of an Option of a non-null pointer (niche encoding of None)
            return ("const", op_const(o), o["v"], o.get("fn"))
        p = op_place(o)
        if p is None:
            return ("unknown",)
        return self.read_place(p)

    # ---- statements
    def rvalue(self, rv):
        k = rv["rv"]
        if k == "use":
            return self.operand(rv["op"])
        if k in ("ref", "rawptr"):
            return ("ref", self.resolve_key(pl_key(rv["pl"])))
        if k == "agg":
            ops = [self.operand(o) for o in rv["ops"]]
            if rv["agg"] == "tuple":
                return ("tuple", ops)
            if rv["agg"] == "adt":
                names = rv.get("fields") or [str(i) for i in range(len(ops))]
                if rv["adt"] == "std::option::Option":
                    if rv["variant"] == "None":
                        return ("none",)
                    return ("some", ops[0])
                return ("agg", rv["adt"], rv["variant"], dict(zip(names, ops)))
            if rv["agg"] == "closure":
                names = rv.get("fields") or [str(i) for i in range(len(ops))]
                return ("closure", rv["closure"], dict(zip(names, ops)))
            return ("aggx", rv["agg"], ops)
        if k == "binop":
            return ("binop", rv["op"], self.operand(rv["a"]), self.operand(rv["b"]))
        if k == "unop":
            return ("unop", rv["op"], self.operand(rv["a"]))
        if k == "cast":
            v = self.operand(rv["op"])
            if rv["kind"] in ("unsize",):
                return v
            return ("cast", rv["kind"], v, rv["to"])
        if k == "discr":
            return ("discr", self.read_place(rv["pl"]), tuple((a, b) for a, b in (rv.get("variants") or [])))
        if k == "repeat":
            return ("repeat", self.operand(rv["op"]), rv["n"])
        if k == "tyid":
            # which of the listed concrete types the value behind a reference has (a dispatch the inliner built for a call through a
            # trait object): known when the reference points into a place whose type the declarations give
            v = self.operand(rv["op"])
            ty = self.type_of_key(v[1]) if v and v[0] == "ref" and isinstance(v[1], tuple) else None
            if ty in rv["types"]:
                i = rv["types"].index(ty)
                return ("const", i, "%d_isize" % i, None)
            return ("tyid", v)
        return ("unknown",)

    def type_of_key(self, key):
        """declared type of a place, from the type of its local and the declarations of the structs and enums on the way (None when a type
        parameter or an unknown type is met)"""
        f = self.f
        facts = getattr(f, "facts", None)
        if facts is None or not isinstance(key[0], int) or key[0] >= len(f.locals):
            return None
        ty = f.locals[key[0]]["ty"]
        variant = None
        for seg in key[1:]:
            if ty is None:
                return None
            if seg == "*":
                m = re.match(r"^&('\w+ )?(mut )?(.*)$", ty) or re.match(r"^std::boxed::Box<(?P<x>.*)>$", ty)
                if not m:
                    return None
                ty = m.group(m.lastindex)
            elif isinstance(seg, str) and seg.startswith("as "):
                variant = seg[3:]
            elif isinstance(seg, str) and seg.startswith("."):
                a = facts.adts.get(re.sub(r"<.*$", "", ty))
                if a is None:
                    return None
                vs = [v for v in a["variants"] if variant is None or v["name"] == variant]
                variant = None
                fl = [x for v in vs[:1] for x in v["fields"] if x["name"] == seg[1:]]
                if not fl:
                    return None
                ty = fl[0]["ty"]
            else:
                return None
        return ty

    def step_block(self, bb):
        f = self.f
        for s in f.stmts(bb):
            if s["s"] == "assign":
                self.write_key(pl_key(s["lhs"]), self.rvalue(s["rhs"]))
        t = f.term(bb)
        if t["t"] == "call":
            name = call_name(t)
            args = [self.operand(a) for a in t["args"]]
            res = self.call(name, t, args, bb)
            self.calls.append((bb, name, args, res))
            self.write_key(pl_key(t["dest"]), res)
        elif t["t"] == "drop":
            pass

    def deref_arg(self, v):
        """key of the place a reference argument points to"""
        if v[0] == "ref":
            return v[1]
        return None

    def call(self, name, t, args, bb):
        callee = t.get("callee") or ""
        if t.get("via_shim") and len(args) == 2 and args[1][0] == "tuple":
            # a tuple-variant / tuple-struct constructor used as a function (`.map_err(ReadError::Io)`)
            adts = getattr(self.f.facts, "adts", {})
            adt, _, var = name.rpartition("::")
            a = adts.get(adt) or adts.get(name)
            if a is not None:
                if name in adts:
                    adt, var = name, adts[name]["variants"][0]["name"]
                v = [x for x in a["variants"] if x["name"] == var]
                if v and len(v[0]["fields"]) == len(args[1][1]):
                    names = [x["name"] for x in v[0]["fields"]]
                    if adt == "std::option::Option":
                        return ("some", args[1][1][0])
                    return ("agg", adt, var, dict(zip(names, args[1][1])))
            if name in ("std::option::Option::<T>::Some", "std::option::Option::Some"):
                return ("some", args[1][1][0])
            if name in ("std::result::Result::Ok", "std::result::Result::Err", "std::result::Result::<T, E>::Ok", "std::result::Result::<T, E>::Err"):
                return ("agg", "std::result::Result", name.rsplit("::", 1)[1], {"0": args[1][1][0]})
        if re.search(r"slice::<impl \[T\]>::(is_empty|len)$", name) and len(args) == 1:
            # length of a slice that is a whole fixed-size array (`[0; 1024]` borrowed as a slice)
            a = self.deref_arg(args[0])
            v = self.read_key(a) if a is not None else None
            hops = 0
            while v is not None and v[0] == "ref" and hops < 6:
                v = self.read_key(v[1]); hops += 1
            if v is not None and v[0] == "repeat" and str(v[2]).isdigit():
                n = int(v[2])
                if name.endswith("is_empty"):
                    return ("const", n == 0, "true" if n == 0 else "false", None)
                return ("const", n, "%d_usize" % n, None)
        # constant durations (`Duration::from_millis(0)` and what is asked of it)
        m = re.match(r"^std::time::Duration::(from_secs|from_millis|from_micros|from_nanos)$", name)
        if m and len(args) == 1 and args[0][0] == "const" and isinstance(args[0][1], int) and not isinstance(args[0][1], bool):
            return ("dur", args[0][1] * {"from_secs": 10 ** 9, "from_millis": 10 ** 6, "from_micros": 10 ** 3, "from_nanos": 1}[m.group(1)])
        # two constant durations compared (`Duration::ZERO < Duration::from_millis(1)`)
        full = name + " " + (t.get("res_name") or "")
        m = re.search(r"<std::time::Duration as std::cmp::Partial(?:Ord|Eq)>::(lt|le|gt|ge|eq|ne)\b", full) or \
            (re.search(r"std::cmp::Partial(?:Ord|Eq)::(lt|le|gt|ge|eq|ne)$", name) if (t.get("self_ty") or "") == "std::time::Duration" else None)
        if m and len(args) == 2:
            vs = []
            for v in args:
                hops = 0
                while v is not None and v[0] in ("ref", "constref") and hops < 6:
                    v = self.read_key(v[1]) if v[0] == "ref" else v[1]; hops += 1
                vs.append(v)
            if all(v is not None and v[0] == "dur" for v in vs):
                a, b = vs[0][1], vs[1][1]
                r = {"lt": a < b, "le": a <= b, "gt": a > b, "ge": a >= b, "eq": a == b, "ne": a != b}[m.group(1)]
                return ("const", r, "true" if r else "false", None)
        m = re.match(r"^std::time::Duration::(as_secs|subsec_nanos|subsec_millis|subsec_micros|as_millis|as_micros|as_nanos|is_zero)$", name)
        if m and len(args) == 1:
            v = args[0]
            hops = 0
            while v is not None and v[0] == "ref" and hops < 6:
                v = self.read_key(v[1]); hops += 1
            if v is not None and v[0] == "dur":
                ns = v[1]
                r = {"as_secs": ns // 10 ** 9, "subsec_nanos": ns % 10 ** 9, "subsec_millis": (ns % 10 ** 9) // 10 ** 6, "subsec_micros": (ns % 10 ** 9) // 1000,
                     "as_millis": ns // 10 ** 6, "as_micros": ns // 1000, "as_nanos": ns, "is_zero": ns == 0}[m.group(1)]
                if isinstance(r, bool):
                    return ("const", r, "true" if r else "false", None)
                return ("const", r, "%d" % r, None)
        if name == "std::mem::swap" and len(args) == 2:
            a, b = self.deref_arg(args[0]), self.deref_arg(args[1])
            if a is not None and b is not None:
                va, vb = self.read_key(a), self.read_key(b)
                self.write_key(a, vb)
                self.write_key(b, va)
                return ("unit",)
        if name == "std::mem::replace" and len(args) == 2:
            a = self.deref_arg(args[0])
            if a is not None:
                old = self.read_key(a)
                self.write_key(a, args[1])
                return old
        if name in ("std::mem::take", "std::option::Option::<T>::take") and len(args) == 1:
            a = self.deref_arg(args[0])
            if a is not None:
                old = self.read_key(a)
                self.write_key(a, ("none",) if "Option" in name else ("default",))
                return old
        if name == "std::option::Option::<T>::replace" and len(args) == 2:
            a = self.deref_arg(args[0])
            if a is not None:
                old = self.read_key(a)
                self.write_key(a, ("some", args[1]))
                return old
        if name == "std::option::Option::<T>::insert" and len(args) == 2:
            a = self.deref_arg(args[0])
            if a is not None:
                self.write_key(a, ("some", args[1]))
                return ("ref", a + ("as Some", ".0"))
        if name == "std::sync::mpsc::channel":
            self.counter += 1
            k = self.counter
            return ("tuple", [("tx", k, bb), ("rx", k, bb)])
        if callee == "std::clone::Clone::clone" and len(args) == 1:
            a = self.deref_arg(args[0])
            inner = self.read_key(a) if a is not None else args[0]
            return ("clone", inner, a)
        if name == "<T as std::convert::Into<U>>::into" and len(args) == 1 and t.get("gargs") and len(t["gargs"]) >= 2 and t["gargs"][0] != t["gargs"][1]:
            # `x.into()` is `U::from(x)`: the identity only if the crate has no conversion of its own into U
            facts = getattr(self.f, "facts", None)
            u = t["gargs"][1]
            if facts is not None and any(k.startswith("<%s as std::convert::From<" % u) for k in facts.local_fns):
                return ("call", name, args, bb, t.get("res_name") or "")
        if name == "<std::option::Option<T> as std::default::Default>::default" and not args:
            return ("none",)
        if name in IDENTITY_CALLS and len(args) == 1:
            return args[0]
        if callee in ("std::convert::Into::into", "std::convert::From::from") and len(args) == 1 and t.get("res") in (
                "<T as std::convert::Into<U>>::into", "<T as std::convert::From<T>>::from"):
            # resolved to the blanket identity impls only when U == T; keep opaque otherwise
            if t.get("gargs") and len(t["gargs"]) >= 2 and t["gargs"][0] == t["gargs"][1]:
                return args[0]
        if name in ("std::option::Option::<T>::unwrap", "std::option::Option::<T>::expect",
                    "std::result::Result::<T, E>::unwrap", "std::result::Result::<T, E>::expect"):
            if args[0][0] == "some":
                return args[0][1]
            return ("unwrap", args[0])
        if name == "std::option::Option::<T>::as_mut" or name == "std::option::Option::<T>::as_ref":
            a = self.deref_arg(args[0])
            if a is not None:
                return ("optref", a)
        if name == "std::boxed::Box::<T>::new" and len(args) == 1:
            return args[0]
        return ("call", name, args, bb, t.get("res_name") or "")


_PROM = {}


def promoted_value(f, idx):
    """symbolic value of promoted constant idx of f (what the promoted body's _0 refers to)"""
    pf = f.promoted[idx]
    k = (id(pf),)
    if k in _PROM:
        return _PROM[k]
    v = ("unknown",)
    try:
        paths = enumerate_paths(pf)
        if len(paths) == 1:
            st = run_path(pf, paths[0])
            v = st.read_key((0,))
            if v[0] == "ref":
                v = st.read_key(v[1])
    except CheckerError:
        pass
    _PROM[k] = v
    return v


_NAMED = {}


def _walk(v, depth=0):
    if not isinstance(v, tuple) or depth > 40:
        return
    yield v
    for y in v:
        if isinstance(y, tuple):
            yield from _walk(y, depth + 1)
        elif isinstance(y, list):
            for z in y:
                yield from _walk(z, depth + 1)
        elif isinstance(y, dict):
            for z in y.values():
                yield from _walk(z, depth + 1)


def static_scalar(facts, def_id):
    """value of a `static` of the crate that is initialised with a literal and only ever borrowed immutably (never `static mut`-style
    through `&mut` / `*mut`), as a constant term; None otherwise"""
    k = (id(facts), "static", def_id)
    if k in _NAMED:
        return _NAMED[k]
    v = None
    for s_ in facts.d.get("statics", []):
        if s_["id"] == def_id and not s_.get("const"):
            for b in s_["mir"]["blocks"]:
                for st in b["stmts"]:
                    if st["s"] == "assign" and st["lhs"] == {"l": 0, "p": []} and st["rhs"]["rv"] == "use" and st["rhs"]["op"].get("k") == "const":
                        o = st["rhs"]["op"]
                        c = op_const(o)
                        if isinstance(c, (int, bool)):
                            v = ("const", c, o["v"], None)
            if v is None:
                # a table (`static NAMES: [(&str, T); N] = [..]`): its initialiser evaluated like that of a named constant
                from core import Fn
                try:
                    g = Fn(facts, {"id": def_id, "promoted": []}, s_["mir"])
                    paths = enumerate_paths(g)
                    if len(paths) == 1:
                        st_ = run_path(g, paths[0])
                        v = st_.read_key((0,))
                        if v[0] == "ref":
                            v = st_.read_key(v[1])
                        if not (v and v[0] in ("aggx", "agg", "tuple")) or any(x and x[0] in ("call", "unknown", "init") for x in _walk(v)):
                            v = None
                except Exception:
                    v = None
    if v is not None:
        for g in facts.local_fns.values():
            for b in g.mir["blocks"]:
                for st in b["stmts"]:
                    if st["s"] == "assign" and st["rhs"]["rv"] == "use" and st["rhs"]["op"].get("static") == def_id and not re.match(r"^&(?!mut )", st["rhs"]["op"].get("ty", "")):
                        v = None
    _NAMED[k] = v
    return v


def named_const_value(facts, def_id):
    """value of a local named constant (`const X: T = ..`), from its initialiser body"""
    k = (id(facts), def_id)
    if k in _NAMED:
        return _NAMED[k]
    v = None
    for s_ in facts.d.get("statics", []):
        if s_["id"] == def_id and s_.get("const"):
            from core import Fn
            try:
                g = Fn(facts, {"id": def_id, "promoted": []}, s_["mir"])
                paths = enumerate_paths(g)
                if len(paths) == 1:
                    st = run_path(g, paths[0])
                    v = st.read_key((0,))
                    if v[0] == "ref":
                        v = st.read_key(v[1])
            except Exception:
                v = None
    _NAMED[k] = v
    return v


def enumerate_paths(f, start=0, unwind=False, max_paths=256, goals=None, max_len=400):
    """all acyclic paths from start to a return (or to a block in goals); loops are cut
    (a block is visited at most once per path)"""
    paths = []
    goals = set(goals) if goals is not None else None

    def rec(bb, path, seen):
        if len(paths) >= max_paths:
            raise CheckerError("path explosion in %s" % f.id)
        path = path + [bb]
        t = f.term(bb)
        if (goals is not None and bb in goals) or (goals is None and t["t"] == "return"):
            paths.append(path)
            return
        if len(path) > max_len:
            return
        for s in f.succs(bb, unwind):
            if s in seen:
                continue
            rec(s, path, seen | {s})
    rec(start, [], {start})
    return paths


def run_path(f, path, state=None, last_stmts_only=False):
    """execute the blocks of `path`; with last_stmts_only the terminator of the final block is
    not executed (state right before that call)"""
    s = state.clone() if state else Sym(f)
    for i, bb in enumerate(path):
        if last_stmts_only and i == len(path) - 1:
            for st in f.stmts(bb):
                if st["s"] == "assign":
                    s.write_key(pl_key(st["lhs"]), s.rvalue(st["rhs"]))
        else:
            s.step_block(bb)
    return s


def sym_str(v, depth=0):
    if depth > 5:
        return "…"
    k = v[0]
    if k == "init":
        return "init" + str(v[1])
    if k == "const":
        return str(v[2])
    if k in ("tx", "rx"):
        return "%s#%d" % (k, v[1])
    if k == "some":
        return "Some(%s)" % sym_str(v[1], depth + 1)
    if k == "none":
        return "None"
    if k == "clone":
        return "clone(%s)" % sym_str(v[1], depth + 1)
    if k == "agg":
        return "%s::%s{%s}" % (v[1], v[2], ", ".join("%s: %s" % (n, sym_str(x, depth + 1)) for n, x in v[3].items()))
    if k == "tuple":
        return "(%s)" % ", ".join(sym_str(x, depth + 1) for x in v[1])
    if k == "call":
        return "%s(%s)" % (v[1], ", ".join(sym_str(x, depth + 1) for x in v[2]))
    if k == "ref":
        return "&" + str(v[1])
    if k == "field":
        return "%s.%s" % (sym_str(v[1], depth + 1), v[2])
    return k
