"""Core of the rule engine: fact loading, CFG, dominators, reachability, dataflow, provenance,
mono call graph and effect summaries.  Python 3 stdlib only.

Nothing here runs tiny-http; every function answers questions about the MIR facts that the
rustc_private driver serialised from /repo's current working tree.
"""
import json, os, re, sys, glob, collections

# ------------------------------------------------------------------------------------------------
# exceptions

class CheckerError(Exception):
    """The checker cannot bind a rule (missing anchor, count below floor...). Exit code 2."""


# ------------------------------------------------------------------------------------------------
# places / operands helpers

def pl_str(p):
    s = "_%d" % p["l"]
    for e in p["p"]:
        if e == "*":
            s = "(*%s)" % s
        elif isinstance(e, dict) and "n" in e:
            s += "." + e["n"]
        elif isinstance(e, dict) and "d" in e:
            s = "(%s as %s)" % (s, e["d"])
        elif isinstance(e, dict) and "i" in e:
            s += "[_%d]" % e["i"]
        else:
            s += "[..]"
    return s


def pl_fields(p):
    """field names along a place (ignoring derefs / downcasts)"""
    return [e["n"] for e in p["p"] if isinstance(e, dict) and "n" in e]


def pl_is_local(p):
    return not p["p"]


def pl_key(p):
    """hashable key of a place"""
    out = [p["l"]]
    for e in p["p"]:
        if e == "*":
            out.append("*")
        elif isinstance(e, dict) and "n" in e:
            out.append("." + e["n"])
        elif isinstance(e, dict) and "d" in e:
            out.append("as " + e["d"])
        elif isinstance(e, dict) and "i" in e:
            out.append("[]")
        else:
            out.append("[..]")
    return tuple(out)


def op_place(o):
    return o["pl"] if o and o.get("k") in ("copy", "move") else None


def op_local(o):
    """local index if the operand is a bare local, else None"""
    p = op_place(o)
    if p is not None and not p["p"]:
        return p["l"]
    return None


_INT_RE = re.compile(r"^(?:const )?(-?\d+)_(?:u|i)(?:8|16|32|64|128|size)$")


def op_const(o):
    """python value of a constant operand: int, bool, str, bytes, float-string, or None"""
    if not o or o.get("k") != "const":
        return None
    if "ev" in o:
        # named constant evaluated by the driver
        if o.get("ty") == "bool":
            return o["ev"] != "0"
        return int(o["ev"])
    v = o["v"]
    if v.startswith("const "):
        v = v[6:]
    m = _INT_RE.match(v)
    if m:
        return int(m.group(1))
    if v == "true":
        return True
    if v == "false":
        return False
    if v.startswith('"') and v.endswith('"'):
        try:
            return json.loads(v)
        except Exception:
            return v[1:-1]
    if v.startswith('b"') and v.endswith('"'):
        body = v[2:-1]
        try:
            return bytes(body, "utf-8").decode("unicode_escape").encode("latin-1")
        except Exception:
            return body.encode()
    if v.startswith("'") and v.endswith("'") and len(v) >= 3:
        try:
            return ("char", bytes(v[1:-1], "utf-8").decode("unicode_escape"))
        except Exception:
            return ("char", v[1:-1])
    m = re.match(r"^(-?[\d.]+(?:[eE][-+]?\d+)?)f(32|64)$", v)
    if m:
        return ("float", float(m.group(1)))
    return None


def short(name):
    """compact display of a long path"""
    return re.sub(r"std::(?:\w+::)+", "", name)


# ------------------------------------------------------------------------------------------------
# function wrapper

class Fn:
    def __init__(self, facts, rec, mir=None, promoted_of=None):
        self.facts = facts
        self.rec = rec
        self.id = rec["id"]
        self.mir = mir or rec["mir"]
        self.blocks = self._split_switch_edges(self.mir["blocks"])
        self.locals = self.mir["locals"]
        self.argc = self.mir["argc"]
        self.file = self.mir["file"]
        self.real_file = self.mir.get("real_file", self.file)
        self.line = self.mir["line"]
        self.n = len(self.blocks)
        self._succ_cache = {}
        self._dom = None
        self._flags = None
        self.promoted = [Fn(facts, rec, m, self) for m in rec.get("promoted", [])] if promoted_of is None and mir is None else []

    @staticmethod
    def _split_switch_edges(blocks):
        """Give every outgoing edge of a `switchInt` its own (empty) target block when the original target
        is also reached from elsewhere.  After this, "block T dominates X" for a switch target T means
        "taking that edge dominates X", which is what the branch rules ask.  Original block indices are
        unchanged (new blocks are appended), so the mono call-graph edges keyed by block still line up."""
        n = len(blocks)
        npred = [0] * n
        def succs(t):
            k = t["t"]
            out = []
            if k == "goto":
                out.append(t["target"])
            elif k == "switch":
                out += [b for _, b in t["targets"]] + [t["otherwise"]]
            elif k in ("call", "drop", "assert"):
                if t.get("target") is not None:
                    out.append(t["target"])
                if isinstance(t.get("unwind"), int):
                    out.append(t["unwind"])
            return out
        for b in blocks:
            for s_ in set(succs(b["term"])):
                npred[s_] += 1
        need = any(b["term"]["t"] == "switch" and any(npred[x] > 1 for x in [y for _, y in b["term"]["targets"]] + [b["term"]["otherwise"]]) for b in blocks)
        if not need:
            return blocks
        out = [dict(b) for b in blocks]
        for i, b in enumerate(blocks):
            t = b["term"]
            if t["t"] != "switch":
                continue
            t2 = dict(t)
            new_targets = []
            cache = {}
            def edge(tgt):
                if npred[tgt] <= 1:
                    return tgt
                if tgt not in cache:
                    out.append({"cleanup": b["cleanup"], "stmts": [], "term": {"t": "goto", "target": tgt, "line": t["line"], "exp": True}, "synthetic": True})
                    cache[tgt] = len(out) - 1
                return cache[tgt]
            # distinct values going to the same target share one edge block only if they are the same edge kind
            for v, tgt in t["targets"]:
                cache = {}
                new_targets.append([v, edge(tgt)])
            cache = {}
            t2["targets"] = new_targets
            t2["otherwise"] = edge(t["otherwise"])
            out[i] = dict(b, term=t2)
        return out

    # ---- basic structure
    def term(self, bb):
        return self.blocks[bb]["term"]

    def stmts(self, bb):
        return self.blocks[bb]["stmts"]

    def raw_succs(self, bb, unwind=True):
        t = self.blocks[bb]["term"]
        k = t["t"]
        out = []
        if k == "goto":
            out.append(t["target"])
        elif k == "switch":
            for _, b in t["targets"]:
                out.append(b)
            out.append(t["otherwise"])
        elif k in ("call", "drop", "assert"):
            if t.get("target") is not None:
                out.append(t["target"])
            if unwind and isinstance(t.get("unwind"), int):
                out.append(t["unwind"])
        return out

    # drop-flag folding ---------------------------------------------------------------------
    def flag_locals(self):
        """locals of type bool that are only ever assigned constants (drop flags and the like)"""
        if self._flags is not None:
            return self._flags
        cand = {i for i, l in enumerate(self.locals) if l["ty"] == "bool" and i > self.argc and not l["name"]}
        for bb in range(self.n):
            for s in self.stmts(bb):
                if s["s"] == "assign" and pl_is_local(s["lhs"]) and s["lhs"]["l"] in cand:
                    r = s["rhs"]
                    if not (r["rv"] == "use" and isinstance(op_const(r["op"]), bool)):
                        cand.discard(s["lhs"]["l"])
            t = self.term(bb)
            if t["t"] == "call" and pl_is_local(t["dest"]):
                cand.discard(t["dest"]["l"])
        # must be read only by switch(copy flag)
        self._flags = cand
        return cand

    def flag_states(self):
        """forward dataflow of possible constant values of flag locals at block entry"""
        if hasattr(self, "_flag_in"):
            return self._flag_in
        flags = self.flag_locals()
        IN = [None] * self.n
        IN[0] = {f: frozenset([False, True]) for f in flags}
        work = [0]
        while work:
            bb = work.pop()
            st = dict(IN[bb])
            for s in self.stmts(bb):
                if s["s"] == "assign" and pl_is_local(s["lhs"]) and s["lhs"]["l"] in flags:
                    st[s["lhs"]["l"]] = frozenset([op_const(s["rhs"]["op"])])
            t = self.term(bb)
            for succ, cond in self._succ_with_flagcond(bb):
                st2 = st
                if cond is not None:
                    f, val = cond
                    if val not in st[f]:
                        continue
                    st2 = dict(st)
                    st2[f] = frozenset([val])
                if IN[succ] is None:
                    IN[succ] = dict(st2)
                    work.append(succ)
                else:
                    changed = False
                    for f in flags:
                        u = IN[succ][f] | st2[f]
                        if u != IN[succ][f]:
                            IN[succ][f] = u
                            changed = True
                    if changed:
                        work.append(succ)
        self._flag_in = IN
        return IN

    def _succ_with_flagcond(self, bb):
        t = self.term(bb)
        if t["t"] == "switch":
            l = op_local(t["discr"])
            if l is not None and l in self.flag_locals() and t["dty"] == "bool":
                out = []
                seen_vals = set()
                for v, b in t["targets"]:
                    out.append((b, (l, bool(v))))
                    seen_vals.add(bool(v))
                rest = {False, True} - seen_vals
                if len(rest) == 1:
                    out.append((t["otherwise"], (l, rest.pop())))
                elif rest:
                    out.append((t["otherwise"], None))
                return out
        return [(s, None) for s in self.raw_succs(bb)]

    def succs(self, bb, unwind=True):
        """feasible successors (drop-flag switches folded)"""
        key = (bb, unwind)
        if key in self._succ_cache:
            return self._succ_cache[key]
        IN = self.flag_states()
        if IN[bb] is None:
            res = []
        else:
            st = dict(IN[bb])
            flags = self.flag_locals()
            for s in self.stmts(bb):
                if s["s"] == "assign" and pl_is_local(s["lhs"]) and s["lhs"]["l"] in flags:
                    st[s["lhs"]["l"]] = frozenset([op_const(s["rhs"]["op"])])
            res = []
            for succ, cond in self._succ_with_flagcond(bb):
                if cond is not None and cond[1] not in st[cond[0]]:
                    continue
                res.append(succ)
            if not unwind:
                t = self.term(bb)
                uw = t.get("unwind")
                if isinstance(uw, int) and t["t"] in ("call", "drop", "assert"):
                    res = [r for r in res if r != uw or r == t.get("target")]
        # dedupe, keep order
        seen = set()
        res2 = []
        for r in res:
            if r not in seen:
                seen.add(r)
                res2.append(r)
        self._succ_cache[key] = res2
        return res2

    def preds(self, unwind=True):
        P = [[] for _ in range(self.n)]
        for b in range(self.n):
            for s in self.succs(b, unwind):
                P[s].append(b)
        return P

    # ---- reachability
    def reach(self, starts, blocked=(), unwind=True, include_starts=True):
        """blocks reachable from `starts` without entering any block in `blocked`.
        A start block that is itself blocked is not expanded."""
        blocked = set(blocked)
        seen = set()
        work = []
        for s in starts:
            if s in blocked:
                continue
            if s not in seen:
                seen.add(s)
                work.append(s)
        while work:
            b = work.pop()
            for s in self.succs(b, unwind):
                if s in blocked or s in seen:
                    continue
                seen.add(s)
                work.append(s)
        return seen if include_starts else seen - set(starts)

    def after(self, bb, unwind=True):
        """successor blocks of bb on normal (and optionally unwind) edges"""
        return self.succs(bb, unwind)

    def normal_target(self, bb):
        return self.term(bb).get("target")

    def path(self, starts, goals, blocked=(), unwind=True):
        """one shortest path (list of blocks) from a start to a goal avoiding blocked, or None"""
        blocked = set(blocked)
        goals = set(goals)
        prev = {}
        dq = collections.deque()
        for s in starts:
            if s in blocked or s in prev:
                continue
            prev[s] = None
            dq.append(s)
        while dq:
            b = dq.popleft()
            if b in goals:
                out = []
                while b is not None:
                    out.append(b)
                    b = prev[b]
                return out[::-1]
            for s in self.succs(b, unwind):
                if s in blocked or s in prev:
                    continue
                prev[s] = b
                dq.append(s)
        return None

    def live_blocks(self, unwind=True):
        k = ("live", unwind)
        if k not in self._succ_cache:
            self._succ_cache[k] = self.reach([0], unwind=unwind)
        return self._succ_cache[k]

    # ---- dominators (normal + unwind edges by default)
    def dominators(self, unwind=True):
        key = ("dom", unwind)
        if key in self._succ_cache:
            return self._succ_cache[key]
        live = self.live_blocks(unwind)
        P = self.preds(unwind)
        # Cooper-Harvey-Kennedy immediate dominators over a reverse post-order, then the dominator sets
        order, seen, stack = [], {0}, [(0, iter(self.succs(0, unwind)))]
        while stack:
            b, it = stack[-1]
            adv = False
            for s_ in it:
                if s_ in live and s_ not in seen:
                    seen.add(s_)
                    stack.append((s_, iter(self.succs(s_, unwind))))
                    adv = True
                    break
            if not adv:
                order.append(b)
                stack.pop()
        rpo = order[::-1]
        num = {b: i for i, b in enumerate(rpo)}
        idom = {0: 0}
        changed = True
        while changed:
            changed = False
            for b in rpo[1:]:
                new = None
                for p_ in P[b]:
                    if p_ in idom and p_ in num:
                        if new is None:
                            new = p_
                        else:
                            x, y = p_, new
                            while x != y:
                                while num[x] > num[y]:
                                    x = idom[x]
                                while num[y] > num[x]:
                                    y = idom[y]
                            new = x
                if new is not None and idom.get(b) != new:
                    idom[b] = new
                    changed = True
        dom = {0: {0}}
        for b in rpo[1:]:
            if b in idom:
                dom[b] = dom[idom[b]] | {b}
        for b in live:
            dom.setdefault(b, {b})
        self._succ_cache[("idom", unwind)] = idom
        self._succ_cache[key] = dom
        return dom

    def dominates(self, a, b, unwind=True):
        d = self.dominators(unwind)
        return b in d and a in d[b]

    # ---- loops
    def back_edges(self, unwind=False):
        dom = self.dominators(unwind)
        out = []
        for b in dom:
            for s in self.succs(b, unwind):
                if s in dom[b]:
                    out.append((b, s))
        return out

    def in_loop(self, bb, unwind=False):
        """is bb on a cycle of normal edges?"""
        return bb in self.reach(self.succs(bb, unwind), unwind=unwind)

    # ---- iteration helpers
    def calls(self, live_only=True):
        """yield (bb, term) for call terminators"""
        live = self.live_blocks() if live_only else range(self.n)
        for bb in sorted(live):
            t = self.term(bb)
            if t["t"] == "call":
                yield bb, t

    def call_blocks(self, pred):
        return [bb for bb, t in self.calls() if pred(t)]

    def returns(self):
        return [bb for bb in self.live_blocks() if self.term(bb)["t"] == "return"]

    def drops(self):
        for bb in sorted(self.live_blocks()):
            t = self.term(bb)
            if t["t"] == "drop":
                yield bb, t

    def assigns(self):
        """yield (bb, idx, stmt) for assign statements in live blocks"""
        for bb in sorted(self.live_blocks()):
            for i, s in enumerate(self.stmts(bb)):
                if s["s"] == "assign":
                    yield bb, i, s

    def local_name(self, l):
        return self.locals[l]["name"] or ("_%d" % l)

    def local_ty(self, l):
        return self.locals[l]["ty"]

    def named_local(self, name):
        out = [i for i, l in enumerate(self.locals) if l["name"] == name]
        return out

    def loc(self, bb):
        b = self.blocks[bb]
        t = b.get("inl_call") or b["term"]
        return "%s:%d" % (b.get("file") or self.real_file, t["line"])

    def src_of(self, bb):
        """def path of the function whose body block bb was copied from (inlined bodies), else this function"""
        return self.blocks[bb].get("src") or self.id

    # ---- def-use
    def defs(self):
        """local -> list of definitions: ('assign', bb, idx, rvalue) / ('call', bb, term) / ('arg',)"""
        if hasattr(self, "_defs"):
            return self._defs
        D = collections.defaultdict(list)
        for l in range(1, self.argc + 1):
            D[l].append(("arg", l))
        for bb in range(self.n):
            for i, s in enumerate(self.stmts(bb)):
                if s["s"] == "assign" and pl_is_local(s["lhs"]):
                    D[s["lhs"]["l"]].append(("assign", bb, i, s["rhs"]))
                elif s["s"] == "assign":
                    D[s["lhs"]["l"]].append(("partial", bb, i, s))
            t = self.term(bb)
            if t["t"] == "call":
                if pl_is_local(t["dest"]):
                    D[t["dest"]["l"]].append(("call", bb, t))
                else:
                    D[t["dest"]["l"]].append(("partial_call", bb, t))
        self._defs = D
        return D

    def uses(self):
        """local -> list of use sites: ('stmt', bb, idx, stmt) / ('term', bb, term); a use is any
        operand or place mention on the right-hand side / in a terminator (not pure destinations)"""
        if hasattr(self, "_uses"):
            return self._uses
        U = collections.defaultdict(list)
        live = self.live_blocks()
        for bb in sorted(live):
            for i, s in enumerate(self.stmts(bb)):
                if s["s"] != "assign":
                    continue
                for p, kind in rvalue_places(s["rhs"]):
                    U[p["l"]].append(("stmt", bb, i, s, kind))
                if s["lhs"]["p"]:
                    U[s["lhs"]["l"]].append(("stmt", bb, i, s, "partial-write"))
            t = self.term(bb)
            if t["t"] == "call":
                for ai, a in enumerate(t["args"]):
                    p = op_place(a)
                    if p:
                        U[p["l"]].append(("term", bb, t, ai, a["k"]))
                if t.get("fnop"):
                    p = op_place(t["fnop"])
                    if p:
                        U[p["l"]].append(("term", bb, t, -1, "callee"))
            elif t["t"] == "switch":
                p = op_place(t["discr"])
                if p:
                    U[p["l"]].append(("term", bb, t, 0, "switch"))
            elif t["t"] == "drop":
                U[t["pl"]["l"]].append(("term", bb, t, 0, "drop"))
            elif t["t"] == "assert":
                p = op_place(t["cond"])
                if p:
                    U[p["l"]].append(("term", bb, t, 0, "assert"))
        self._uses = U
        return U

    def single_def(self, l):
        ds = [d for d in self.defs().get(l, []) if d[0] in ("assign", "call", "arg")]
        live = self.live_blocks()
        ds = [d for d in ds if d[0] == "arg" or d[1] in live]
        if len(ds) == 1:
            return ds[0]
        return None

    def origin(self, o, depth=0, seen=None):
        """Provenance of an operand / place as a nested tuple.

        ('const', value, raw) | ('arg', n, fields...) | ('call', callee_name, [origins of args], bb)
        | ('field', base_origin, name) | ('deref', base) | ('ref', base) | ('agg', head, [origins])
        | ('binop', op, a, b) | ('unop', op, a) | ('discr', base) | ('cast', kind, base)
        | ('local', l) (multi-def user variable) | ('unknown',)
        Looks through copies/moves/refs of single-definition temporaries.
        """
        if seen is None:
            seen = set()
        if depth > 150:
            return ("unknown",)
        if isinstance(o, dict) and "k" in o:
            if o["k"] == "const":
                return ("const", op_const(o), o["v"], o.get("fn"), o.get("promoted"))
            if o["k"] in ("copy", "move"):
                return self.origin_place(o["pl"], depth + 1, seen)
            return ("unknown",)
        return ("unknown",)

    def origin_place(self, p, depth=0, seen=None):
        if seen is None:
            seen = set()
        base = self.origin_local(p["l"], depth + 1, seen)
        for e in p["p"]:
            if e == "*":
                if base[0] == "ref":
                    base = base[1]
                else:
                    base = ("deref", base)
            elif isinstance(e, dict) and "n" in e:
                if base[0] == "agg" and base[3] and e["n"] in base[3]:
                    base = base[2][base[3].index(e["n"])]
                elif base[0] == "agg" and base[1] == "tuple" and e["n"].isdigit() and int(e["n"]) < len(base[2]):
                    base = base[2][int(e["n"])]
                else:
                    base = ("field", base, e["n"])
            elif isinstance(e, dict) and "d" in e:
                base = ("downcast", base, e["d"])
            else:
                base = ("index", base)
        return base

    def origin_local(self, l, depth=0, seen=None):
        if seen is None:
            seen = set()
        if l in seen or depth > 150:
            return ("local", l)
        d = self.single_def(l)
        if d is None:
            return ("local", l)
        seen = seen | {l}
        if d[0] == "arg":
            return ("arg", l)
        if d[0] == "call":
            t = d[2]
            return ("call", call_name(t), [self.origin(a, depth + 1, seen) for a in t["args"]], d[1])
        rv = d[3]
        k = rv["rv"]
        if k == "use":
            return self.origin(rv["op"], depth + 1, seen)
        if k == "ref" or k == "rawptr":
            return ("ref", self.origin_place(rv["pl"], depth + 1, seen))
        if k == "agg":
            return ("agg", rv.get("adt") or rv.get("closure") or rv["agg"],
                    [self.origin(o, depth + 1, seen) for o in rv["ops"]], rv.get("fields"), rv.get("variant"))
        if k == "binop":
            return ("binop", rv["op"], self.origin(rv["a"], depth + 1, seen), self.origin(rv["b"], depth + 1, seen))
        if k == "unop":
            return ("unop", rv["op"], self.origin(rv["a"], depth + 1, seen))
        if k == "discr":
            return ("discr", self.origin_place(rv["pl"], depth + 1, seen), rv.get("adt"), rv.get("variants"))
        if k == "cast":
            return ("cast", rv["kind"], self.origin(rv["op"], depth + 1, seen), rv["to"])
        if k == "repeat":
            return ("repeat", self.origin(rv["op"], depth + 1, seen), rv["n"])
        return ("unknown",)


def call_name(t):
    """best name of a call's callee: the resolved instance's def path if known, else the
    syntactic callee (trait method)."""
    return t.get("res") or t.get("callee") or "<fnptr>"


def call_is(t, *names):
    """does the call's resolved or syntactic callee equal one of the given def paths?"""
    return (t.get("res") in names) or (t.get("callee") in names)


def call_matches(t, regex):
    r = re.compile(regex)
    return bool((t.get("res") and r.search(t["res"])) or (t.get("callee") and r.search(t["callee"]))
                or (t.get("res_name") and r.search(t["res_name"])))


def arg_consts(f, t):
    """python constants behind the arguments of a call (None where not a literal); looks
    through single-definition temporaries"""
    out = []
    for a in t["args"]:
        o = f.origin(a)
        while o[0] in ("ref", "deref"):
            o = o[1]
        out.append(o[1] if o[0] == "const" else None)
    return out


def origin_str(o, depth=0):
    if depth > 6:
        return "…"
    k = o[0]
    if k == "const":
        return str(o[2])
    if k == "arg":
        return "arg%d" % o[1]
    if k == "local":
        return "_%d" % o[1]
    if k == "call":
        return "%s(%s)" % (short(o[1]), ", ".join(origin_str(a, depth + 1) for a in o[2]))
    if k == "field":
        return "%s.%s" % (origin_str(o[1], depth + 1), o[2])
    if k == "downcast":
        return "(%s as %s)" % (origin_str(o[1], depth + 1), o[2])
    if k in ("deref",):
        return "*%s" % origin_str(o[1], depth + 1)
    if k == "ref":
        return "&%s" % origin_str(o[1], depth + 1)
    if k == "agg":
        return "%s{%s}" % (short(str(o[1])), ", ".join(origin_str(a, depth + 1) for a in o[2]))
    if k == "binop":
        return "%s(%s, %s)" % (o[1], origin_str(o[2], depth + 1), origin_str(o[3], depth + 1))
    if k == "unop":
        return "%s(%s)" % (o[1], origin_str(o[2], depth + 1))
    if k == "discr":
        return "discr(%s)" % origin_str(o[1], depth + 1)
    if k == "cast":
        return "cast(%s)" % origin_str(o[2], depth + 1)
    return k


def origin_walk(o):
    """yield every node of an origin tree"""
    stack = [o]
    while stack:
        x = stack.pop()
        if not isinstance(x, tuple) or not x:
            continue
        yield x
        k = x[0]
        if k == "call":
            stack.extend(x[2])
        elif k in ("field", "downcast", "deref", "ref", "index", "discr"):
            stack.append(x[1])
        elif k == "agg":
            stack.extend(x[2])
        elif k == "binop":
            stack.extend([x[2], x[3]])
        elif k in ("unop", "cast"):
            stack.append(x[2])
        elif k == "repeat":
            stack.append(x[1])


def origin_calls(o):
    return [x for x in origin_walk(o) if x[0] == "call"]


def origin_has_call(o, regex):
    r = re.compile(regex)
    return any(r.search(x[1]) for x in origin_calls(o))


# ------------------------------------------------------------------------------------------------
# facts

class Facts:
    # Types and free functions the rule tables name by their path.  When one of them was moved to another module (its path changed but not
    # its name), the facts are read as if it still lived at the canonical path: the rules speak about the type, not about where it is declared.
    ANCHOR_ADTS = ["util::sequential::SequentialWriter", "util::sequential::SequentialWriterBuilder", "util::sequential::SequentialReader",
                   "util::sequential::SequentialReaderBuilder", "request::Request", "response::Response", "client::ClientConnection",
                   "util::messages_queue::MessagesQueue", "util::task_pool::TaskPool", "util::equal_reader::EqualReader", "util::fused_reader::FusedReader",
                   "util::refined_tcp_stream::RefinedTcpStream", "util::refined_tcp_stream::Stream", "response::TransferEncoding", "common::HTTPVersion",
                   "common::Method", "common::Header", "common::HeaderField", "common::StatusCode", "connection::Listener", "connection::Connection",
                   "connection::ListenAddr", "Server", "IncomingRequests"]
    ANCHOR_FNS = ["request::new_request"]

    @staticmethod
    def _canonicalise(text, d):
        import re as _re
        adts = {a["id"]: a for a in d["adts"]}
        local_fn_ids = [b["id"] for b in d["bodies"] if b.get("local")]
        moves = []
        for canon in Facts.ANCHOR_ADTS:
            if canon in adts:
                continue
            name = canon.rsplit("::", 1)[-1]
            cands = [k for k, a in adts.items() if k.rsplit("::", 1)[-1] == name and str(a.get("file", "")).startswith("src/")]
            if len(cands) == 1:
                moves.append((cands[0], canon))
        for canon in Facts.ANCHOR_FNS:
            if canon in local_fn_ids:
                continue
            name = canon.rsplit("::", 1)[1]
            cands = [k for k in local_fn_ids if k.rsplit("::", 1)[-1] == name and "{closure" not in k and "<" not in k]
            if len(cands) == 1:
                moves.append((cands[0], canon))
        if not moves:
            return None, []
        for old, canon in sorted(moves, key=lambda m: -len(m[0])):
            text = _re.sub(_re.escape(old) + r"(?![A-Za-z0-9_])", canon, text)
        return text, moves

    @staticmethod
    def _canonicalise_impls(text, d):
        """`module::<impl Type<Args>>::method` (an inherent impl block written in another module than the type's) -> `Type::<Args>::method`,
        the name the same method has when the block stands next to the type; Args may nest"""
        import re as _re
        local_adts = {a["id"] for a in d["adts"] if str(a.get("file", "")).startswith("src/")}
        rx = _re.compile(r"((?:\w+::)+)<impl ((?:\w+::)*\w+)")
        out, pos, hit = [], 0, False
        for m in rx.finditer(text):
            if m.start() < pos or m.group(2) not in local_adts:
                continue
            i = m.end()
            args = None
            if text.startswith("<", i):
                depth, j = 0, i
                while j < len(text):
                    c = text[j]
                    if c == "<":
                        depth += 1
                    elif c == ">":
                        depth -= 1
                        if depth == 0:
                            break
                    elif c in '"\n':
                        break
                    j += 1
                if j >= len(text) or text[j] != ">" or depth != 0:
                    continue
                args = text[i + 1:j]
                i = j + 1
            if not text.startswith(">::", i):
                continue
            out.append(text[pos:m.start()])
            out.append(m.group(2) + ("::<" + args + ">" if args else "") + "::")
            pos = i + 3
            hit = True
        if not hit:
            return None
        out.append(text[pos:])
        return "".join(out)

    @staticmethod
    def _fold_units(d):
        import re as _re
        files = {b["mir"]["file"] for b in d["bodies"] if b.get("local") and b.get("mir")} | {a.get("file") for a in d["adts"]}
        files = {f for f in files if isinstance(f, str) and f.startswith("src/")}
        fold = {}
        for a in d["adts"]:
            if a["id"] not in Facts.ANCHOR_ADTS:
                continue
            F = a.get("file") or ""
            m = _re.match(r"^(src/.+)/mod\.rs$", F) or _re.match(r"^(src/.+)\.rs$", F)
            if not m or m.group(1) in ("src/lib", "src/main"):
                continue
            D = m.group(1) + "/"
            for f in files:
                if f.startswith(D) and f != F:
                    fold[f] = F
        if not fold:
            return {}
        def fix(m):
            if isinstance(m, dict) and m.get("file") in fold:
                m["real_file"] = m["file"]
                m["file"] = fold[m["file"]]
        for b in d["bodies"]:
            fix(b.get("mir"))
            for pm in b.get("promoted", []) or []:
                fix(pm if "file" in pm else pm.get("mir"))
        for a in d["adts"]:
            fix(a)
        for s_ in d.get("statics", []):
            fix(s_.get("mir"))
        return fold

    def _fold_named_consts(self):
        """a use of a named constant of the crate whose value is a plain literal (`const HEADER_EXPECT: &str = "Expect"`) reads as the literal"""
        cs = [s_ for s_ in self.d.get("statics", []) if s_.get("const")]
        if not cs:
            return
        import symex
        vals = {}
        for s_ in cs:
            try:
                v = symex.named_const_value(self, s_["id"])
            except Exception:
                v = None
            if v and v[0] == "const" and isinstance(v[2], str) and v[1] is not None:
                vals[s_["id"]] = v[2]
        if not vals:
            return
        def walk(x):
            if isinstance(x, dict):
                if x.get("k") == "const" and x.get("const_def") in vals and "ev" not in x:
                    x["named"] = x.pop("const_def")
                    x["v"] = vals[x["named"]]
                    return
                for y in x.values():
                    walk(y)
            elif isinstance(x, list):
                for y in x:
                    walk(y)
        for b in self.d["bodies"]:
            if b.get("local") and b.get("mir"):
                walk(b["mir"]["blocks"])
                for pm in b.get("promoted", []) or []:
                    walk(pm)

    def __init__(self, path):
        self.path = path
        with open(path) as f:
            text = f.read()
        self.d = json.loads(text)
        self.moved = []
        try:
            t2, moves = Facts._canonicalise(text, self.d)
            if t2 is not None:
                self.d = json.loads(t2)
                self.moved = moves
        except Exception:
            pass
        # impl blocks of a local type written in another module (`request::answer::<impl request::Request>::respond`): its methods are
        # named after the type, wherever the block is
        try:
            t3 = Facts._canonicalise_impls(json.dumps(self.d) if self.moved else text, self.d)
            if t3 is not None:
                self.d = json.loads(t3)
        except Exception:
            pass
        # a module that defines one of the anchor types and is split over submodule files (`request/mod.rs` + `request/body.rs` ...) is one
        # unit: "the same file" means "the same unit" to every rule (source locations keep the real file)
        self.units = Facts._fold_units(self.d)
        self._fold_named_consts()
        self.crate = self.d["crate"]
        self.fns = {}
        for b in self.d["bodies"]:
            self.fns[b["id"]] = Fn(self, b)
        self.adts = {a["id"]: a for a in self.d["adts"]}
        self.impls = self.d["impls"]
        self.instances = self.d["instances"]
        self.vtables = self.d["vtables"]
        self.local_fns = {k: f for k, f in self.fns.items() if f.rec.get("local")}
        self._inst_by_def = collections.defaultdict(list)
        for i in self.instances:
            if i:
                self._inst_by_def[i["def"]].append(i)
        self._eff = None
        self.def_tags = {}   # def path -> extra effect tags (set by roles.bind before effects())

    # ---- lookup
    def fn(self, fid):
        f = self.fns.get(fid)
        if f is None:
            raise CheckerError("anchor function not found in facts: %s" % fid)
        return f

    def fn_opt(self, fid):
        return self.fns.get(fid)

    def find_fns(self, regex, local_only=True):
        r = re.compile(regex)
        src = self.local_fns if local_only else self.fns
        return [f for k, f in sorted(src.items()) if r.search(k)]

    def adt(self, aid):
        a = self.adts.get(aid)
        if a is None:
            raise CheckerError("anchor type not found in facts: %s" % aid)
        return a

    def adt_fields(self, aid, variant=None):
        a = self.adt(aid)
        vs = a["variants"]
        v = vs[0] if variant is None else [x for x in vs if x["name"] == variant][0]
        return [f["name"] for f in v["fields"]]

    def impls_of(self, trait, self_adt=None):
        return [i for i in self.impls if i["trait"] == trait and (self_adt is None or i["self_adt"] == self_adt)]

    def has_impl(self, trait, self_adt):
        return bool(self.impls_of(trait, self_adt))

    def trait_method(self, trait, self_adt, method):
        """def path of `<self_adt as trait>::method` (local impl) or None"""
        for i in self.impls_of(trait, self_adt):
            for it in i["items"]:
                if it.endswith("::" + method):
                    return it
        return None

    def drop_fn(self, self_adt):
        p = self.trait_method("std::ops::Drop", self_adt, "drop")
        return self.fns.get(p) if p else None

    # ---- crate-wide scans
    def all_calls(self, pred=None, local_only=True):
        """yield (fn, bb, term) for every call terminator in (local) bodies"""
        src = self.local_fns if local_only else self.fns
        for k in sorted(src):
            f = src[k]
            for bb, t in f.calls():
                if pred is None or pred(t):
                    yield f, bb, t

    def callers_of(self, *names):
        return [(f, bb, t) for f, bb, t in self.all_calls(lambda t: call_is(t, *names))]

    def field_writes(self, adt, field):
        """all statements/calls whose destination place ends in a projection to adt.field
        (assignment to the field, or a call storing its result there), plus aggregate
        constructions of the adt (which initialise the field).  -> list of (fn, bb, kind, detail)"""
        out = []
        for k in sorted(self.local_fns):
            f = self.local_fns[k]
            for bb, i, s in f.assigns():
                lhs = s["lhs"]
                if self._place_ends_in_field(f, lhs, adt, field):
                    out.append((f, bb, "assign", s))
                r = s["rhs"]
                if r["rv"] == "agg" and r.get("adt") == adt and field in (r.get("fields") or []):
                    out.append((f, bb, "construct", s))
                if r["rv"] == "ref" and r["mut"] and self._place_ends_in_field(f, r["pl"], adt, field):
                    out.append((f, bb, "mutref", s))
            for bb, t in f.calls():
                if self._place_ends_in_field(f, t["dest"], adt, field):
                    out.append((f, bb, "calldest", t))
            for bb, t in f.drops():
                if self._place_ends_in_field(f, t["pl"], adt, field):
                    out.append((f, bb, "drop", t))
        return out

    def field_reads(self, adt, field):
        """every use (read, borrow, move) of adt.field in local bodies -> list of (fn, bb, kind)"""
        out = []
        for k in sorted(self.local_fns):
            f = self.local_fns[k]
            for bb in sorted(f.live_blocks()):
                for s in f.stmts(bb):
                    if s["s"] != "assign":
                        continue
                    for p, kind in rvalue_places(s["rhs"]):
                        if self._place_mentions_field(f, p, adt, field):
                            out.append((f, bb, kind))
                t = f.term(bb)
                if t["t"] == "call":
                    for a in t["args"]:
                        p = op_place(a)
                        if p and self._place_mentions_field(f, p, adt, field):
                            out.append((f, bb, a["k"]))
                elif t["t"] == "switch":
                    p = op_place(t["discr"])
                    if p and self._place_mentions_field(f, p, adt, field):
                        out.append((f, bb, "switch"))
        return out

    def _place_base_adts(self, f, p):
        """for each field projection in p: the ADT path the field belongs to (best effort from
        local type + field chain), as list of (adt, fieldname) in order"""
        out = []
        ty_adt = f.locals[p["l"]]["adt"]
        cur = ty_adt
        for e in p["p"]:
            if isinstance(e, dict) and "n" in e:
                out.append((cur, e["n"]))
                # type of the field
                cur = self._adt_of_tystr(e.get("ty", ""))
        return out

    @staticmethod
    def _adt_of_tystr(s):
        s = s.strip()
        while True:
            if s.startswith("&mut "):
                s = s[5:]
            elif s.startswith("&"):
                s = s[1:].lstrip()
                s = re.sub(r"^'\w+ ", "", s)
            elif s.startswith("std::boxed::Box<"):
                s = s[len("std::boxed::Box<"):]
            else:
                break
        m = re.match(r"^([A-Za-z_][\w:]*)", s)
        return m.group(1) if m else None

    def _place_ends_in_field(self, f, p, adt, field):
        chain = self._place_base_adts(f, p)
        if not chain:
            return False
        # last projection element must be the field itself (ignoring trailing derefs)
        last = None
        for e in p["p"]:
            if isinstance(e, dict) and "n" in e:
                last = e
        trailing_ok = True
        seen_last = False
        for e in p["p"]:
            if e is last:
                seen_last = True
                continue
            if seen_last and not (e == "*"):
                trailing_ok = False
        a, n = chain[-1]
        return trailing_ok and n == field and _adt_eq(a, adt)

    def _place_mentions_field(self, f, p, adt, field):
        return any(n == field and _adt_eq(a, adt) for a, n in self._place_base_adts(f, p))

    def constructions(self, adt, variant=None):
        """aggregate constructions of an ADT in local bodies -> [(fn, bb, stmt)]"""
        out = []
        for k in sorted(self.local_fns):
            f = self.local_fns[k]
            for bb, i, s in f.assigns():
                r = s["rhs"]
                if r["rv"] == "agg" and r.get("adt") == adt and (variant is None or r.get("variant") == variant):
                    out.append((f, bb, s))
        return out

    # ---- mono call graph ---------------------------------------------------------------------
    def instances_of(self, def_path):
        return self._inst_by_def.get(def_path, [])

    def vtable_targets(self, dyn_ty, method):
        """instance ids implementing `method` for objects unsized to `dyn_ty` anywhere in the
        program (dyn type strings compared modulo lifetimes / auto-trait order)"""
        key = norm_dyn(dyn_ty)
        out = []
        for v in self.vtables:
            if norm_dyn(v["dyn"]) != key:
                continue
            if method == "drop_in_place":
                if v["drop"] is not None:
                    out.append(v["drop"])
            else:
                for name, iid in v["methods"]:
                    if name == method:
                        out.append(iid)
        return out

    def inst_callees(self, inst, bb=None, include_cleanup=False, creator=True):
        """resolved callee instance ids of an instance (optionally only at block bb), with dyn
        fan-out; returns list of (bb, kind, callee_id or None, edge)"""
        out = []
        for e in inst.get("edges", []):
            if bb is not None and e["bb"] != bb:
                continue
            if e["k"] == "unsize" and not creator:
                continue
            if e["k"] == "unsize" and e["info"].get("ptr") in ("ref", "raw") and e["info"].get("vtable"):
                # creator attribution: a *borrowed* trait object (`&mut x as &mut dyn Tr`) cannot
                # outlive this frame; whatever is done through it (by callees, including body-less
                # ones such as core::fmt::write) happens while this instance runs
                nd = norm_dyn(e["info"]["dyn"])
                for v in self.vtables:
                    if v["concrete"] == e["info"]["vtable"] and norm_dyn(v["dyn"]) == nd:
                        for _, iid in v["methods"]:
                            out.append((e["bb"], "dyncb", iid, e))
                continue
            if e["k"] not in ("call", "drop"):
                continue
            if e.get("cleanup") and not include_cleanup:
                # landing pads run only while a panic unwinds; their calls are not effects of
                # the normal behaviour (C14 treats panics themselves)
                continue
            to = e.get("to")
            if to is not None:
                out.append((e["bb"], e["k"], to, e))
                # leaf callee with dyn-typed arguments: may call back through the vtable
                # (a body-less callee given a trait object may call back through its vtable: this is
                # accounted to the instance that *created* the borrowed trait object, see below)
            elif e.get("why") == "virtual":
                ts = self.vtable_targets(e["dyn"], e["method"])
                if ts:
                    for t in ts:
                        out.append((e["bb"], "virtual", t, e))
                else:
                    out.append((e["bb"], "virtual", None, e))
            elif e.get("why") in ("unresolved", "fnptr", "generic", "normalize"):
                out.append((e["bb"], e["why"], None, e))
        return out

    # ---- effects -----------------------------------------------------------------------------
    def effects(self, creator=True):
        """instance id -> frozenset of effect tags, by fixpoint over the mono call graph.  creator=False: without attributing to the
        function that builds a borrowed trait object what may be done through it (virtual calls still count where they are made)"""
        if creator and self._eff is not None:
            return self._eff
        if not creator and getattr(self, "_eff_nc", None) is not None:
            return self._eff_nc
        from effects_table import leaf_effects, body_override
        n = len(self.instances)
        eff = [set() for _ in range(n)]
        callees = [set() for _ in range(n)]
        for i, inst in enumerate(self.instances):
            ov = body_override(inst)
            if ov is not None:
                eff[i] |= ov
                continue
            if not inst["has_body"]:
                eff[i] |= leaf_effects(inst)
                continue
            if inst["def"] in self.def_tags and inst["kind"] == "item":
                eff[i] |= self.def_tags[inst["def"]]
            for bb, kind, to, e in self.inst_callees(inst, creator=creator):
                if to is None:
                    if kind == "unresolved" or kind == "generic":
                        eff[i].add("USER-CALLBACK")
                    elif kind == "fnptr":
                        eff[i].add("FNPTR")
                    elif kind == "virtual":
                        if e.get("method") == "drop_in_place" and "std::any::Any" in e.get("dyn", ""):
                            eff[i].add("DROP-ANY")   # panic payloads / type-erased values: no vtable in the program
                        else:
                            eff[i].add("DYN-UNKNOWN")
                else:
                    callees[i].add(to)
        changed = True
        while changed:
            changed = False
            for i in range(n):
                for c in callees[i]:
                    if not eff[c] <= eff[i]:
                        eff[i] |= eff[c]
                        changed = True
        if not creator:
            self._eff_nc = [frozenset(e) for e in eff]
            return self._eff_nc
        self._eff = [frozenset(e) for e in eff]
        self._callees = callees
        return self._eff

    def call_effects(self, inst, bb, creator=True, deep=False):
        """effects of the call/drop at block bb of instance inst (creator=False: without what may later be done through a trait object
        that is merely created in this block; deep=True: nor in any function reached from it)"""
        eff = self.effects(creator=not (deep and not creator))
        out = set()
        for _, kind, to, e in self.inst_callees(inst, bb, creator=creator):
            if to is None and kind == "virtual" and e.get("method") == "drop_in_place" and "std::any::Any" in e.get("dyn", ""):
                out.add("DROP-ANY")
            elif to is None:
                out.add({"unresolved": "USER-CALLBACK", "generic": "USER-CALLBACK", "fnptr": "FNPTR",
                         "virtual": "DYN-UNKNOWN", "normalize": "USER-CALLBACK"}.get(kind, "UNKNOWN"))
            else:
                out |= eff[to]
        return out

    def effects_at(self, f, bb, inst=None, creator=True, deep=False):
        """effects of the call/drop terminating block bb of f.  Works for inlined bodies (the block remembers the instance
        and the original block it was copied from) and for plain bodies (inst = the instance to use)."""
        b = f.blocks[bb]
        if b.get("synthetic"):
            return set()
        iid = b.get("inst")
        if iid is None and b.get("eff_site") is not None:
            # a block of a body the inliner built for a call (an iterator consumer read as a loop, a dispatch over the implementations of
            # a trait): its calls have the effects the call graph computed for that whole call
            si, sb = b["eff_site"]
            return self.call_effects(self.instances[si], sb, creator=creator, deep=deep)
        if iid is not None:
            return self.call_effects(self.instances[iid], b["obb"], creator=creator, deep=deep)
        if getattr(f, "is_inlined", False) and inst is None:
            inst = getattr(f, "root_inst", None)
        if inst is None:
            raise CheckerError("effects_at: no instance for %s" % f.id)
        return self.call_effects(inst, b.get("obb", bb), creator=creator, deep=deep)

    def effect_witness(self, start_id, tag, limit=12):
        """a call chain (list of instance names) from instance start_id to a leaf carrying `tag`"""
        eff = self.effects()
        from effects_table import leaf_effects, body_override
        chain = []
        cur = start_id
        seen = set()
        while cur is not None and cur not in seen and len(chain) < limit:
            seen.add(cur)
            inst = self.instances[cur]
            chain.append(inst["name"])
            if not inst["has_body"] or body_override(inst) is not None:
                break
            nxt = None
            for c in sorted(self._callees[cur]):
                if tag in eff[c] and c not in seen:
                    nxt = c
                    break
            cur = nxt
        return chain

    def mono_instance(self, def_path):
        """the unique monomorphic instance of a non-generic function"""
        xs = [i for i in self.instances_of(def_path) if i["kind"] == "item"]
        if len(xs) != 1:
            raise CheckerError("expected exactly one instance of %s, found %d" % (def_path, len(xs)))
        return xs[0]


def _adt_eq(a, b):
    return a is not None and b is not None and a == b


def rvalue_places(r):
    """(place, kind) pairs read by an rvalue"""
    k = r["rv"]
    out = []
    def opp(o, kind=None):
        p = op_place(o)
        if p:
            out.append((p, kind or o["k"]))
    if k == "use":
        opp(r["op"])
    elif k in ("ref", "rawptr"):
        out.append((r["pl"], "refmut" if r.get("mut") else "ref"))
    elif k == "cast":
        opp(r["op"])
    elif k == "binop":
        opp(r["a"]); opp(r["b"])
    elif k == "unop":
        opp(r["a"])
    elif k == "discr":
        out.append((r["pl"], "discr"))
    elif k == "agg":
        for o in r["ops"]:
            opp(o)
    elif k == "repeat":
        opp(r["op"])
    return out


_LIFETIME = re.compile(r"'\w+\b ?")


def norm_dyn(s):
    s = _LIFETIME.sub("", s)
    s = s.replace("(", "").replace(")", "")
    m = re.search(r"dyn (.*)$", s)
    body = m.group(1) if m else s
    parts = sorted(p.strip() for p in body.split(" + ") if p.strip())
    return " + ".join(parts)


def extract_dyns(tystr):
    """dyn types mentioned in a type string (best effort: outermost `dyn A + B` up to a closing
    bracket at depth 0)"""
    out = []
    i = 0
    while True:
        j = tystr.find("dyn ", i)
        if j < 0:
            break
        depth = 0
        k = j
        while k < len(tystr):
            c = tystr[k]
            if c in "<([":
                depth += 1
            elif c in ">)]":
                if depth == 0:
                    break
                depth -= 1
            elif c == "," and depth == 0:
                break
            k += 1
        out.append(tystr[j:k])
        i = k
    return out


# ------------------------------------------------------------------------------------------------
# ownership (maybe-initialised) dataflow

def _moves_whole(f, p):
    """does moving out of place p leave its local without anything it owns?  The whole local, or the single payload of a Result / Option
    (`move ((_5 as Ok).0)`: what is left of _5 is an empty shell)"""
    if not p["p"]:
        return True
    if len(p["p"]) == 2 and isinstance(p["p"][0], dict) and "d" in p["p"][0] and isinstance(p["p"][1], dict) and p["p"][1].get("f") == 0:
        return re.match(r"^std::(result::Result|option::Option)<", f.local_ty(p["l"])) is not None
    return False


def maybe_init(f, unwind=True):
    """forward may-analysis: set of locals that may hold an initialised value at block entry.
    gen: assignment to the whole local / call destination; kill: `move _l` of the whole local,
    drop(_l)."""
    IN = [None] * f.n
    IN[0] = frozenset(range(1, f.argc + 1))
    work = [0]
    OUT_edges = {}
    while work:
        bb = work.pop()
        st = set(IN[bb])
        for s in f.stmts(bb):
            if s["s"] == "assign":
                for p, kind in rvalue_places(s["rhs"]):
                    if kind == "move" and _moves_whole(f, p):
                        st.discard(p["l"])
                if not s["lhs"]["p"]:
                    st.add(s["lhs"]["l"])
            elif s["s"] == "dead":
                st.discard(s["l"])
        t = f.term(bb)
        st_norm = set(st)
        st_unw = set(st)
        if t["t"] == "call":
            for a in t["args"]:
                p = op_place(a)
                if a["k"] == "move" and p is not None and _moves_whole(f, p):
                    st_norm.discard(p["l"])
                    st_unw.discard(p["l"])
            if not t["dest"]["p"]:
                st_norm.add(t["dest"]["l"])
        elif t["t"] == "drop":
            if not t["pl"]["p"]:
                st_norm.discard(t["pl"]["l"])
                st_unw.discard(t["pl"]["l"])
        for s in f.succs(bb, unwind):
            is_unw = isinstance(t.get("unwind"), int) and s == t.get("unwind") and s != t.get("target")
            new = frozenset(st_unw if is_unw else st_norm)
            if IN[s] is None:
                IN[s] = new
                work.append(s)
            elif not new <= IN[s]:
                IN[s] = IN[s] | new
                work.append(s)
    return IN


def init_at_terminator(f, IN, bb):
    """locals maybe-initialised right before the terminator of bb executes (arguments moved
    into a call are considered given away)"""
    st = set(IN[bb] or ())
    for s in f.stmts(bb):
        if s["s"] == "assign":
            for p, kind in rvalue_places(s["rhs"]):
                if kind == "move" and _moves_whole(f, p):
                    st.discard(p["l"])
            if not s["lhs"]["p"]:
                st.add(s["lhs"]["l"])
        elif s["s"] == "dead":
            st.discard(s["l"])
    t = f.term(bb)
    if t["t"] == "call":
        for a in t["args"]:
            p = op_place(a)
            if a["k"] == "move" and p is not None and not p["p"]:
                st.discard(p["l"])
    return st


# ------------------------------------------------------------------------------------------------
# switch / branch helpers

def switch_on_discr(f, bb):
    """if block bb ends in a switch on the discriminant of some place, return
    (place_origin, {variant_name: target_bb}, otherwise_bb) else None"""
    t = f.term(bb)
    if t["t"] != "switch":
        return None
    l = op_local(t["discr"])
    if l is None:
        return None
    d = f.single_def(l)
    if not d or d[0] != "assign" or d[3]["rv"] != "discr":
        return None
    rv = d[3]
    names = {v: n for v, n in (rv.get("variants") or [])}
    m = {}
    for v, b in t["targets"]:
        m[names.get(v, str(v))] = b
    # variants not listed go to otherwise
    rest = [n for v, n in (rv.get("variants") or []) if n not in m]
    return (rv, m, t["otherwise"], rest)


def bool_switch(f, bb):
    """if bb ends in a switch on a bool operand return (operand, true_bb, false_bb)"""
    t = f.term(bb)
    if t["t"] != "switch" or t["dty"] != "bool":
        return None
    tv = fv = None
    for v, b in t["targets"]:
        if v == 0:
            fv = b
        elif v == 1:
            tv = b
    if fv is None:
        fv = t["otherwise"]
    if tv is None:
        tv = t["otherwise"]
    return (t["discr"], tv, fv)


def find_facts_file(facts_dir, crate="tiny_http", kind="main"):
    xs = sorted(glob.glob(os.path.join(facts_dir, "%s-%s-*.json" % (crate, kind))))
    if not xs:
        raise CheckerError("no fact file for crate %s (%s) in %s" % (crate, kind, facts_dir))
    return xs[0]


# ------------------------------------------------------------------------------------------------
# variant knowledge (path-sensitive enough for `match` arms)

def variant_facts(f, unwind=True):
    """forward must-analysis: at block entry, which bare locals are known to be in which enum
    variant (learned from `switchInt(discriminant(_l))` edges; forgotten on reassignment)"""
    IN = [None] * f.n
    IN[0] = {}
    work = [0]
    while work:
        bb = work.pop()
        st = dict(IN[bb])
        for s in f.stmts(bb):
            if s["s"] == "assign" and not s["lhs"]["p"]:
                st.pop(s["lhs"]["l"], None)
        t = f.term(bb)
        if t["t"] == "call" and not t["dest"]["p"]:
            st.pop(t["dest"]["l"], None)
        edge_fact = {}
        sw = switch_on_discr(f, bb)
        if sw and not sw[0]["pl"]["p"]:
            rv, m, otherwise, rest = sw
            l = rv["pl"]["l"]
            tgt_count = collections.Counter(m.values())
            for v, b in m.items():
                if tgt_count[b] == 1 and b != otherwise:
                    edge_fact[b] = (l, v)
            if len(rest) == 1 and otherwise not in m.values():
                edge_fact[otherwise] = (l, rest[0])
        for s in f.succs(bb, unwind):
            st2 = st
            if s in edge_fact:
                st2 = dict(st)
                st2[edge_fact[s][0]] = edge_fact[s][1]
            if IN[s] is None:
                IN[s] = dict(st2)
                work.append(s)
            else:
                new = {k: v for k, v in IN[s].items() if st2.get(k) == v}
                if new != IN[s]:
                    IN[s] = new
                    work.append(s)
    return IN


def split_generic_args(tystr):
    """top-level generic arguments of `path<...>` as strings"""
    i = tystr.find("<")
    if i < 0 or not tystr.endswith(">"):
        return []
    body = tystr[i + 1:-1]
    out, depth, cur = [], 0, ""
    for c in body:
        if c in "<([":
            depth += 1
        elif c in ">)]":
            depth -= 1
        if c == "," and depth == 0:
            out.append(cur.strip())
            cur = ""
        else:
            cur += c
    if cur.strip():
        out.append(cur.strip())
    return out


def variant_payload_types(facts, tystr, variant):
    """types of the payload fields of `variant` of the enum type `tystr` (std Option/Result and
    local enums); None if unknown"""
    if tystr.startswith("std::result::Result<"):
        a = split_generic_args(tystr)
        if len(a) == 2:
            return [a[0]] if variant == "Ok" else [a[1]] if variant == "Err" else None
    if tystr.startswith("std::option::Option<"):
        a = split_generic_args(tystr)
        if len(a) == 1:
            return [a[0]] if variant == "Some" else [] if variant == "None" else None
    head = tystr.split("<")[0]
    a = facts.adts.get(head)
    if a:
        for v in a["variants"]:
            if v["name"] == variant:
                return [fl["ty"] for fl in v["fields"]]
    return None



def reach_variants(f, starts, blocked=(), unwind=False, init=None):
    """like Fn.reach, but path-sensitive in the enum variant of bare locals: an assignment
    `_l = Enum::V{..}` (or a move of such a local) records the variant, and a later
    `switchInt(discriminant(_l))` only follows the matching edge."""
    blocked = set(blocked)
    seen = set()
    out = set()
    work = []
    for s in starts:
        if s not in blocked:
            work.append((s, frozenset((init or {}).items())))
    while work:
        bb, st = work.pop()
        if (bb, st) in seen:
            continue
        seen.add((bb, st))
        out.add(bb)
        d = dict(st)
        for s in f.stmts(bb):
            if s["s"] != "assign" or s["lhs"]["p"]:
                continue
            l = s["lhs"]["l"]
            r = s["rhs"]
            if r["rv"] == "agg" and r.get("agg") == "adt" and r.get("variant") is not None:
                d[l] = r["variant"]
            elif r["rv"] == "use" and op_local(r["op"]) in d:
                d[l] = d[op_local(r["op"])]
            else:
                d.pop(l, None)
        t = f.term(bb)
        if t["t"] == "call" and not t["dest"]["p"]:
            d.pop(t["dest"]["l"], None)
        allowed = None
        sw = switch_on_discr(f, bb)
        if sw and not sw[0]["pl"]["p"] and sw[0]["pl"]["l"] in d:
            rv, m, otherwise, rest = sw
            v = d[sw[0]["pl"]["l"]]
            if v in m:
                allowed = {m[v]}
            elif v in rest:
                allowed = {otherwise}
        st2 = frozenset(d.items())
        for s in f.succs(bb, unwind):
            if s in blocked:
                continue
            if allowed is not None and s not in allowed:
                continue
            work.append((s, st2))
    return out
