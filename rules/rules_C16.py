"""C16 — header syntax that enables request smuggling is rejected, not interpreted."""
import re
from core import *  # noqa
from roles import *  # noqa
import roles, shared, symex, taint

EXPLANATION = (
    "Decision extraction, sanitiser-before-check provenance and error discipline on MIR: HeaderField::from_str rejects any whitespace "
    "in a name and Header::from_str splits at the first colon; the text handed to Header::from_str by the connection parser must derive "
    "from the received line without a function that removes leading whitespace (such a trim erases exactly the evidence the check looks "
    "for); the Content-Length parse must (a) route its failure to an Err return of new_request that ends in the 400-and-close arm, never "
    "merged with `header absent`, and (b) accept only 1*DIGIT (std integer parsers accept a leading `+`, so a digit-only guard must "
    "dominate them); the rejecting arm closes the connection; framing headers are looked up case-insensitively, first occurrence, with "
    "Transfer-Encoding disabling Content-Length.")
TRUSTED = ["rustc MIR / trait resolution", "grammar table of std integer parsers (usize::from_str / from_str_radix accept an optional leading '+')",
           "str::splitn / contains(char::is_whitespace) semantics"]

LEADING_TRIM = re.compile(r"<impl str>::(trim|trim_start|trim_left|trim_start_matches|trim_left_matches|trim_matches|strip_prefix|split_whitespace|split_ascii_whitespace|trim_ascii|trim_ascii_start)$")
INT_PARSE = taint.SOURCE
MERGE_ABSENT = re.compile(r"(Result::<T, E>::(ok|unwrap_or|unwrap_or_else|unwrap_or_default|map_or|map_or_else|or|or_else)|Option::<T>::(unwrap_or|unwrap_or_else|unwrap_or_default))$")


def run(ctx):
    facts = ctx.facts
    roles.bind(facts)
    hf = method(facts, T_FROMSTR, HFIELD, "from_str")
    hd = method(facts, T_FROMSTR, HEADER, "from_str")
    cc_read = roles.inherent(facts, CC, "read")
    cc_next = method(facts, T_ITER, CC, "next")
    nr = facts.fn("request::new_request")

    # ---- C16.1 whitespace in the name is rejected; split at the first colon
    f = hf
    ctx.touch(f)
    ws = []
    for bb, t in f.calls():
        if call_matches(t, r"<impl str>::contains") and any((a.get("fn") or "").endswith("<impl char>::is_whitespace") for a in t["args"]):
            ws.append((bb, t))
    ctx.ob("C16.1", "%s|whitespace-test" % f.id, "a header name is tested for any whitespace character", len(ws) >= 1, "%s:%d" % (f.file, f.line))
    cons = set()
    for bb, t in f.calls():
        if any((a.get("fn") or "") == HFIELD for a in t["args"]):
            cons.add(bb)
    cons |= {bb for g, bb, s in facts.constructions(HFIELD) if g.id == f.id}
    if ws:
        bb, t = ws[0]
        bs = bool_switch(f, t["target"])
        ctx.require(bs is not None, "C16.1: whitespace test is not branched on")
        outs = shared.eval_from(f, bs[1])
        ok = bool(outs) and all(st.read_key((0,))[0] == "agg" and st.read_key((0,))[2] == "Err" for p, st in outs)
        ctx.ob("C16.1", "%s|whitespace-rejected" % f.id, "a name containing whitespace yields Err", ok, f.loc(bb))
        ok = bool(cons) and all(f.dominates(bs[2], c, unwind=False) for c in cons) and bs[1] != bs[2]
        ctx.ob("C16.1", "%s|field-only-without-whitespace" % f.id, "a HeaderField is only built on the no-whitespace branch", ok, f.loc(bb))
        recv = f.origin(t["args"][0])
        ok = any(x == ("arg", 1) for x in origin_walk(recv))
        ctx.ob("C16.1", "%s|tests-whole-input" % f.id, "the whitespace test looks at the whole name as given", ok and not origin_has_call(recv, r"trim"), f.loc(bb), origin_str(recv))
    # HeaderField constructed elsewhere only through from_bytes (application side) / from_str
    for g, bb, t in facts.all_calls(lambda t: any((a.get("fn") or "") == HFIELD for a in t["args"])):
        ok = g.id in (hf.id,) or g.id.startswith("common::HeaderField::from_bytes")
        ctx.ob("C16.1", "field-ctor|%s" % g.id, "HeaderField values are created only by its two validating constructors", ok, g.loc(bb))
    f = hd
    ctx.touch(f)
    sp = [(bb, t) for bb, t in f.calls() if call_matches(t, r"<impl str>::splitn")]
    ok = len(sp) == 1
    if ok:
        cs = arg_consts(f, sp[0][1])
        ok = cs[1] == 2 and cs[2] == ("char", ":") and f.origin(sp[0][1]["args"][0]) in (("arg", 1), ("ref", ("deref", ("arg", 1))), ("deref", ("arg", 1)))
    ctx.ob("C16.1", "%s|split-at-first-colon" % f.id, "a header line is split once, at the first colon (so `Name :` keeps its space in the name)", ok, "%s:%d" % (f.file, f.line),
           None if ok else str([arg_consts(f, t) for _, t in sp]))
    # the field part is parsed with HeaderField::from_str and its failure fails the header
    cl0 = [g for g in facts.find_fns(r"^<common::Header as std::str::FromStr>::from_str::\{closure") if g.call_blocks(lambda t: call_matches(t, r"parse::<common::HeaderField>$") or call_is(t, hf.id))]
    direct = f.call_blocks(lambda t: call_matches(t, r"parse::<common::HeaderField>$") or call_is(t, hf.id))
    ctx.ob("C16.1", "%s|name-through-HeaderField-parser" % f.id, "the name part is validated by HeaderField's parser", bool(cl0) or bool(direct), "%s:%d" % (f.file, f.line))
    hc = [(bb, s) for g, bb, s in facts.constructions(HEADER) if g.id == f.id]
    ctx.require(hc, "C16.1: Header construction not found in Header::from_str")
    for bb, s in hc:
        idx = s["rhs"]["fields"].index("field")
        o = f.origin(s["rhs"]["ops"][idx])
        nexts = [x for x in origin_calls(o) if x[1].endswith("as std::iter::Iterator>::next")]
        first_next = min((b for b, t in f.calls() if call_name(t).endswith("as std::iter::Iterator>::next")), default=None)
        ok = bool(nexts) and all(x[3] == first_next for x in nexts) and not origin_has_call(o, r"trim")
        ctx.ob("C16.1", "%s|name-is-first-part" % f.id, "the stored name is the untrimmed text before the first colon", ok, f.loc(bb), origin_str(o))

    # ---- C16.2 no leading-whitespace sanitiser in front of the check
    g = cc_read
    ctx.touch(g)
    sites = [(bb, t) for bb, t in g.calls() if call_is(t, hd.id)]
    ctx.floor("C16.2 Header::from_str call sites in the connection parser", len(sites), 1)
    rnl = roles.inherent(facts, CC, "read_next_line")
    for i, (bb, t) in enumerate(sites):
        o = g.origin(t["args"][0])
        from_line = origin_has_call(o, r"ClientConnection::read_next_line$")
        bad = [x[1] for x in origin_calls(o) if LEADING_TRIM.search(x[1])]
        ctx.ob("C16.2", "%s|header-line-untrimmed|%d" % (g.id, i),
               "the header line reaches Header::from_str with its leading whitespace intact (a leading trim would turn ` Name: v` / obs-fold lines into valid headers)",
               from_line and not bad, g.loc(bb), None if (from_line and not bad) else "leading-whitespace remover on the way: %s (%s)" % ([short(b) for b in bad], origin_str(o)))
    # the end-of-head test must look at the line as received: a line made only of blanks is not the empty line
    # (it has to reach the header parser and be rejected), so nothing may strip it before `is_empty`
    emp = [(bb, t) for bb, t in g.calls() if call_matches(t, r"::is_empty$") and origin_has_call(g.origin(t["args"][0]), r"ClientConnection::read_next_line$")]
    ctx.ob("C16.2", "%s|empty-line-test-present" % g.id, "(anchor) the head ends at an empty line", bool(emp), "%s:%d" % (g.file, g.line), nontrivial=False)
    for i, (bb, t) in enumerate(emp):
        o = g.origin(t["args"][0])
        bad = [x[1] for x in origin_calls(o) if re.search(r"<impl str>::trim|strip_|split_whitespace|trim_ascii", x[1])]
        ctx.ob("C16.2", "%s|empty-line-untrimmed|%d" % (g.id, i), "the end-of-head test is made on the untrimmed line (a whitespace-only line is a malformed header, not the end of the head)",
               not bad, g.loc(bb), None if not bad else "the line is stripped (%s) before the empty-line test: ` ` + CRLF ends the head and the rest of the head is parsed as a new request" % [short(b) for b in bad])
    # any other local caller of Header::from_str on client text
    for h, bb, t in facts.all_calls(lambda t: call_is(t, hd.id) or call_matches(t, r"parse::<common::Header>$")):
        if h.id == g.id:
            continue
        ctx.ob("C16.2", "other-header-parse|%s" % h.id, "no other place parses client header lines", h.id not in [x for x in facts.local_fns if x.startswith("client::")], h.loc(bb), nontrivial=False)

    # ---- C16.3 Content-Length value
    cl_fns = [nr] + facts.find_fns(r"^request::new_request::\{closure")
    parses = []
    for h in cl_fns:
        for bb, t in h.calls():
            if INT_PARSE.search(call_name(t)) or INT_PARSE.search(t.get("res_name") or ""):
                parses.append((h, bb, t))
    if not parses:
        ctx.ob("C16.3", "%s|content-length-digits-only|0" % nr.id,
               "only 1*DIGIT is accepted: the Content-Length text is converted by a recognised integer parser behind a digits-only test",
               False, "%s:%d" % (nr.file, nr.line),
               "no recognised integer parse of the Content-Length value in new_request: a hand-written conversion cannot be shown to reject the empty value, signs, lists or overflow")
    errs_ret = {bb for bb, i, s in nr.assigns() if s["lhs"] == {"l": 0, "p": []} and s["rhs"].get("variant") == "Err"}
    for k, (h, bb, t) in enumerate(parses):
        ctx.touch(h, calls=1)
        # (a) failure must be an error of new_request
        rs = shared.result_switch(h, bb)
        merged = None
        if rs and "consumed_by" in rs and MERGE_ABSENT.search(rs["consumed_by"]):
            merged = rs["consumed_by"]
        ok_a = False
        detail = None
        if merged:
            detail = "the parse result goes through `%s`: an invalid Content-Length (e.g. `abc`, `1,2`, overflow) is treated like an absent header, the body is left in the stream and parsed as a second request" % short(merged)
        elif rs and rs.get("err") is not None and h.id == nr.id:
            reach = h.reach([rs["err"]], unwind=False)
            region = shared.arm_region(h, rs["err"])
            sets_err = any((h.term(b)["t"] == "call" and h.term(b).get("callee") == "std::ops::FromResidual::from_residual") or b in errs_ret for b in region)
            req_cons = {b2 for g2, b2, s in facts.constructions(REQ) if g2.id == h.id}
            ok_a = sets_err and not (reach & req_cons)
            if not ok_a:
                detail = "the error edge of the parse does not end in an Err return of new_request"
        else:
            detail = "the failure of the numeric parse is not turned into an error of new_request (%s)" % (rs,)
        ctx.ob("C16.3", "%s|content-length-invalid-is-error|%d" % (h.id, k),
               "a Content-Length that does not parse is an error of the request (400), never `no Content-Length`", ok_a, h.loc(bb), detail)
        # (b) digits only
        val = h.origin(t["args"][0])
        guard = digit_guard(h, bb, val)
        ctx.ob("C16.3", "%s|content-length-digits-only|%d" % (h.id, k),
               "only 1*DIGIT is accepted: the std integer parser also accepts a leading `+`, so a digits-only test of the same text must dominate it",
               guard is not None, h.loc(bb), guard or "no dominating digits-only guard: `Content-Length: +5` is accepted as 5 while other parsers reject or ignore it")
    # the new_request error must be mapped to a 400-and-close arm by the connection parser
    rce = "request::RequestCreationError"
    variants = [v["name"] for v in facts.adt(rce)["variants"]]
    maps = facts.find_fns(r"^client::ClientConnection::read::\{closure")
    ctx.require(maps, "C16.3: error-mapping closure of read() not found")
    mapped = {}
    for mfn in maps:
        for bb in sorted(mfn.live_blocks()):
            sw = switch_on_discr(mfn, bb)
            if sw and sw[0].get("adt") == rce:
                rv, m, otherwise, rest = sw
                for v in variants:
                    tgt = m.get(v, otherwise if v in rest else None)
                    if tgt is None:
                        continue
                    outs = shared.eval_from(mfn, tgt)
                    kinds = set()
                    for p, st in outs:
                        val = st.read_key((0,))
                        kinds.add(val[2] if val[0] == "agg" else "?")
                    mapped[v] = kinds
    ctx.counts["RequestCreationError mapping"] = {k: sorted(v) for k, v in mapped.items()}
    for v in variants:
        if v in ("ExpectationFailed", "CreationIoError"):
            continue
        ok = mapped.get(v) is not None and mapped[v] <= {"WrongHeader", "WrongRequestLine"}
        ctx.ob("C16.3", "read-error-mapping|%s" % v, "a header-value error of new_request is answered like any malformed header (400, close)", ok, maps[0].file, str(mapped.get(v)))

    # ---- C16.4 the rejecting arm closes the connection (same obligation as C10.1 for WrongHeader)
    f = cc_next
    read_calls = set(f.call_blocks(lambda t: call_is(t, cc_read.id)))
    some_bbs = {bb for bb, i, s in f.assigns() if s["lhs"] == {"l": 0, "p": []} and s["rhs"]["rv"] == "agg" and s["rhs"].get("variant") == "Some"}
    statuses = shared.status_consts_in(f)
    for bb in sorted(f.live_blocks()):
        sw = switch_on_discr(f, bb)
        if sw and sw[0].get("adt") == READERR and not f.blocks[bb]["cleanup"] and origin_has_call(f.origin_place(sw[0]["pl"]), r"ClientConnection::read$"):
            rv, m, otherwise, rest = sw
            tgt = m.get("WrongHeader", otherwise if "WrongHeader" in rest else None)
            ctx.require(tgt is not None, "C16.4: WrongHeader arm not found")
            reach = f.reach([tgt], unwind=False)
            region = shared.arm_region(f, tgt)
            ok = not (reach & (read_calls | some_bbs)) and {c for b2, c in statuses if b2 in region} == {400}
            ctx.ob("C16.4", "%s|WrongHeader-400-close" % f.id, "a rejected header is answered 400 and nothing after it on the connection is parsed", ok, f.loc(tgt))
            break
    else:
        raise CheckerError("C16.4: match on ReadError not found")
    # read(): a failing Header::from_str returns WrongHeader without continuing
    for i, (bb, t) in enumerate(sites):
        rs = shared.result_switch(g, bb)
        ok = False
        if rs and rs.get("err") is not None:
            region = shared.arm_region(g, rs["err"])
            ok = any(s["s"] == "assign" and s["rhs"].get("variant") == "WrongHeader" for b in region for s in g.stmts(b))
        ctx.ob("C16.4", "%s|bad-header-is-WrongHeader|%d" % (g.id, i), "an unparsable header line makes read() fail with WrongHeader", ok, g.loc(bb))

    # ---- C16.5 framing header lookup
    lookups, te_tests, CLl = shared.te_precedence(ctx, "C16.5", "TE-disables-CL")
    for name in ("Transfer-Encoding", "Content-Length"):
        ctx.ob("C16.5", "%s|lookup-%s" % (nr.id, name), "%s is looked up case-insensitively (HeaderField::equiv)" % name, name in lookups, "%s:%d" % (nr.file, nr.line))
    # first occurrence decides: either Iterator::find, or a forward loop that keeps the first value (get_or_insert)
    for name in ("Transfer-Encoding", "Content-Length"):
        okf = False
        how = None
        for bb, t in nr.calls():
            if call_matches(t, r"Iterator>?::(find|filter)(::<|$)") and len(t["args"]) > 1:
                clo = nr.origin(t["args"][1])
                if clo[0] == "agg" and clo[1] in lookups.get(name, []):
                    recv = nr.origin(t["args"][0])
                    fwd = origin_has_call(recv, r"<impl \[common::Header\]>::iter$|<impl \[T\]>::iter$") and not origin_has_call(recv, r"::rev$|::skip")
                    if t["name"] == "find" and fwd:
                        okf, how = True, "find"
                    if t["name"] == "filter" and fwd:
                        keeps_first = any(call_matches(t2, r"Option::<T>::get_or_insert(_with)?$") for b2, t2 in nr.calls())
                        overwrites = False
                        if keeps_first:
                            okf, how = True, "filter + get_or_insert"
        ctx.ob("C16.5", "%s|first-%s" % (nr.id, name), "the first %s header in arrival order is the one used" % name, okf, "%s:%d" % (nr.file, nr.line), how)
    # ---- C16.3(c) every Content-Length value is validated, unconditionally
    for k, (h, bb, t) in enumerate(parses):
        if h.id != nr.id:
            ctx.ob("C16.3", "%s|content-length-every-occurrence|%d" % (h.id, k), "every Content-Length header of a request is validated (not only the first one)", False, h.loc(bb),
                   "the value is parsed inside a first-match lookup (`find`): a second Content-Length header, or one next to Transfer-Encoding, is never looked at")
            continue
        in_loop = h.in_loop(bb)
        filt = [b2 for b2, t2 in h.calls() if call_matches(t2, r"Iterator>?::filter(::<|$)") and len(t2["args"]) > 1 and h.origin(t2["args"][1])[0] == "agg"
                and h.origin(t2["args"][1])[1] in lookups.get("Content-Length", [])]
        ok_all = in_loop and bool(filt) and all(h.dominates(b2, bb, unwind=False) for b2 in filt)
        ctx.ob("C16.3", "%s|content-length-every-occurrence|%d" % (h.id, k), "every Content-Length header of a request is validated (not only the first one)", ok_all, h.loc(bb),
               None if ok_all else "the numeric check is not inside a loop over all headers named Content-Length")
        cond = [1 for _, pres, absent in te_tests if h.dominates(pres, bb, unwind=False) or h.dominates(absent, bb, unwind=False)]
        ctx.ob("C16.3", "%s|content-length-validated-regardless-of-TE|%d" % (h.id, k), "a malformed Content-Length is rejected even when a Transfer-Encoding header is present", not cond, h.loc(bb),
               None if not cond else "the validation only runs on one side of the Transfer-Encoding test")
    return {}


def digit_guard(h, bb, val):
    """a dominating test that the parsed text consists of ASCII digits only.
    Recognised: `bytes()/chars().all(|c| c.is_ascii_digit())` on the same text, with the parse on
    the true edge."""
    dom = h.dominators(False)
    for b in sorted(dom[bb]):
        bs = bool_switch(h, b)
        if not bs:
            continue
        o = h.origin(bs[0])
        neg = False
        while o[0] == "unop" and o[1] == "Not":
            neg = not neg
            o = o[2]
        if o[0] != "call" or not re.search(r"Iterator>?::all(::<|$)", o[1]):
            continue
        it = o[2][0]
        src_ok = False
        for x in origin_walk(it):
            if x[0] == "call" and re.search(r"<impl str>::(bytes|chars)$", x[1]) and x[2]:
                if taint.origin_eq(x[2][0], val) or origin_str(x[2][0]) == origin_str(val):
                    src_ok = True
        clo = o[2][1] if len(o[2]) > 1 else None
        digit = False
        if clo and clo[0] == "agg":
            cf = h.facts.fn_opt(clo[1])
            if cf and cf.call_blocks(lambda t: call_matches(t, r"is_ascii_digit$")) and not cf.call_blocks(lambda t: not call_matches(t, r"is_ascii_digit$")):
                digit = True
        if not (src_ok and digit):
            continue
        edge = bs[2] if neg else bs[1]
        other = bs[1] if neg else bs[2]
        if edge != other and h.dominates(edge, bb, unwind=False):
            return "dominated by `text.bytes().all(is_ascii_digit)`"
    return None
