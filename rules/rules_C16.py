"""C16 — header syntax that enables request smuggling is rejected, not interpreted."""
import re
from core import *  # noqa
from roles import *  # noqa
import roles, shared, symex, taint, inline, absint
import queue_rules as Q
import parser_rules as PRS
import framing_rules as FRM

EXPLANATION = (
    "Abstract path exploration of the header parsers, of the head reader and of new_request (helpers spliced in; independent of how the code is spelled): "
    "a HeaderField is only accepted on paths on which a whitespace test of the whole, untrimmed name came out negative, and a header line is split at its "
    "first colon with the untrimmed first part as the name; the text the head reader hands to the header parser, and the text it tests for the empty line, derive "
    "from the received line through no function that removes leading whitespace; the name comparison functions compare the stored name whole (no trimming, splitting or slicing inside them); every Content-Length header found is checked to consist of ASCII digits and "
    "converted, a failing check or conversion makes new_request return an error (never `no Content-Length`), that error is answered 400 and closes the "
    "connection (traced into next()); framing headers are looked up by name case-insensitively, the first Content-Length decides, and a Transfer-Encoding "
    "header disables Content-Length.")
TRUSTED = ["rustc MIR / trait resolution", "grammar table of std integer parsers (usize::from_str / from_str_radix accept an optional leading '+')",
           "str::splitn / contains(char::is_whitespace) semantics"]

LEADING_TRIM = re.compile(r"<impl str>::(trim|trim_start|trim_left|trim_start_matches|trim_left_matches|trim_matches|strip_prefix|split_whitespace|split_ascii_whitespace|trim_ascii|trim_ascii_start)$")
ANY_TRIM = re.compile(r"<impl str>::trim|strip_|split_whitespace|trim_ascii")


def run(ctx):
    facts = ctx.facts
    roles.bind(facts)
    PM = PRS.pmodel(facts)
    FM = FRM.fmodel(facts)
    hf = method(facts, T_FROMSTR, HFIELD, "from_str")
    hd = method(facts, T_FROMSTR, HEADER, "from_str")

    # ---- C16.1 whitespace in the name is rejected; split at the first colon
    f = inline.inlined(facts, hf.id, stop=lambda d: facts.fns[d].rec.get("local") and facts.fns[d].file != hf.file, extern_ok=Q.std_small)
    ctx.touch(f)
    ps = [p for p in absint.explore(f, 0, None, max_paths=2000) if p.end[0] == "return"]
    oks = [p for p in ps if p.ret()[0] == "agg" and p.ret()[2] == "Ok"]
    bad = []
    for p in oks:
        tests = []
        for bb, c in p.conds:
            if not c or c[0] != "scalar" or not isinstance(c[2], bool):
                continue
            v, neg = c[1], False
            while v[0] == "unop" and v[1] == "Not":
                v, neg = v[2], not neg
            if v[0] != "call":
                continue
            ws = any(x and x[0] == "const" and len(x) > 3 and x[3] and str(x[3]).endswith("<impl char>::is_whitespace") for x in absint.walk_terms(v)) or \
                FRM.closure_calls_only(facts, v, r"is_whitespace$|is_ascii_whitespace$")
            if not ws:
                continue
            val = c[2] != neg
            whole = any(y and y[0] == "init" and y[1] and y[1][0] == 1 for y in absint.walk_terms(v[2][0])) and not any(y and y[0] == "call" and ANY_TRIM.search(y[1]) for y in absint.walk_terms(v))
            if re.search(r"contains|Iterator>?::any$|::find$|::position$", v[1]):
                tests.append((not val) and whole)
            elif re.search(r"Iterator>?::all$", v[1]):
                tests.append(val and whole)
        for bb, c in p.conds:
            if c and c[0] == "variant" and c[2] in ("Some", "None") and c[3] and c[3][0] == "call" and re.search(r"::find$|::position$", c[3][1]) and \
                    any(x and x[0] == "const" and len(x) > 3 and x[3] and "is_whitespace" in str(x[3]) for x in absint.walk_terms(c[3])):
                tests.append(c[2] == "None")
        if not any(tests):
            bad.append("accepted without a negative whitespace test of the whole name")
    ctx.ob("C16.1", "%s|whitespace-rejected" % hf.id, "a header name is accepted only after a test of the whole, untrimmed name found no whitespace character (a name containing whitespace yields Err)",
           bool(oks) and not bad, "%s:%d" % (hf.file, hf.line), None if not bad else str(bad[:2]))
    # HeaderField constructed elsewhere only through its validating constructors (same module)
    for g, bb, t in facts.all_calls(lambda t: any((a.get("fn") or "") == HFIELD for a in t["args"])):
        ctx.ob("C16.1", "field-ctor|%s" % g.id, "HeaderField values are created only inside the module that validates them", g.file == hf.file, g.loc(bb))
    for g, bb, s in facts.constructions(HFIELD):
        ctx.ob("C16.1", "field-ctor|%s" % g.id, "HeaderField values are created only inside the module that validates them", g.file == hf.file, g.loc(bb))
    shared.header_split_rule(ctx, "C16.1")
    # the name part goes through HeaderField's parser, untrimmed
    same = lambda d: facts.fns[d].rec.get("local") and facts.fns[d].file == hd.file and ("FromStr" not in d or d.startswith(hd.id + "::"))
    g = inline.inlined(facts, hd.id, stop=lambda d: facts.fns[d].rec.get("local") and not same(d), extern_ok=Q.std_small)
    ctx.touch(g)
    fld = [x["name"] for x in facts.adt(HEADER)["variants"][0]["fields"] if x["ty"] == HFIELD][0]
    bad = []
    okp = [p for p in absint.explore(g, 0, None, max_paths=3000) if p.end[0] == "return" and p.ret()[0] == "agg" and p.ret()[2] == "Ok"]
    for p in okp:
        h = absint.deep(p.state, p.ret()[3]["0"])
        name_v = h[3].get(fld) if h[0] == "agg" else None
        if name_v is None:
            bad.append("no name")
            continue
        parsers = [x for x in absint.walk_terms(name_v) if x and x[0] == "call" and (x[1] == hf.id or re.search(r"<impl str>::parse$", x[1]) and HFIELD in (x[4] if len(x) > 4 else ""))]
        if not parsers:
            bad.append("the name is not validated by HeaderField's parser")
        elif any(y and y[0] == "call" and ANY_TRIM.search(y[1]) for y in absint.walk_terms(parsers[0][2][0])):
            bad.append("the name is trimmed before it is validated")
    ctx.ob("C16.1", "%s|name-through-HeaderField-parser" % hd.id, "the stored name is the untrimmed text before the first colon, validated by HeaderField's parser (so `Name :` keeps its space and is rejected)",
           bool(okp) and not bad, "%s:%d" % (hd.file, hd.line), None if not bad else str(sorted(set(bad))[:3]))

    # ---- C16.2 no leading-whitespace sanitiser in front of the header parser; the empty-line test looks at the untrimmed line
    rd = PM.rd
    ctx.touch(rd)
    lines = PM.line_calls()
    first = [b for b in lines if all(rd.dominates(b, x, unwind=False) for x in lines)]
    LINE = ("sym", "a-header-line")
    nrc = [bb for bb, t in rd.calls() if call_matches(t, r"^request::new_request$")]
    n_sites = n_emp = 0
    bad_trim, bad_emp = [], []
    for b in [x for x in lines if x not in first]:
        ic = rd.blocks[b]["inl_call"]
        st = symex.Sym(rd)
        st.write_key(pl_key(ic["dest"]), PRS.Ok_(LINE))
        ps = absint.Explorer(rd, stop_blocks=set(lines), stop=lambda bb, t, s: "built" if bb in nrc else None, max_paths=4000, deep_events=True).run(ic["target"], st)
        for p in ps:
            for e in p.calls():
                if rd.local_ty(rd.term(e[0])["dest"]["l"]).startswith("std::result::Result<common::Header,"):
                    arg = (e[8] or e[3])[0] if (e[8] or e[3]) else None
                    n_sites += 1
                    if arg is None or not absint.contains(arg, LINE):
                        bad_trim.append("the header parser is not given the received line")
                    else:
                        tr = [short(y[1]) for y in absint.walk_terms(arg) if y and y[0] == "call" and LEADING_TRIM.search(y[1])]
                        if tr:
                            bad_trim.append("leading-whitespace remover on the way: %s" % tr)
            for bb, c in p.conds:
                if c and c[0] == "scalar" and isinstance(c[2], bool) and c[1][0] == "call" and c[1][1].endswith("is_empty") and absint.contains(c[1], LINE):
                    n_emp += 1
                    tr = [short(y[1]) for y in absint.walk_terms(c[1]) if y and y[0] == "call" and ANY_TRIM.search(y[1])]
                    if tr:
                        bad_emp.append("the line is stripped (%s) before the empty-line test" % tr)
    ctx.floor("C16.2 header-parser call sites on the head reader's paths", n_sites, 1)
    ctx.ob("C16.2", "%s|header-line-untrimmed" % PM.read_def,
           "the header line reaches the header parser with its leading whitespace intact (a leading trim would turn ` Name: v` / obs-fold lines into valid headers)",
           not bad_trim, "%s:%d" % (rd.file, rd.line), None if not bad_trim else str(sorted(set(bad_trim))[:3]))
    ctx.ob("C16.2", "%s|empty-line-untrimmed" % PM.read_def, "the end-of-head test is made on the untrimmed line (a whitespace-only line is a malformed header, not the end of the head)",
           n_emp > 0 and not bad_emp, "%s:%d" % (rd.file, rd.line), None if not bad_emp else str(sorted(set(bad_emp))[:3]))
    for h, bb, t in facts.all_calls(lambda t: call_is(t, hd.id) or call_matches(t, r"parse::<common::Header>$")):
        if h.file == PM.file or PM.same_file(h.id):
            continue
        ctx.ob("C16.2", "other-header-parse|%s" % h.id, "no other place of the connection code parses client header lines", h.file not in (facts.adt(CC)["file"], facts.adt(REQ)["file"]), h.loc(bb), nontrivial=False)

    import rules_C13
    rules_C13.line_reader_rules(ctx, facts, "C16.2")

    # ---- C16.3 Content-Length value
    nr0 = FM.nr0
    where = "%s:%d" % (nr0.file, nr0.line)
    rows = [r for r in FM.rows if r["end"] == "return"]
    has_digits = any(a[0][0] == "cl_digits" for r in rows for a in r["atoms"])
    has_parse = any(a[0][0] == "cl_parse" for r in rows for a in r["atoms"])
    ctx.ob("C16.3", "%s|content-length-digits-only" % nr0.id,
           "only 1*DIGIT is accepted: the Content-Length text is tested to consist of ASCII digits and converted by a recognised integer parser (the std parsers alone also accept a leading `+`)",
           has_digits and has_parse, where, None if has_digits and has_parse else "digits test=%s integer parser=%s" % (has_digits, has_parse))
    bad_inv, bad_every = [], []
    n_two = 0
    for r in rows:
        ats = r["atoms"]
        present = sum(1 for a, v in ats if a[:2] == ("present", "Content-Length") and v)
        dig_t = sum(1 for a, v in ats if a[0] == "cl_digits" and v)
        dig_f = sum(1 for a, v in ats if a[0] == "cl_digits" and not v)
        par_t = sum(1 for a, v in ats if a[0] == "cl_parse" and v)
        par_f = sum(1 for a, v in ats if a[0] == "cl_parse" and not v)
        if (dig_f or par_f) and r["kind"] != "err":
            bad_inv.append(Q._ret_str(r["path"])[:60])
        if r["kind"] == "ok":
            if present >= 2:
                n_two += 1
            if dig_t < present or par_t < present:
                bad_every.append("%d Content-Length headers, %d digit tests, %d conversions (Transfer-Encoding present: %s)" % (present, dig_t, par_t, any(a[:2] == ("present", "Transfer-Encoding") and v for a, v in ats)))
    ctx.ob("C16.3", "%s|content-length-invalid-is-error" % nr0.id, "a Content-Length that is not all digits or does not convert is an error of the request (400), never `no Content-Length`", not bad_inv, where,
           None if not bad_inv else str(bad_inv[:3]))
    ctx.ob("C16.3", "%s|content-length-every-occurrence" % nr0.id, "every Content-Length header of a request is validated, also a second one and also next to Transfer-Encoding", n_two > 0 and not bad_every, where,
           None if not bad_every else str(sorted(set(bad_every))[:3]))

    # ---- C16.4 the rejecting arms close the connection with 400 (traced from the head reader into next())
    PRS.trace_and_judge(ctx, "C16.4", "C16.4", only=lambda label: label == "malformed header line" or (label.endswith("reported by new_request") and "xpect" not in label))

    # ---- C16.5 framing header lookup (and: new_request gets every header line the client sent, so none of them escapes the validation)
    import rules_C02
    rules_C02.header_loop_rules(ctx, "C16.5")
    seen = {a[0][1] for r in rows for a in r["atoms"] if a[0][0] == "present"}
    for name in ("Transfer-Encoding", "Content-Length"):
        ctx.ob("C16.5", "%s|lookup-%s" % (nr0.id, name), "%s is looked up by name, case-insensitively" % name, name in seen, where)
    bad, n_rows = FRM.table_mismatches(FM, {"reader", "length"}, merge={"buffer": "exactly-CL", "equal": "exactly-CL"})
    bad = [b for b in bad if b[0]["te"]]
    ctx.ob("C16.5", "%s|TE-disables-CL" % nr0.id, "with a Transfer-Encoding header the body is chunk-decoded and no length is declared, whatever Content-Length says", not bad, where, None if not bad else str(bad[:3]))
    # the name comparison itself: the stored name is compared whole.  A comparison that first trims (or otherwise cuts) the stored name
    # makes `Transfer-Encoding<ws>` designate the framing header as soon as any whitespace-like byte gets past the name test.
    n_eq = 0
    for fid in sorted(facts.fns):
        if not re.search(r"(^|::)HeaderField::equiv$", fid) and not (fid.startswith("<common::HeaderField as ") and re.search(r"PartialEq.*>::eq$", fid)):
            continue
        ge = facts.fns[fid]
        if not ge.rec.get("local"):
            continue
        fe = inline.inlined(facts, ge.id, stop=lambda d: False, extern_ok=Q.std_small)
        ctx.touch(fe)
        n_eq += 1
        cuts = sorted({"%s at %s" % (short(call_name(t)), fe.loc(bb)) for bb, t in fe.calls() if ANY_TRIM.search(call_name(t)) or re.search(r"<impl str>::(split\w*|rsplit\w*|replace\w*|get|get_unchecked)$|SliceIndex<str>>::index$", call_name(t))})
        ctx.ob("C16.5", "%s|name-compared-whole" % ge.id, "header names are compared whole (case aside): nothing is trimmed or cut off the stored name before the comparison", not cuts,
               "%s:%d" % (ge.file, ge.line), None if not cuts else "the comparison works on a cut name: %s" % cuts[:3])
    ctx.counts["C16.5 name comparison functions examined"] = n_eq
    # first occurrence decides
    bad_first = []
    n2 = 0
    for r in rows:
        if r["kind"] != "ok" or not r["length"]:
            continue
        ats = r["atoms"]
        if sum(1 for a, v in ats if a[:2] == ("present", "Content-Length") and v) < 2 or any(a[:2] == ("present", "Transfer-Encoding") and v for a, v in ats):
            continue
        n2 += 1
        L = absint.deep(r["path"].state, r["length"][0])
        h = absint.head_call(L[1]) if L[0] == "some" else None
        if h is None or (h[5] if len(h) > 5 else 1) != 1:
            # the conversion of the first header is the first execution of the conversion site... unless both are converted at different sites
            sites = sorted({(e[0]) for e in r["path"].calls() if FRM.INT_PARSE.search(e[2] + " " + (e[7] or ""))})
            order = [e[0] for e in r["path"].calls() if FRM.INT_PARSE.search(e[2] + " " + (e[7] or ""))]
            if h is None or not order or h[3] != order[0] or (len(sites) == 1 and (h[5] if len(h) > 5 else 1) != 1):
                bad_first.append(symex.sym_str(L)[:80])
    ctx.ob("C16.5", "%s|first-Content-Length" % nr0.id, "with several Content-Length headers the first one in arrival order is the one used", n2 > 0 and not bad_first, where, None if not bad_first else str(bad_first[:3]))
    return {}
