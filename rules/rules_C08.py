"""C08 — connections are isolated: none waits for another, however many arrive at once."""
import re
from core import *  # noqa
from roles import *  # noqa
import roles, shared, symex, inline, absint
import queue_rules as Q
import pool_rules as PR
import server_rules as S

EXPLANATION = (
    "Dispatch/hand-off clauses decided on MIR, with the pool, its dispatch method, its worker and its counters bound by structure and role "
    "(not by private names) and every body analysed with its helpers spliced in: the enqueue-vs-new-thread decision of the pool's dispatch must "
    "depend on both the idle-worker counter and the number of already queued tasks (a guard on the idle counter alone promises one parked worker "
    "to many connections, which then wait for some other connection to end); every counter increment is paired with a decrement on every way out; "
    "nothing blocking and no task runs while the task-queue lock is held (ownership dataflow + mono effect graph); each accepted connection reaches "
    "exactly one dispatch; every popped task is run exactly once and a worker only retires when its wait timed out with an empty queue (variant / "
    "constant propagation over the worker loop); blocking channel receives exist only in the per-connection turn-taking module (census). "
    "OS thread creation, throughput and scheduling are not decided.")
TRUSTED = ["rustc MIR / trait resolution", "std effect table", "std Mutex/Condvar/atomics semantics"]

FORBIDDEN_UNDER_TODO = {"BLOCK-IO", "CHAN-RECV", "WAIT-TURN-W", "WAIT-TURN-R", "SLEEP", "JOIN", "USER-CALLBACK", "DYN-UNKNOWN", "FNPTR", "FS", "NET-CTL"}


def Q_ret(p):
    import queue_rules as Q
    return Q._ret_str(p)


def run(ctx):
    facts = ctx.facts
    roles.bind(facts)
    P = PR.model(facts)
    SM = S.smodel(facts)

    # ---- C08.1 promise accounting in dispatch, counter discipline
    PR.rule_dispatch(ctx, "C08.1")
    n = PR.rule_counter_discipline(ctx, "C08.1")
    ctx.floor("C08.1 counter writes", n, 2)
    PR.rule_idle_window(ctx, "C08.1")

    # ---- C08.2 nothing blocking / no task runs under the todo lock
    n = PR.rule_nothing_under_lock(ctx, "C08.2", FORBIDDEN_UNDER_TODO)
    ctx.floor("C08.2 calls under the todo lock", n, 8)

    # ---- C08.3 one dispatch per accepted connection
    a = SM.a
    ctx.touch(a)
    accepts = a.call_blocks(lambda t: call_matches(t, r"connection::Listener::accept$"))
    spawns = a.call_blocks(lambda t: call_is(t, P.dispatch.id))
    ccnew = a.call_blocks(lambda t: call_matches(t, r"client::ClientConnection::new$"))
    ctx.ob("C08.3", "accept-thread|shape", "the accept thread accepts connections, wraps each in a ClientConnection and hands it to the pool", len(accepts) == 1 and bool(spawns) and bool(ccnew), "%s:%d" % (a.file, a.line),
           "accept=%d dispatch=%d ClientConnection::new=%d" % (len(accepts), len(spawns), len(ccnew)))
    # the accept thread serves every client: apart from `accept()` itself it does nothing that waits for one of them (reading from an
    # accepted socket, waiting for a turn or for a message): a client that connects and stays silent must not keep the others from
    # being accepted
    WAITS = {"BLOCK-IO", "CHAN-RECV", "CV-WAIT", "CV-WAIT-T", "WAIT-TURN-R", "WAIT-TURN-W"}
    badw = []
    nw = 0
    for bb, t in a.calls():
        if bb in accepts:
            continue
        nw += 1
        # (what the call does: virtual calls count where they are made, not where the trait object is built)
        w_ = facts.effects_at(a, bb, creator=False, deep=True) & WAITS
        if w_:
            badw.append("%s: %s at %s" % (short(call_name(t)), sorted(w_), a.loc(bb)))
    ctx.ob("C08.3", "accept-thread|waits-for-no-client", "between two `accept()` calls the accept thread does nothing that can wait for a client (no read from an accepted socket, no wait for a turn, a message or a condition)",
           nw > 0 and not badw, "%s:%d" % (a.file, a.line), None if not badw else str(badw[:3]))
    if len(accepts) == 1 and spawns and ccnew:
        # path-wise (the wrapping and the dispatch may sit in different helpers, with the connection travelling through Option / Result
        # in between): on every abstract path, a connection that was wrapped is handed to the pool before the thread accepts again or ends
        import absint
        def on_call(bb, t, args, st):
            if bb in ccnew:
                return ("sym", "connection@%d" % bb)
            return None
        ps = absint.explore(a, 0, None, on_call=on_call, max_visits=2, max_paths=20000, deep_events=True)
        ctx.paths += len(ps)
        lost = {}
        for p in ps:
            ev = p.calls()
            for k, e in enumerate(ev):
                if e[0] in ccnew:
                    me = ("sym", "connection@%d" % e[0])
                    handed = False
                    for e2 in ev[k + 1:]:
                        if e2[0] in spawns and any(absint.contains(x, me) for x in (e2[8] or e2[3])):
                            handed = True
                            break
                        if e2[0] in accepts:
                            break
                    if not handed and (p.end[0] == "return" or any(e2[0] in accepts for e2 in ev[k + 1:])):
                        lost[e[0]] = Q_ret(p)
        for i, cb in enumerate(ccnew):
            ctx.ob("C08.3", "accept-thread|connection-spawned|%d" % i, "every accepted connection is handed to the pool before the next accept", cb not in lost and bool(ps), a.loc(cb), lost.get(cb))
        for i, sb in enumerate(spawns):
            again = a.reach([a.normal_target(sb)], blocked=set(accepts), unwind=False)
            ctx.ob("C08.3", "accept-thread|spawn-once|%d" % i, "a connection is spawned once (no second spawn without another accept)", not (again & set(spawns)), a.loc(sb))
            # what is dispatched is the per-connection task
            o = a.origin(a.term(sb)["args"][1]) if len(a.term(sb)["args"]) > 1 else ("unknown",)
            okt = any(x[0] == "agg" and x[1] == SM.task_def for x in origin_walk(o))
            ctx.ob("C08.3", "accept-thread|dispatches-connection-task|%d" % i, "what is handed to the pool is the task that serves this connection", okt, a.loc(sb), origin_str(o)[:200])

    # ---- C08.6 a queued request wakes a receiver: otherwise requests of other connections wait for whichever handler returns to recv()
    # although idle receivers exist (the queue's hand-off, decided by the rules C07.2 uses)
    import queue_rules as QR
    n6 = QR.rule_notify_after_push(ctx, "C08.6")
    ctx.floor("C08.6 queueing sites", n6, 2)

    # ---- C08.4 worker: every popped task runs exactly once; retire only when timed out with an empty queue
    n = PR.rule_worker_loop(ctx, "C08.4")
    ctx.floor("C08.4 worker pop/wait sites", n, 3)

    # ---- C08.5 blocking receives exist only in the per-connection turn taking
    seq_file = facts.adt(SW)["file"]
    tk = SM.tk
    n = 0
    for g, bb, t in facts.all_calls(lambda t: call_is(t, RECV, "std::sync::mpsc::Receiver::<T>::recv_timeout") or call_matches(t, r"std::sync::mpsc::(Iter|IntoIter)<.*> as std::iter::Iterator>::next$")):
        n += 1
        where = g.id
        ok = g.file == seq_file       # (a method of the turn-taking types, a provided method of a private trait of that module, a helper there)
        dead = None
        if not ok:
            # the HTTPS-only wait of the connection task
            tbs = [b2 for b2 in range(tk.n) if tk.src_of(b2) == g.id and tk.blocks[b2].get("obb") == bb and not tk.blocks[b2].get("synthetic")]
            if tbs:
                dead = all(shared.tls_branch_dead(ctx, tk, b2) for b2 in tbs)
                ok = dead
        if not ok and re.match(r"^response::Response::<R>::new$", where):
            ok = True  # application-provided `additional_headers` receiver: application-side, not a connection
        ctx.ob("C08.5", "chan-recv|%s" % where, "a blocking channel receive occurs only in the same-connection reader/writer turn taking (the module that owns the turn channels)"
               + (" (the HTTPS-only wait in the connection task is dead code in this configuration)" if dead else ""), ok, g.loc(bb))
    ctx.floor("C08.5 blocking receive sites", n, 4)
    inst = [i for i in facts.instances_of(SM.task_def) if i["kind"] == "item"]
    ctx.require(len(inst) == 1, "C08.5: instance of the connection task")
    bad = facts.effects()[inst[0]["id"]] & {"CV-WAIT", "CV-WAIT-T", "SLEEP", "JOIN"}
    ctx.ob("C08.5", "connection-task|no-cross-connection-wait", "the connection task never sleeps, joins or waits on a condition variable", not bad, "%s:%d" % (tk.file, tk.line),
           None if not bad else "%s via %s" % (sorted(bad), facts.effect_witness(inst[0]["id"], sorted(bad)[0])[:8]))
    return {}
