"""C08 — connections are isolated: none waits for another, however many arrive at once."""
import re
from core import *  # noqa
from roles import *  # noqa
import roles, shared, symex

EXPLANATION = (
    "Dispatch/hand-off clauses decided on MIR: the enqueue-vs-new-thread decision of TaskPool::spawn must depend on both the idle-worker "
    "counter and the number of already queued tasks (provenance of the deciding branch conditions; a guard on the idle counter alone "
    "promises one parked worker to many connections, which then wait for some other connection to end); nothing blocking and no task "
    "runs while the `todo` lock is held (ownership dataflow + mono effect graph); each accepted connection reaches exactly one spawn; "
    "every popped task is run and a worker only retires when it timed out with an empty queue; blocking channel receives exist only in "
    "the per-connection turn-taking (census). OS thread creation, throughput and scheduling are not decided.")
TRUSTED = ["rustc MIR / trait resolution", "std effect table", "std Mutex/Condvar/atomics semantics"]

FORBIDDEN_UNDER_TODO = {"BLOCK-IO", "CHAN-RECV", "WAIT-TURN-W", "WAIT-TURN-R", "SLEEP", "JOIN", "USER-CALLBACK", "DYN-UNKNOWN", "FNPTR", "FS", "NET-CTL"}


def guard_locals(f):
    return {i for i, l in enumerate(f.locals) if l["ty"].startswith("std::sync::MutexGuard<")}


def run(ctx):
    facts = ctx.facts
    roles.bind(facts)
    spawn = roles.inherent(facts, TP, "spawn")
    add_thread = roles.inherent(facts, TP, "add_thread")
    workers = facts.find_fns(r"^util::task_pool::TaskPool::add_thread::\{closure#0\}$")
    ctx.require(len(workers) == 1, "C08: worker closure not found")
    worker = workers[0]

    # ---- C08.1 promise accounting in spawn
    f = spawn
    ctx.touch(f)
    pushes = [bb for bb, t in f.calls() if re.search(r"VecDeque::<T(, A)?>::push_back$", call_name(t))]
    starts = f.call_blocks(lambda t: call_is(t, add_thread.id))
    ctx.require(starts or pushes, "C08.1: spawn neither enqueues nor starts a thread")
    if not pushes:
        ctx.ob("C08.1", "%s|promise-accounting" % f.id, "spawn never queues a connection for an idle worker (always a new thread): no promise to account for", True, "%s:%d" % (f.file, f.line), nontrivial=False)
    if not starts:
        ctx.ob("C08.1", "%s|promise-accounting" % f.id, "spawn can start a new worker when no idle one is available", False, "%s:%d" % (f.file, f.line), "spawn only ever queues: with every worker busy a new connection waits for another one to end")
    skip_c081 = not (pushes and starts)
    deciding = []
    for bb in ([] if skip_c081 else sorted(f.live_blocks())):
        if f.term(bb)["t"] != "switch" or f.blocks[bb]["cleanup"]:
            continue
        succ = f.succs(bb, False)
        reach = [f.reach([s], unwind=False) for s in succ]
        can_push = [bool(r & set(pushes)) for r in reach]
        can_start = [bool(r & set(starts)) for r in reach]
        if any(can_push) and any(can_start) and (can_push != can_start or not all(can_push)):
            deciding.append(bb)
    ctx.require(deciding or skip_c081, "C08.1: deciding branch of spawn not found")
    reads_idle = reads_queue = False
    for bb in deciding:
        o = f.origin(f.term(bb)["discr"])
        for x in origin_calls(o):
            if re.search(r"atomic::Atomic(::<usize>|Usize)::load$", x[1]) and any("waiting_tasks" in origin_fields(a) for a in x[2]):
                reads_idle = True
            if re.search(r"VecDeque::<T(, A)?>::(len|is_empty)$", x[1]):
                reads_queue = True
    # alternative accepted protocol: the enqueue branch claims a worker by decrementing the idle counter itself
    claims = False
    for pb in pushes:
        for b2 in f.reach([pb], unwind=False):
            t = f.term(b2)
            if t["t"] == "call" and re.search(r"atomic::Atomic(::<usize>|Usize)::fetch_sub$", call_name(t)) and "waiting_tasks" in arg_origin_fields(f, t):
                claims = True
    ok = reads_idle and (reads_queue or claims)
    if not skip_c081:
      ctx.ob("C08.1", "%s|promise-accounting" % f.id,
           "the decision to queue a connection for an idle worker accounts for the connections already queued (each parked worker is promised to at most one task)",
           ok, f.loc(deciding[0]), None if ok else "deciding condition reads idle-counter=%s queued-count=%s claim-on-enqueue=%s: a burst of connections is queued for the same idle worker and the rest starve until another connection ends" % (reads_idle, reads_queue, claims))
    # facts the argument relies on: the idle counter is only changed by the worker's Registration guard
    for adt, fld in ((SHARING, "waiting_tasks"), (SHARING, "active_tasks")):
        for g, bb, kind in facts.field_reads(adt, fld):
            okf = g.id in (spawn.id, worker.id) or g.rec.get("impl_self_adt") == TP
            ctx.ob("C08.1", "%s.%s|reader|%s" % (adt, fld, g.id), "the worker counters are used only by the pool itself", okf, g.loc(bb))
    nctr = shared.pool_counter_discipline(ctx, "C08.1")
    ctx.floor("C08.1 counter writes", nctr, 2)
    # the idle registration is taken by the worker right before it parks and lives until after the wake-up
    wregs = [(bb, t) for bb, t in worker.calls() if call_is(t, roles.inherent(facts, REG, "new").id) and "waiting_tasks" in arg_origin_fields(worker, t)]
    waits = [bb for bb, t in worker.calls() if call_is(t, CV_WAIT, CV_WAIT_T)]
    okw = len(wregs) == 1 and bool(waits) and all(worker.dominates(wregs[0][0], w_, unwind=False) for w_ in waits)
    if okw:
        gl_ = wregs[0][1]["dest"]["l"]
        gd_ = {bb for bb, t in worker.drops() if not t["pl"]["p"] and t["pl"]["l"] == gl_}
        r_ = worker.reach([worker.normal_target(wregs[0][0])], blocked=gd_, unwind=True)
        okw = not [x for x in r_ if worker.term(x)["t"] in ("return", "resume")] and not (r_ & {wregs[0][0]})
    ctx.ob("C08.1", "%s|idle-count-guarded" % worker.id, "a worker counts as idle from just before it parks until it has woken up, and gives the count back on every exit (early return, unwinding)", okw, "%s:%d" % (worker.file, worker.line))
    # push happens under the lock and is followed by a notify
    nots = set(f.call_blocks(lambda t: call_is(t, *CV_NOTIFY)))
    for pb in pushes:
        reach = f.reach([f.normal_target(pb)], blocked=nots, unwind=False)
        ctx.ob("C08.1", "%s|enqueue-notifies" % f.id, "a queued task is announced to a parked worker", bool(nots) and not any(r in reach for r in f.returns()), f.loc(pb))

    # ---- C08.2 nothing blocking / no task runs under the todo lock
    n = 0
    for g in (spawn, worker):
        insts = [i for i in facts.instances_of(g.id) if i["kind"] == "item"]
        ctx.require(len(insts) == 1, "C08.2: instance of %s" % g.id)
        inst = insts[0]
        IN = maybe_init(g)
        gl = guard_locals(g)
        ctx.require(gl, "C08.2: no MutexGuard local in %s" % g.id)
        ctx.touch(g)
        for bb, t in g.calls():
            if g.blocks[bb]["cleanup"]:
                continue
            held = init_at_terminator(g, IN, bb) & gl
            if not held:
                continue
            n += 1
            ctx.call_sites += 1
            eff = facts.call_effects(inst, bb) & FORBIDDEN_UNDER_TODO
            is_task = t.get("callee") in ("std::ops::FnMut::call_mut", "std::ops::FnOnce::call_once", "std::ops::Fn::call")
            ok = not eff and not is_task
            ctx.ob("C08.2", "%s|under-todo-lock|%s" % (g.id, short(call_name(t))), "while the pool's task-queue lock is held nothing blocks and no task runs", ok, g.loc(bb),
                   None if ok else ("a task is invoked with the lock held" if is_task else "effects %s" % sorted(eff)))
        for bb, t in g.drops():
            if g.blocks[bb]["cleanup"] or "MutexGuard" in t["ty"]:
                continue
            held = (IN[bb] or frozenset()) & gl
            if held and "dyn std::ops::FnMut" in t["ty"]:
                n += 1
                ctx.ob("C08.2", "%s|under-todo-lock|drop-task" % g.id, "no task (and the connection it owns) is destroyed while the lock is held", False, g.loc(bb))
    ctx.floor("C08.2 calls under the todo lock", n, 8)

    # ---- C08.3 one spawn per accepted connection
    acc = facts.find_fns(r"^Server::from_listener::\{closure#0\}$")
    ctx.require(len(acc) == 1, "C08.3: accept-thread closure not found")
    a = acc[0]
    ctx.touch(a)
    accepts = a.call_blocks(lambda t: call_matches(t, r"connection::Listener::accept$"))
    spawns = a.call_blocks(lambda t: call_is(t, spawn.id))
    ctx.require(len(accepts) == 1 and spawns, "C08.3: accept/spawn calls not found (accept=%d spawn=%d)" % (len(accepts), len(spawns)))
    ccnew = a.call_blocks(lambda t: call_matches(t, r"client::ClientConnection::new$"))
    ctx.require(ccnew, "C08.3: ClientConnection::new not called in the accept loop")
    for i, cb in enumerate(ccnew):
        reach = reach_variants(a, [a.normal_target(cb)], blocked=set(spawns), unwind=False)
        ok = accepts[0] not in reach and not any(r in reach for r in a.returns())
        ctx.paths += 1
        ctx.ob("C08.3", "%s|connection-spawned|%d" % (a.id, i), "every accepted connection is handed to the pool before the next accept", ok, a.loc(cb))
    for i, sb in enumerate(spawns):
        again = a.reach([a.normal_target(sb)], blocked=set(accepts), unwind=False)
        ctx.ob("C08.3", "%s|spawn-once|%d" % (a.id, i), "a connection is spawned once (no second spawn without another accept)", not (again & set(spawns)), a.loc(sb))
    task = facts.find_fns(r"^Server::from_listener::\{closure#0\}::\{closure#0\}$")
    ctx.require(len(task) == 1, "C08.3: connection task closure not found")
    tk = task[0]
    takes = [(bb, t) for bb, t in tk.calls() if call_is(t, "std::option::Option::<T>::take") and "client" in arg_origin_fields(tk, t)]
    ok = len(takes) == 1
    if ok:
        bb, t = takes[0]
        iters = tk.call_blocks(lambda t2: call_matches(t2, r"ClientConnection as std::iter::Iterator>::next$"))
        sw = None
        for b2 in sorted(tk.reach([t["target"]], unwind=False)):
            s2 = switch_on_discr(tk, b2)
            if s2 and s2[0]["pl"]["l"] == t["dest"]["l"]:
                sw = (b2, s2)
                break
        ok = sw is not None and all(tk.dominates(sw[0], ib, unwind=False) for ib in iters)
    ctx.ob("C08.3", "%s|takes-connection-once" % tk.id, "the task takes its connection out of an Option, so running it again is a no-op (one worker per connection)", ok, "%s:%d" % (tk.file, tk.line))

    # ---- C08.4 worker: every popped task runs; retire only when timed out with an empty queue
    w = worker
    pops = [bb for bb, t in w.calls() if re.search(r"VecDeque::<T(, A)?>::pop_front$", call_name(t))]
    runs = [bb for bb, t in w.calls() if t.get("callee") == "std::ops::FnMut::call_mut" and not w.blocks[bb]["cleanup"]]
    ctx.require(pops and runs, "C08.4: worker has no pop_front / task call")
    for i, pb in enumerate(pops):
        t = w.term(pb)
        sw = None
        for b2 in sorted(w.reach([t["target"]], unwind=False)):
            s2 = switch_on_discr(w, b2)
            if s2 and s2[0]["pl"]["l"] == t["dest"]["l"] and not s2[0]["pl"]["p"]:
                sw = s2
                break
        ctx.require(sw is not None, "C08.4: popped task is not matched")
        rv, m, otherwise, rest = sw
        some_t = m.get("Some", otherwise if "Some" in rest else None)
        reach = w.reach([some_t], blocked=set(runs), unwind=False)
        ok = not (reach & set(pops)) and not any(r in reach for r in w.returns())
        ctx.paths += 1
        ctx.ob("C08.4", "%s|popped-task-runs|%d" % (w.id, i), "a task taken from the queue is always executed", ok, w.loc(pb))
        # and what runs is the popped task
        for rb in runs:
            if rb in w.reach([some_t], unwind=False):
                o = w.origin(w.term(rb)["args"][0])
                okp = any(x[0] == "downcast" and x[2] == "Some" for x in origin_walk(o)) or any(x[0] == "local" for x in origin_walk(o))
                ctx.ob("C08.4", "%s|runs-popped-task|%d" % (w.id, i), "the task executed is the one popped", okp, w.loc(rb))
    empties = [(bb, t) for bb, t in w.calls() if re.search(r"VecDeque::<T(, A)?>::is_empty$", call_name(t))]
    rets = [r for r in w.returns() if not w.blocks[r]["cleanup"]]
    ctx.require(rets, "C08.4: worker has no return")
    true_edges = []
    for bb, t in empties:
        bs = bool_switch(w, t["target"]) if t.get("target") is not None else None
        if bs and op_local(bs[0]) == t["dest"]["l"]:
            true_edges.append((bb, bs[1], t["target"]))
    for r in rets:
        ok = any(w.dominates(te, r, unwind=False) for _, te, _ in true_edges)
        ctx.ob("C08.4", "%s|retire-only-when-empty" % w.id, "a worker thread exits only after seeing the task queue empty", ok, w.loc(r))
    # ... and only after a wait that timed out
    for bb, te, swb in true_edges:
        dom = w.dominators(False)
        cands = [b for b in dom[bb] if bool_switch(w, b) and b != swb]
        okr = False
        detail = None
        for b in sorted(cands, key=lambda b: -len(dom[b])):
            bs = bool_switch(w, b)
            l = op_local(bs[0])
            if l is None:
                continue
            # `received`: multi-def local (true after the untimed wait, !timed_out() after the timed one)
            src = l
            d = w.single_def(l)
            if d and d[0] == "assign" and d[3]["rv"] == "use" and op_local(d[3]["op"]) is not None:
                src = op_local(d[3]["op"])
            defs = [x for x in w.defs().get(src, []) if x[0] == "assign"]
            kinds = set()
            for x in defs:
                rv = x[3]
                if rv["rv"] == "use" and op_const(rv["op"]) is True:
                    kinds.add("true")
                elif rv["rv"] == "unop" and rv["op"] == "Not" and origin_has_call(w.origin(rv["a"]), r"WaitTimeoutResult::timed_out$"):
                    kinds.add("not-timed-out")
                else:
                    kinds.add("other")
            if kinds == {"true", "not-timed-out"} and w.dominates(bs[2], bb, unwind=False) and not w.dominates(bs[1], bb, unwind=False):
                okr = True
                break
            detail = "received-flag definitions: %s" % sorted(kinds)
        ctx.ob("C08.4", "%s|retire-only-after-timeout" % w.id, "the exit test is reached only when the wait timed out (a notified worker always goes back to the queue)", okr, w.loc(bb), detail if not okr else None)

    # ---- C08.5 blocking receives exist only in the per-connection turn taking
    allowed_recv = {method(facts, T_WRITE, SW, "write").id, method(facts, T_WRITE, SW, "flush").id, method(facts, T_DROP, SW, "drop").id,
                    method(facts, T_READ, SR, "read").id, method(facts, T_DROP, SR, "drop").id}
    n = 0
    for g, bb, t in facts.all_calls(lambda t: call_is(t, RECV, "std::sync::mpsc::Receiver::<T>::recv_timeout") or call_matches(t, r"std::sync::mpsc::(Iter|IntoIter)<.*> as std::iter::Iterator>::next$")):
        n += 1
        where = g.id
        ok = where in allowed_recv
        dead = None
        if not ok and where == tk.id:
            dead = shared.tls_branch_dead(ctx, tk, bb)
            ok = dead
        if not ok and re.match(r"^response::Response::<R>::new$", where):
            ok = True  # application-provided `additional_headers` receiver: application-side, not a connection
        ctx.ob("C08.5", "chan-recv|%s" % where, "a blocking channel receive occurs only in the same-connection reader/writer turn taking"
               + (" (the HTTPS-only wait in the connection task is dead code in this configuration)" if dead else ""), ok, g.loc(bb))
    ctx.floor("C08.5 blocking receive sites", n, 4)
    inst = [i for i in facts.instances_of(tk.id) if i["kind"] == "item"]
    ctx.require(len(inst) == 1, "C08.5: instance of the connection task")
    bad = facts.effects()[inst[0]["id"]] & {"CV-WAIT", "CV-WAIT-T", "SLEEP", "JOIN"}
    ctx.ob("C08.5", "%s|no-cross-connection-wait" % tk.id, "the connection task never sleeps, joins or waits on a condition variable", not bad, "%s:%d" % (tk.file, tk.line),
           None if not bad else "%s via %s" % (sorted(bad), facts.effect_witness(inst[0]["id"], sorted(bad)[0])[:8]))
    return {}
